import ScenicModel.Model.ExprSupported
import ScenicModel.Model.Support
import ScenicModel.Model.Delayed
import ScenicModel.Gen.ExprTables
import ScenicModel.Gen.SupportFormulas
import ScenicModel.Gen.DelayedShapes
import Driver.Util
/-!
Line protocol for the C05 models (expression forest, supports); tables are the ones regenerated from /repo.

  ev <n> <val>*n <expr>     ->  <supported 0/1> | <python value> | <scenic value> | <forest shape>
  sup <n> <ival>*n <sexpr>  ->  <lo> <hi>     (support interval computed by the model; `-` = None, `exc` = exception)
  wo <n> spec*n             ->  1/0: `Delayed.wellOrdered` of an evaluation order (spec ::= <k> dep*k <m> set*m)
  dl <dval>                 ->  <required props> | <read props>   (`Delayed.required` on the generated shapes / `Delayed.reads`)
                                dval ::= c | p <i> | n <kind 0..3> <npos> <nkw> dval*(npos+nkw)
  tables                    ->  a dump of the generated tables

Token syntax (prefix, space separated):
  val  ::= n <rat> | none | s <hex> | t <k> val*k | l <k> val*k | v <rat> <rat> <rat>
  expr ::= C val | L <i> <N|V|O> | B <op> expr expr | U <op> expr | G expr expr | LEN expr | A <name> expr
         | T <k> expr*k | LS <k> expr*k | VEC expr expr expr | F <fn> <k> arg*k        arg ::= P expr | S expr
-/
namespace Driver.C05
open Driver Scenic.Expr

def T : Tables := Scenic.Gen.exprTables

abbrev P (α : Type) := List String → Option (α × List String)

def pRat : P Rat
  | w :: rest => (parseRat w).map (·, rest)
  | [] => none

def pNat : P Nat
  | w :: rest => w.toNat?.map (·, rest)
  | [] => none

def hexToString (h : String) : Option String :=
  if h == "-" then some "" else (fromHex h).map fun bs => String.ofList (bs.map Char.ofNat)

def stringToHex (s : String) : String := toHex (s.toList.map Char.toNat)

partial def pMany {α} (p : P α) : Nat → P (List α)
  | 0, ts => some ([], ts)
  | n + 1, ts => do
    let (x, ts) ← p ts
    let (xs, ts) ← pMany p n ts
    pure (x :: xs, ts)

partial def pVal : P Val
  | "n" :: ts => do let (q, ts) ← pRat ts; pure (.num q, ts)
  | "none" :: ts => some (.none, ts)
  | "s" :: h :: ts => (hexToString h).map fun s => (.str s, ts)
  | "t" :: ts => do let (k, ts) ← pNat ts; let (xs, ts) ← pMany pVal k ts; pure (.seq false xs, ts)
  | "l" :: ts => do let (k, ts) ← pNat ts; let (xs, ts) ← pMany pVal k ts; pure (.seq true xs, ts)
  | "v" :: ts => do
    let (x, ts) ← pRat ts; let (y, ts) ← pRat ts; let (z, ts) ← pRat ts
    pure (.vec x y z, ts)
  | _ => none

def pBinOp : String → Option BinOp
  | "add" => some .add | "sub" => some .sub | "mul" => some .mul | "truediv" => some .truediv
  | "floordiv" => some .floordiv | "mod" => some .mod | "pow" => some .pow | _ => none

def pUnOp : String → Option UnOp
  | "neg" => some .neg | "pos" => some .pos | "abs" => some .abs | _ => none

def pSTy : String → Option STy
  | "N" => some .number | "V" => some .vector | "O" => some .other | _ => none

def pFn : String → Option Fn
  | "max" => some .max | "min" => some .min | _ => none

mutual
  partial def pExpr : P Expr
    | "C" :: ts => do let (v, ts) ← pVal ts; pure (.const v, ts)
    | "L" :: i :: ty :: ts => do pure (.leaf (← i.toNat?) (← pSTy ty), ts)
    | "B" :: op :: ts => do
      let op ← pBinOp op
      let (l, ts) ← pExpr ts; let (r, ts) ← pExpr ts
      pure (.bin op l r, ts)
    | "U" :: op :: ts => do let op ← pUnOp op; let (e, ts) ← pExpr ts; pure (.un op e, ts)
    | "G" :: ts => do let (e, ts) ← pExpr ts; let (i, ts) ← pExpr ts; pure (.getitem e i, ts)
    | "LEN" :: ts => do let (e, ts) ← pExpr ts; pure (.len e, ts)
    | "A" :: name :: ts => do let (e, ts) ← pExpr ts; pure (.attr e name, ts)
    | "T" :: ts => do let (k, ts) ← pNat ts; let (es, ts) ← pMany pExpr k ts; pure (.mkseq false es, ts)
    | "LS" :: ts => do let (k, ts) ← pNat ts; let (es, ts) ← pMany pExpr k ts; pure (.mkseq true es, ts)
    | "VEC" :: ts => do
      let (x, ts) ← pExpr ts; let (y, ts) ← pExpr ts; let (z, ts) ← pExpr ts
      pure (.mkvec x y z, ts)
    | "F" :: f :: ts => do
      let f ← pFn f
      let (k, ts) ← pNat ts; let (as, ts) ← pMany pArg k ts
      pure (.call f as, ts)
    | _ => none
  partial def pArg : P Arg
    | "P" :: ts => do let (e, ts) ← pExpr ts; pure (.pos e, ts)
    | "S" :: ts => do let (e, ts) ← pExpr ts; pure (.star e, ts)
    | _ => none
end

partial def showVal : Val → String
  | .num q => s!"n {showRat q}"
  | .none => "none"
  | .str s => s!"s {stringToHex s}"
  | .seq false xs => s!"t {xs.length}" ++ String.join (xs.map fun x => " " ++ showVal x)
  | .seq true xs => s!"l {xs.length}" ++ String.join (xs.map fun x => " " ++ showVal x)
  | .vec x y z => s!"v {showRat x} {showRat y} {showRat z}"

def showRes : Option Val → String
  | some v => showVal v
  | none => "err"

def binName : BinOp → String
  | .add => "add" | .sub => "sub" | .mul => "mul" | .truediv => "truediv"
  | .floordiv => "floordiv" | .mod => "mod" | .pow => "pow"

def dunderName (op : BinOp) (refl : Bool) : String := "__" ++ (if refl then "r" else "") ++ binName op ++ "__"

def unName : UnOp → String
  | .neg => "__neg__" | .pos => "__pos__" | .abs => "__abs__"

def tyName : STy → String
  | .number => "N" | .vector => "V" | .other => "O"

def fnName : Fn → String
  | .max => "max" | .min => "min"

partial def shape : Node → String
  | .const _ => "c"
  | .leaf i _ => s!"L{i}"
  | n@(.opd2 op refl obj arg) => s!"O:{tyName n.vty}({dunderName op refl},{shape obj},{shape arg})"
  | n@(.opd1 op obj) => s!"O:{tyName n.vty}({unName op},{shape obj})"
  | n@(.geti obj idx) => s!"O:{tyName n.vty}({"__getitem__"},{shape obj},{shape idx})"
  | .lend obj => s!"O:N({"__len__"},{shape obj})"
  | n@(.attrd name obj) => s!"A:{tyName n.vty}({name},{shape obj})"
  | .vop op refl obj arg => s!"VO({dunderName op refl},{shape obj},{shape arg})"
  | .vmeth op refl _ _ _ arg => s!"VM({dunderName op refl},{shape arg})"
  | .vecOf x y z => s!"V({shape x},{shape y},{shape z})"
  | .tupd k xs => (if k then "TDL(" else "TD(") ++ ",".intercalate (xs.map shape) ++ ")"
  | .rawt k xs => (if k then "RTL(" else "RT(") ++ ",".intercalate (xs.map shape) ++ ")"
  | .fnd f args ss =>
    s!"F({fnName f}," ++ ",".intercalate ((args.zip (ss ++ args.map fun _ => false)).map fun (a, s) => (if s then "*" else "") ++ shape a) ++ ")"
  | .fail => "FAIL"

def mkEnv (vals : List Val) : Env := fun i => vals.getD i .none

def showOptRat : Option Rat → String
  | some q => showRat q
  | none => "-"

open Scenic.Support in
partial def pSExpr : P SExpr
  | "K" :: ts => do let (q, ts) ← pRat ts; pure (.const q, ts)
  | "X" :: ts => some (.opaque, ts)
  | "L" :: i :: ts => do pure (.leaf (← i.toNat?), ts)
  | "B" :: op :: r :: ts => do
    let op ← pBinOp op
    let (l, ts) ← pSExpr ts; let (rr, ts) ← pSExpr ts
    pure (.bin op (r == "r") l rr, ts)
  | "U" :: op :: ts => do let op ← pUnOp op; let (e, ts) ← pSExpr ts; pure (.un op e, ts)
  | "RANGE" :: ts => do let (l, ts) ← pSExpr ts; let (h, ts) ← pSExpr ts; pure (.range l h, ts)
  | "DRANGE" :: ts => do let (l, ts) ← pSExpr ts; let (h, ts) ← pSExpr ts; pure (.drange l h, ts)
  | "MUX" :: ts => do let (k, ts) ← pNat ts; let (es, ts) ← pMany pSExpr k ts; pure (.mux es, ts)
  | "HYP" :: ts => do let (k, ts) ← pNat ts; let (es, ts) ← pMany pSExpr k ts; pure (.hypot es, ts)
  | "MONO" :: f :: ts => do
    let f ← pFn f
    let (k, ts) ← pNat ts; let (es, ts) ← pMany pSExpr k ts
    pure (.mono f es, ts)
  | "TN" :: ts => do let (l, ts) ← pRat ts; let (h, ts) ← pRat ts; pure (.truncnormal l h, ts)
  | _ => none

/-- integer square root (floor) by Newton's iteration -/
def isqrt (n : Nat) : Nat := Id.run do
  if n < 2 then return n
  let mut x := 1 <<< (n.log2 / 2 + 1)
  for _ in [0:200] do
    let y := (x + n / x) / 2
    if y ≥ x then break
    x := y
  return x

/-- a rational approximation of `sqrt q` (absolute error < 1e-15 / den; exact on squares of rationals) -/
def ratSqrt (q : Rat) : Rat :=
  if q ≤ 0 then 0 else
  let s : Nat := 1000000000000000
  mkRat (isqrt (q.num.toNat * q.den * s * s)) (q.den * s)

/-- the driver's instance of `math.hypot` (an approximation: values are compared with a tolerance) -/
def hypApprox (xs : List Rat) : Rat := ratSqrt ((xs.map fun x => x * x).sum)

def pIval : P Scenic.Support.Supp
  | a :: b :: ts =>
    let f (s : String) : Option (Option Rat) := if s == "-" then some none else (parseRat s).map some
    do pure ((← f a, ← f b), ts)
  | _ => none

/-- dval ::= c | p <i> | n <kind> <npos> <nkw> dval*(npos+nkw) -/
partial def pDVal : P Scenic.Delayed.DVal
  | "c" :: ts => some (.const 1, ts)
  | "p" :: i :: ts => i.toNat?.map fun i => (.prop i, ts)
  | "n" :: k :: np :: nk :: ts => do
      let kind : Scenic.Delayed.Kind ← match k with
        | "0" => some .fnCall | "1" => some .dCall | "2" => some .opCall | "3" => some .attrGet | _ => none
      let np ← np.toNat?
      let nk ← nk.toNat?
      let rec go (n : Nat) (ts : List String) (acc : List Scenic.Delayed.DVal) : Option (List Scenic.Delayed.DVal × List String) :=
        match n with
        | 0 => some (acc.reverse, ts)
        | n + 1 => do let (d, ts) ← pDVal ts; go n ts (d :: acc)
      let (ps, ts) ← go np ts []
      let (ks, ts) ← go nk ts []
      let args := (ps.map (false, ·) ++ ks.map (true, ·)).foldr (fun a rest => Scenic.Delayed.DVal.arg a.1 a.2 rest) .nil
      pure (.call kind 0 args, ts)
  | _ => none

def showNats (l : List Nat) : String :=
  " ".intercalate ((l.mergeSort (· ≤ ·)).eraseDups.map toString)

def handle : List String → String
  | "ev" :: n :: rest => (do
      let n ← n.toNat?
      let (vals, ts) ← pMany pVal n rest
      let (e, ts) ← pExpr ts
      if !ts.isEmpty then none
      let env := mkEnv vals
      let node := build T e
      let sup := supportedB T env e
      pure s!"{if sup then 1 else 0} | {showRes (evalPy env e)} | {showRes (evalNode T env node)} | {shape node}").getD "bad-op"
  | "sup" :: n :: rest => (do
      let n ← n.toNat?
      let (ivs, ts) ← pMany pIval n rest
      let (e, ts) ← pSExpr ts
      if !ts.isEmpty then none
      pure (match Scenic.Support.support Scenic.Gen.supportFormulas hypApprox (fun i => ivs.getD i (none, none)) e with
        | some (l, h) => s!"{showOptRat l} {showOptRat h}"
        | none => "exc")).getD "bad-op"
  | "wo" :: n :: rest => (do
      -- wo <n> (<ndeps> dep* <nsets> set*)*n : is this evaluation order well ordered (Model/Delayed.lean)?
      let n ← n.toNat?
      let pSpec : P (Scenic.Delayed.Spec Nat) := fun ts => do
        let (k, ts) ← pNat ts; let (ds, ts) ← pMany pNat k ts
        let (m, ts) ← pNat ts; let (ss, ts) ← pMany pNat m ts
        pure ({ deps := ds, sets := ss, value := fun _ _ => 0 }, ts)
      let (specs, ts) ← pMany pSpec n rest
      if !ts.isEmpty then none
      pure (if Scenic.Delayed.wellOrdered specs then "1" else "0")).getD "bad-op"
  | "dl" :: rest => (do
      let (d, ts) ← pDVal rest
      if !ts.isEmpty then none
      pure s!"{showNats (Scenic.Delayed.required Scenic.Gen.delayedShapes .fnCall true d)} | {showNats (Scenic.Delayed.reads d)}").getD "bad-op"
  | ["tables"] =>
    let es := T.simp.map fun e => s!"{dunderName e.op e.refl}:{e.const}"
    let vs := T.vecOps.map fun e => s!"{dunderName e.1 e.2.1}:{if e.2.2 then 1 else 0}"
    s!"simp={",".intercalate es} vec={",".intercalate vs} pythonDispatch={if T.pythonDispatch then 1 else 0} vecSeq={if T.vecHandlerAcceptsSeq then 1 else 0} vecWrap={if T.vecOpsWrapOperands then 1 else 0} monotone={",".intercalate (Scenic.Gen.monotoneDeclared)}"
  | _ => "bad-op"

end Driver.C05

def main : IO Unit := Driver.runLoop Driver.C05.handle
