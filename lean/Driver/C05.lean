import Driver.Util
/-! line protocol for the C05 model (stub: replaced when the property's model is built) -/
namespace Driver.C05
open Driver

def handle : List String → String
  | _ => "bad-op"

end Driver.C05

def main : IO Unit := Driver.runLoop Driver.C05.handle
