import ScenicModel.Gen.IntCodec
import ScenicModel.Gen.Divergence
import ScenicModel.Gen.StreamCfg
import ScenicModel.Model.ReplayStream
import ScenicModel.Model.Replay
import ScenicModel.Model.Sample
import Driver.Util
/-! line protocol for the codec model (C18); the table is the one regenerated from /repo -/
namespace Driver.C18
open Scenic.Codec Driver

def T := Scenic.Gen.intTable

/-! #### sample DAG protocol
nodes: `;`-separated  `c` | `p:<ty>` | `d:<dep,dep,..>` | `m:<idx>:<opt,opt,..>`   (ty ∈ n f i b y v o)
vals : `;`-separated, one per node:  `-` | `n` | `i<int>` | `b0`/`b1` | `f<hex>` | `y<hex>` | `v<hex>` | `o<hex>` -/
open Scenic.Sample in
def parseTy : String → Option Ty
  | "n" => some .none | "f" => some .float | "i" => some .int | "b" => some .bool
  | "y" => some .bytes | "v" => some .vector | "o" => some .orientation | _ => none

def parseNats (s : String) : Option (List Nat) :=
  if s == "" then some [] else (s.splitOn ",").mapM String.toNat?

open Scenic.Sample in
def parseNode (s : String) : Option Node :=
  match s.splitOn ":" with
  | ["c"] => some .const
  | ["p", ty] => (parseTy ty).map .prim
  | ["d", deps] => (parseNats deps).map fun ds => .det ds 0
  | ["m", idx, opts] => do
    let i ← idx.toNat?; let os ← parseNats opts; pure (.mux i os)
  | _ => none

open Scenic.Sample in
def parseVal (s : String) : Option Val :=
  if s == "-" || s == "n" then some .none else
  let tag := s.take 1
  let body := (s.drop 1).toString
  match tag.toString with
  | "i" => body.toInt?.map .int
  | "b" => some (.bool (body == "1"))
  | "f" => (fromHex body).map .float
  | "y" => (fromHex body).map .bytes
  | "v" => (fromHex body).map .vector
  | "o" => (fromHex body).map .orientation
  | _ => none

open Scenic.Sample in
def showVal : Val → String
  | .none => "n" | .int z => s!"i{z}" | .bool b => if b then "b1" else "b0"
  | .float r => "f" ++ toHex r | .bytes r => "y" ++ toHex r | .vector r => "v" ++ toHex r
  | .orientation r => "o" ++ toHex r

open Scenic.Sample in
def mkCtx (nodes : List Node) (vals : List Val) : Ctx × (Nat → Val) :=
  let nodes' := (List.range nodes.length).zipWith (fun i n => match n with
    | .det ds _ => Node.det ds i | n => n) nodes
  let vf : Nat → Val := fun i => vals.getD i .none
  ({ t := T, g := nodes', eval := fun op _ => vf op, cv := vf }, vf)

open Scenic.Sample in
def sampleOp (rd : Bool) (nodes roots vals : String) (hex : String) : String :=
  match (nodes.splitOn ";").mapM parseNode, parseNats roots, (vals.splitOn ";").mapM parseVal, fromHex hex with
  | some ns, some rs, some vs, some bs =>
    let (c, vf) := mkCtx ns vs
    if rd then
      match readSample c rs bs with
      | none => "err"
      | some (env, rest) =>
        let ents := (List.range ns.length).filterMap fun i =>
          (env.lookup i).map fun v => s!"{i}={showVal v}"
        s!"ok {toHex rest} {String.intercalate ";" ents}"
    else showOpt toHex (writeSample c vf rs)
  | _, _, _, _ => "bad-op"

def handle : List String → String
  | ["wint", z] => match z.toInt? with
    | some z => showOpt toHex (writeInt T z)
    | none => "bad-op"
  | ["rint", h] => match fromHex h with
    | some bs => showOpt (fun (p : Int × Bytes) => s!"{p.1} {toHex p.2}") (readInt T bs)
    | none => "bad-op"
  | ["wbytes", h] => match fromHex h with
    | some bs => showOpt toHex (writeBytes T bs)
    | none => "bad-op"
  | ["rbytes", h] => match fromHex h with
    | some bs => showOpt (fun (p : Bytes × Bytes) => s!"{toHex p.1} {toHex p.2}") (readBytes T bs)
    | none => "bad-op"
  | ["wbool", b] => showOpt toHex (writeBool T (b == "1"))
  | ["rbool", h] => match fromHex h with
    | some bs => showOpt (fun (p : Bool × Bytes) => s!"{if p.1 then 1 else 0} {toHex p.2}") (readBool T bs)
    | none => "bad-op"
  | ["wsample", nodes, roots, vals] => sampleOp false nodes roots vals "-"
  | ["rsample", nodes, roots, vals, hex] => sampleOp true nodes roots vals hex
  | ["whdr", f] => match f.toNat? with
    | some f => if f < 256 ^ 4 then
        toHex (Scenic.ReplayStream.writeHeader Scenic.Gen.streamFmt.replayVersion f) else "err"
    | none => "bad-op"
  | ["rhdr", h] => match fromHex h with
    | some bs => match Scenic.ReplayStream.readHeader Scenic.Gen.streamFmt.replayVersion bs with
      | none => "err"
      | some (f, rest) =>
        s!"ok {f} {if Scenic.ReplayStream.flagSet Scenic.Gen.streamFmt.checkBit f then 1 else 0} {toHex rest}"
    | none => "bad-op"
  | ["rscenehdr", a, o, h] => match fromHex a, fromHex o, fromHex h with
    | some a, some o, some bs =>
      -- a scenario without random dependencies: empty graph, empty sample body
      match Scenic.Sample.readScene ⟨T, [], fun _ _ => .none, fun _ => .none⟩
              ⟨Scenic.Gen.sceneVersion, a, o⟩ [] bs with
      | none => "err"
      | some _ => "ok"
    | _, _, _ => "bad-op"
  | ["wscenehdr", a, o] => match fromHex a, fromHex o with
    | some a, some o =>
      showOpt toHex (Scenic.Sample.writeScene ⟨T, [], fun _ _ => .none, fun _ => .none⟩
              ⟨Scenic.Gen.sceneVersion, a, o⟩ (fun _ => .none) [])
    | _, _ => "bad-op"
  | ["sdiv", tol, e, a] => match parseRat tol, parseRat e, parseRat a with
    | some tol, some e, some a =>
      if Scenic.Replay.scalarDiverged Scenic.Gen.divergenceUsesAbs tol e a then "1" else "0"
    | _, _, _ => "bad-op"
  | "vdiv" :: tol :: rest => match parseRat tol, rest.mapM parseRat with
    | some tol, some vs =>
      let n := vs.length / 2
      if Scenic.Replay.vectorDiverged tol (vs.take n) (vs.drop n) then "1" else "0"
    | _, _ => "bad-op"
  | _ => "bad-op"

end Driver.C18

def main : IO Unit := Driver.runLoop Driver.C18.handle

