import ScenicModel.Gen.IntCodec
import ScenicModel.Gen.Divergence
import ScenicModel.Model.Replay
import Driver.Util
/-! line protocol for the codec model (C18); the table is the one regenerated from /repo -/
namespace Driver.C18
open Scenic.Codec Driver

def T := Scenic.Gen.intTable

def handle : List String → String
  | ["wint", z] => match z.toInt? with
    | some z => showOpt toHex (writeInt T z)
    | none => "bad-op"
  | ["rint", h] => match fromHex h with
    | some bs => showOpt (fun (p : Int × Bytes) => s!"{p.1} {toHex p.2}") (readInt T bs)
    | none => "bad-op"
  | ["wbytes", h] => match fromHex h with
    | some bs => showOpt toHex (writeBytes T bs)
    | none => "bad-op"
  | ["rbytes", h] => match fromHex h with
    | some bs => showOpt (fun (p : Bytes × Bytes) => s!"{toHex p.1} {toHex p.2}") (readBytes T bs)
    | none => "bad-op"
  | ["wbool", b] => showOpt toHex (writeBool T (b == "1"))
  | ["rbool", h] => match fromHex h with
    | some bs => showOpt (fun (p : Bool × Bytes) => s!"{if p.1 then 1 else 0} {toHex p.2}") (readBool T bs)
    | none => "bad-op"
  | ["sdiv", tol, e, a] => match parseRat tol, parseRat e, parseRat a with
    | some tol, some e, some a =>
      if Scenic.Replay.scalarDiverged Scenic.Gen.divergenceUsesAbs tol e a then "1" else "0"
    | _, _, _ => "bad-op"
  | "vdiv" :: tol :: rest => match parseRat tol, rest.mapM parseRat with
    | some tol, some vs =>
      let n := vs.length / 2
      if Scenic.Replay.vectorDiverged tol (vs.take n) (vs.drop n) then "1" else "0"
    | _, _ => "bad-op"
  | _ => "bad-op"

end Driver.C18

def main : IO Unit := Driver.runLoop Driver.C18.handle

