import Driver.Util
/-! line protocol for the C13 model (stub: replaced when the property's model is built) -/
namespace Driver.C13
open Driver

def handle : List String → String
  | _ => "bad-op"

end Driver.C13

def main : IO Unit := Driver.runLoop Driver.C13.handle
