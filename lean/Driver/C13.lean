import ScenicModel.Model.Interrupts
import ScenicModel.Gen.Interrupts
import Driver.Util
/-!
Line protocol for the C13 model (try-interrupt scheduler and guards).

  run <cfg> <steps> <fuel> <main> <nbeh> <beh>*  C <n> <row>*  G <n> <row>*
    cfg  = gen | spec | 16 characters 0/1 (fields of `Cfg` in declaration order)
    beh  = P <n> g* I <n> g* [ stmt* ]
    stmt = T a | D b | U b c | Y [ stmt* ] <nh> (c [ stmt* ])* | F n [ stmt* ] | W [ stmt* ] | A | B | C | R
    row  = string of digits, one per time step (conditions 0/1, guards 0/1/2); `-` = empty row
  answer: <outcome> | <action>* | <events of step 0> ; <events of step 1> ; ...
  lower <cfg> <nbeh> <beh>*     -> ok | compile-error
  cfg                            -> the generated configuration as 16 characters
-/
namespace Driver.C13
open Driver Scenic.Interrupts

def cfgBits (c : Cfg) : String :=
  String.ofList ([c.condsReversed, c.handlersReversed, c.useEnabled, c.useRunning, c.firstWins,
    c.finishedContinues, c.tiCheck, c.tiCheckSkipsSub, c.checkAfterInvoke, c.checkBeforeInvoke,
    c.startPre, c.startInv, c.stopInFinally, c.nestedFlow, c.nestedNames, c.closeBlocks].map fun b => if b then '1' else '0')

def parseCfg (s : String) : Option Cfg :=
  if s == "gen" then some Scenic.Gen.interruptCfg
  else if s == "spec" then some Cfg.spec
  else match s.toList.map (· == '1') with
    | [a, b, c, d, e, f, g, h, i, j, k, l, m, n, o, p] =>
      if s.toList.all (fun ch => ch == '0' || ch == '1') then
        some { condsReversed := a, handlersReversed := b, useEnabled := c, useRunning := d, firstWins := e,
               finishedContinues := f, tiCheck := g, tiCheckSkipsSub := h, checkAfterInvoke := i,
               checkBeforeInvoke := j, startPre := k, startInv := l, stopInFinally := m, nestedFlow := n, nestedNames := o,
               closeBlocks := p }
      else none
    | _ => none


def pNat : List String → Option (Nat × List String)
  | w :: ws => w.toNat?.map fun n => (n, ws)
  | [] => none

def pNats : Nat → List String → Option (List Nat × List String)
  | 0, ws => some ([], ws)
  | n + 1, ws => do
    let (x, ws) ← pNat ws
    let (xs, ws) ← pNats n ws
    pure (x :: xs, ws)

mutual
partial def pStmts : List String → Option (List Stmt × List String)
  | "]" :: ws => some ([], ws)
  | ws => do
    let (s, ws) ← pStmt ws
    let (ss, ws) ← pStmts ws
    pure (s :: ss, ws)

partial def pBlock : List String → Option (List Stmt × List String)
  | "[" :: ws => pStmts ws
  | _ => none

partial def pHandlers : Nat → List String → Option (List (Nat × List Stmt) × List String)
  | 0, ws => some ([], ws)
  | n + 1, ws => do
    let (c, ws) ← pNat ws
    let (h, ws) ← pBlock ws
    let (hs, ws) ← pHandlers n ws
    pure ((c, h) :: hs, ws)

partial def pStmt : List String → Option (Stmt × List String)
  | "T" :: ws => do let (a, ws) ← pNat ws; pure (.take a, ws)
  | "D" :: ws => do let (b, ws) ← pNat ws; pure (.doSub b none, ws)
  | "U" :: ws => do
    let (b, ws) ← pNat ws
    let (c, ws) ← pNat ws
    pure (.doSub b (some c), ws)
  | "Y" :: ws => do
    let (body, ws) ← pBlock ws
    let (n, ws) ← pNat ws
    let (hs, ws) ← pHandlers n ws
    pure (.tryI body hs, ws)
  | "F" :: ws => do
    let (n, ws) ← pNat ws
    let (body, ws) ← pBlock ws
    pure (.forN n body, ws)
  | "W" :: ws => do let (body, ws) ← pBlock ws; pure (.whileT body, ws)
  | "A" :: ws => some (.abort, ws)
  | "B" :: ws => some (.brk, ws)
  | "C" :: ws => some (.cont, ws)
  | "R" :: ws => some (.ret, ws)
  | _ => none
end

def pBeh : List String → Option (SBeh × List String)
  | "P" :: ws => do
    let (n, ws) ← pNat ws
    let (pre, ws) ← pNats n ws
    match ws with
    | "I" :: ws =>
      let (m, ws) ← pNat ws
      let (inv, ws) ← pNats m ws
      let (body, ws) ← pBlock ws
      pure ({ pre := pre, inv := inv, body := body }, ws)
    | _ => none
  | _ => none

def pBehs : Nat → List String → Option (List SBeh × List String)
  | 0, ws => some ([], ws)
  | n + 1, ws => do
    let (b, ws) ← pBeh ws
    let (bs, ws) ← pBehs n ws
    pure (b :: bs, ws)

def pRow (s : String) : List Nat :=
  if s == "-" then [] else s.toList.map fun ch => ch.toNat - 48

def pRows : Nat → List String → Option (List (List Nat) × List String)
  | 0, ws => some ([], ws)
  | n + 1, w :: ws => do
    let (rs, ws) ← pRows n ws
    pure (pRow w :: rs, ws)
  | _, [] => none

/-- conditions default to false and guards to true outside the table -/
def mkEnv (ct gt : List (List Nat)) (t : Nat) : Env :=
  { cond := fun c => (ct.getD c []).getD t 0 == 1,
    guard := fun g => (gt.getD g []).getD t 1 }

def showEv : Ev → String
  | .chk b g => s!"c{b}.{g}"
  | .sstart b => s!"+{b}"
  | .sstop b => s!"-{b}"

def showOutcome : Outcome → String
  | .ok => "ok"
  | .violation v t => s!"viol:{match v.kind with | .pre => "pre" | .inv => "inv"}:{v.beh}:{t}"
  | .diverge t => s!"diverge:{t}"

def showTrace (tr : Trace) : String :=
  let acts := " ".intercalate (tr.actions.map fun a => match a with | some a => toString a | none => "-")
  let evs := " ; ".intercalate (tr.events.map fun es => ",".intercalate (es.map showEv))
  s!"{showOutcome tr.outcome} | {acts} | {evs}"

def handle : List String → String
  | ["cfg"] => cfgBits Scenic.Gen.interruptCfg
  | "lower" :: cfg :: rest =>
    match parseCfg cfg, pNat rest with
    | some cfg, some (nb, ws) =>
      match pBehs nb ws with
      | some (behs, []) => if (lowerProg cfg behs).isSome then "ok" else "compile-error"
      | _ => "bad-op"
    | _, _ => "bad-op"
  | "run" :: cfg :: steps :: fuel :: main :: rest =>
    match parseCfg cfg, steps.toNat?, fuel.toNat?, main.toNat?, pNat rest with
    | some cfg, some steps, some fuel, some main, some (nb, ws) =>
      match pBehs nb ws with
      | some (behs, "C" :: ws) =>
        match pNat ws with
        | some (nc, ws) =>
          match pRows nc ws with
          | some (ct, "G" :: ws) =>
            match pNat ws with
            | some (ng, ws) =>
              match pRows ng ws with
              | some (gt, []) =>
                match lowerProg cfg behs with
                | none => "compile-error"
                | some P => showTrace (simulate cfg P (mkEnv ct gt) fuel main steps)
              | _ => "bad-op"
            | none => "bad-op"
          | _ => "bad-op"
        | none => "bad-op"
      | _ => "bad-op"
    | _, _, _, _, _ => "bad-op"
  | _ => "bad-op"

end Driver.C13

def main : IO Unit := Driver.runLoop Driver.C13.handle
