import ScenicModel.Gen.LTL
import ScenicModel.Model.LTLBuild
import ScenicModel.Model.LTLScenario
import ScenicModel.Gen.LTLGram
import Driver.Util
/-!
line protocol for the C11 model; the monitor configuration, the acceptance rule and the class → constructor
table are the ones regenerated from the sources.

  mon  k len <tree>      all traces of `len` steps over `k` atoms (in code order): per trace the `len` verdicts
                         after each update, traces separated by nothing (one digit per verdict)
  mon1 rows <tree>       one trace, rows like `10,01,11` (step,atom): the verdicts
  sat  k len <tree>      per trace 1/0: the finite-trace semantics `sat` on the full trace
  run  k len <tree>      per trace `s`/`S` (initial-scene check passes/fails) followed by the outcome of the rule: `A` or `R<t>`
  rts  k len <tree>      per trace the outcome of a `require` in the setup block of a scenario started at run time (`X` = exception)
  dyn  k len <tree>      per trace the outcome of a `require` executed in a compose block
  sim  k len <seg> ; <seg> ; …   a scenario with several temporal requirements; a segment is `i <tree>` (registered
                         before the start) or `<s> <tree>` (executed by the compose block in step s): per trace `A` / `R<t>`
  immv <codes> <tree>    a non-temporal `require` evaluated on the spot on atom *values*: one code per atom
                         (`1 0 2 e s l L f N` = 1, 0, 2, "", "x", [], [0], 0.0, None)
  cls  <tree>            `okZero(crisp=false) okZero(crisp=true) prop`
  parse <tokens>         the tree the temporal-expression rules of scenic.gram give (prefix form) or `error`
-/
namespace Driver.C11
open Driver Scenic.LTL

def cfg : MonCfg := Scenic.Gen.LTL.monCfg
def rule : Rule := Scenic.Gen.LTL.rule
def cmap : CtorMap := Scenic.Gen.LTL.ctorMap

def bit (b : Bool) : String := if b then "1" else "0"

def parseRows (s : String) : List (List Bool) :=
  (s.splitOn ",").map fun r => r.toList.map (· == '1')

def showOutcome : Outcome → String
  | .accepted => "A"
  | .rejectedAt t => s!"R{t}"
  | .crashed => "X"

def verdicts (f : F) (σ : Trace) (len : Nat) : String :=
  String.join ((List.range len).map fun t => toString (evalAt cfg σ (t + 1) f 0))

def allTraces (k len : Nat) (g : Trace → String) (sep : String) : String :=
  sep.intercalate ((List.range (2 ^ (k * len))).map fun x => g (traceOfCode k x))

def withTree (k len : String) (toks : List String) (g : Nat → Nat → F → String) : String :=
  match k.toNat?, len.toNat?, build cmap toks with
  | some k, some len, some f => if k * len ≤ 12 then g k len f else "too-big"
  | _, _, _ => "bad-tree"

/-- split a token list at the separator `;` -/
def splitSegs : List String → List (List String)
  | [] => [[]]
  | ";" :: ts => [] :: splitSegs ts
  | t :: ts =>
    match splitSegs ts with
    | seg :: segs => (t :: seg) :: segs
    | [] => [[t]]

/-- segments → (requirements registered before the start, (step, requirement) executed by the compose block) -/
def parseSegs : List (List String) → Option (List F × List (Nat × F))
  | [] => some ([], [])
  | [] :: rest => parseSegs rest
  | (w :: toks) :: rest =>
    match build cmap toks, parseSegs rest with
    | some f, some (ini, adds) =>
      if w == "i" then some (f :: ini, adds) else w.toNat?.map fun s => (ini, (s, f) :: adds)
    | _, _ => none

def valOfCode : Char → PyVal
  | '1' => { truth := true, isNone := false, tag := 1 }
  | '0' => { truth := false, isNone := false, tag := 2 }
  | '2' => { truth := true, isNone := false, tag := 3 }
  | 'e' => { truth := false, isNone := false, tag := 4 }
  | 's' => { truth := true, isNone := false, tag := 5 }
  | 'l' => { truth := false, isNone := false, tag := 6 }
  | 'L' => { truth := true, isNone := false, tag := 7 }
  | 'f' => { truth := false, isNone := false, tag := 8 }
  | _ => { truth := false, isNone := true, tag := 9 }

def handle : List String → String
  | "mon" :: k :: len :: toks => withTree k len toks fun k len f => allTraces k len (fun σ => verdicts f σ len) ""
  | "mon1" :: rows :: toks =>
    match build cmap toks with
    | some f => let r := parseRows rows; verdicts f (ofRows r) r.length
    | none => "bad-tree"
  | "sat" :: k :: len :: toks => withTree k len toks fun k len f => allTraces k len (fun σ => bit (sat σ len f 0)) ""
  | "run" :: k :: len :: toks => withTree k len toks fun k len f =>
      allTraces k len (fun σ => (if sceneOK cfg rule f σ then "s" else "S") ++ showOutcome (run cfg rule f σ len)) " "
  | "rts" :: k :: len :: toks => withTree k len toks fun k len f =>
      allTraces k len (fun σ => showOutcome (runRuntimeSetup cfg rule f σ len)) " "
  | "dyn" :: k :: len :: toks => withTree k len toks fun k len f =>
      allTraces k len (fun σ => showOutcome (runDynamic cfg rule f σ len)) " "
  | "sim" :: k :: len :: toks =>
    match k.toNat?, len.toNat?, parseSegs (splitSegs toks) with
    | some k, some len, some (ini, adds) =>
      if k * len ≤ 12 then
        allTraces k len (fun σ => showOutcome (simulate cfg rule ini (scriptOf adds) σ len)) " "
      else "too-big"
    | _, _, _ => "bad-tree"
  | "immv" :: codes :: toks =>
    match build cmap toks with
    | some f => showOutcome (runImmediateV rule f fun a => valOfCode (codes.toList.getD a 'N'))
    | none => "bad-tree"
  | "cls" :: toks =>
    match build cmap toks with
    | some f => s!"{bit (f.okZero cfg false)} {bit (f.okZero cfg true)} {bit f.prop}"
    | none => "bad-tree"
  | "parse" :: toks =>
    match Scenic.LTL.Syntax.parse Scenic.Gen.LTLGram.gram toks with
    | some t => " ".intercalate t
    | none => "error"
  | _ => "bad-op"

end Driver.C11

def main : IO Unit := Driver.runLoop Driver.C11.handle
