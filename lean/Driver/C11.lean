import Driver.Util
/-! line protocol for the C11 model (stub: replaced when the property's model is built) -/
namespace Driver.C11
open Driver

def handle : List String → String
  | _ => "bad-op"

end Driver.C11

def main : IO Unit := Driver.runLoop Driver.C11.handle
