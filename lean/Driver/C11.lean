import ScenicModel.Gen.LTL
import ScenicModel.Model.LTLBuild
import ScenicModel.Gen.LTLGram
import Driver.Util
/-!
line protocol for the C11 model; the monitor configuration, the acceptance rule and the class → constructor
table are the ones regenerated from the sources.

  mon  k len <tree>      all traces of `len` steps over `k` atoms (in code order): per trace the `len` verdicts
                         after each update, traces separated by nothing (one digit per verdict)
  mon1 rows <tree>       one trace, rows like `10,01,11` (step,atom): the verdicts
  sat  k len <tree>      per trace 1/0: the finite-trace semantics `sat` on the full trace
  run  k len <tree>      per trace `s`/`S` (initial-scene check passes/fails) followed by the outcome of the rule: `A` or `R<t>`
  rts  k len <tree>      per trace the outcome of a `require` in the setup block of a scenario started at run time (`X` = exception)
  dyn  k len <tree>      per trace the outcome of a `require` executed in a compose block
  cls  <tree>            `okZero(crisp=false) okZero(crisp=true) prop`
  parse <tokens>         the tree the temporal-expression rules of scenic.gram give (prefix form) or `error`
-/
namespace Driver.C11
open Driver Scenic.LTL

def cfg : MonCfg := Scenic.Gen.LTL.monCfg
def rule : Rule := Scenic.Gen.LTL.rule
def cmap : CtorMap := Scenic.Gen.LTL.ctorMap

def bit (b : Bool) : String := if b then "1" else "0"

def parseRows (s : String) : List (List Bool) :=
  (s.splitOn ",").map fun r => r.toList.map (· == '1')

def showOutcome : Outcome → String
  | .accepted => "A"
  | .rejectedAt t => s!"R{t}"
  | .crashed => "X"

def verdicts (f : F) (σ : Trace) (len : Nat) : String :=
  String.join ((List.range len).map fun t => toString (evalAt cfg σ (t + 1) f 0))

def allTraces (k len : Nat) (g : Trace → String) (sep : String) : String :=
  sep.intercalate ((List.range (2 ^ (k * len))).map fun x => g (traceOfCode k x))

def withTree (k len : String) (toks : List String) (g : Nat → Nat → F → String) : String :=
  match k.toNat?, len.toNat?, build cmap toks with
  | some k, some len, some f => if k * len ≤ 12 then g k len f else "too-big"
  | _, _, _ => "bad-tree"

def handle : List String → String
  | "mon" :: k :: len :: toks => withTree k len toks fun k len f => allTraces k len (fun σ => verdicts f σ len) ""
  | "mon1" :: rows :: toks =>
    match build cmap toks with
    | some f => let r := parseRows rows; verdicts f (ofRows r) r.length
    | none => "bad-tree"
  | "sat" :: k :: len :: toks => withTree k len toks fun k len f => allTraces k len (fun σ => bit (sat σ len f 0)) ""
  | "run" :: k :: len :: toks => withTree k len toks fun k len f =>
      allTraces k len (fun σ => (if sceneOK cfg rule f σ then "s" else "S") ++ showOutcome (run cfg rule f σ len)) " "
  | "rts" :: k :: len :: toks => withTree k len toks fun k len f =>
      allTraces k len (fun σ => showOutcome (runRuntimeSetup cfg rule f σ len)) " "
  | "dyn" :: k :: len :: toks => withTree k len toks fun k len f =>
      allTraces k len (fun σ => showOutcome (runDynamic cfg rule f σ len)) " "
  | "cls" :: toks =>
    match build cmap toks with
    | some f => s!"{bit (f.okZero cfg false)} {bit (f.okZero cfg true)} {bit f.prop}"
    | none => "bad-tree"
  | "parse" :: toks =>
    match Scenic.LTL.Syntax.parse Scenic.Gen.LTLGram.gram toks with
    | some t => " ".intercalate t
    | none => "error"
  | _ => "bad-op"

end Driver.C11

def main : IO Unit := Driver.runLoop Driver.C11.handle
