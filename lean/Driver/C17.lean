import Driver.Util
/-! line protocol for the C17 model (stub: replaced when the property's model is built) -/
namespace Driver.C17
open Driver

def handle : List String → String
  | _ => "bad-op"

end Driver.C17

def main : IO Unit := Driver.runLoop Driver.C17.handle
