import ScenicModel.Gen.Visibility
import ScenicModel.Model.Visibility
import ScenicModel.Model.VisibilityPrune
import Driver.Util
/-!
line protocol for the visibility model (C17); the configuration is the one regenerated from /repo.

A viewer is `<kind> D px py pz qw qx qy qz ox oy oz c0 s0 c1 s1` (kind `P`oint / `O`rientedPoint / o`B`ject /
`R`aw = the arguments of `visibility.canSee` themselves; position, orientation quaternion, camera offset,
`(cos, sin)` of half of `viewAngles[0]` and of `viewAngles[1]`); a box is `cx cy cz qw qx qy qz hx hy hz`.

* `pt  <viewer> tx ty tz n <box>*n`   -> `1`/`0`   the model of `X.canSee(<vector>, occludingObjects)`
* `rpt <viewer> tx ty tz n <box>*n`   -> `1`/`0`   the same with the reference configuration (specification side)
* `vol <viewer> tx ty tz`             -> `1`/`0`   membership in the view volume (specification side)
* `out <viewer> <box>`                -> `1`/`0`   certificate "box wholly outside the view volume"
* `in  <viewer> <box> ux uy`          -> `1`/`0`   certificate "box wholly inside the view volume"
* `geo <viewer> <box>`                -> `distSq farSq camInside` of the box w.r.t. the camera
* `cam <viewer>`                      -> camera position
* `preg D px py pz tx ty tz`          -> `1`/`0`   the model of `Point.visibleRegion.containsPoint` (generated wrappers)
* `vbound <viewer> tx ty tz`          -> `1`/`0`   membership in the base sphere of `ViewRegion` (generated wrappers)
* `c2d <P|O|B> D px py pz hc hs ox oy oz c0 s0 tx ty tz` -> `1`/`0`   the model of the 2D fast path
  `Point2D / OrientedPoint2D / Object2D.canSee(<vector>)` (generated 2D configuration; `hc hs` = cos, sin of the heading)
* `prune pi A B ahead behind n raz*n alt*n` -> `none` | `some k (h0 h1 v0 v1)*k`   the angular pruning of the object branch
  (`Prune.pruneWindows`: raw `arctan2` / `arcsin` values of the vertices, the two crossing flags, half view angles)
-/
namespace Driver.C17
open Scenic.Vis Driver

def CFG := Scenic.Gen.visCfg
def WRAP := Scenic.Gen.visWrapCfg
def CFG2 := Scenic.Gen.visCfg2D

def mkV : List Rat → Option (V3 × List Rat)
  | a :: b :: c :: rest => some (⟨a, b, c⟩, rest)
  | _ => none

def mkQ : List Rat → Option (Mat3 × List Rat)
  | w :: x :: y :: z :: rest =>
    if w * w + x * x + y * y + z * z = 0 then none else some (Mat3.ofQuat w x y z, rest)
  | _ => none

def mkHalf : List Rat → Option (Half × List Rat)
  | c :: s :: rest => some (⟨c, s⟩, rest)
  | _ => none

def mkViewerFrom (kind : String) (xs : List Rat) (wrap : WrapCfg := WRAP) : Option (Viewer × List Rat) := do
  let (D, xs) ← match xs with
    | d :: r => some (d, r)
    | [] => none
  let (p, xs) ← mkV xs
  let (R, xs) ← mkQ xs
  let (off, xs) ← mkV xs
  let (a0, xs) ← mkHalf xs
  let (a1, xs) ← mkHalf xs
  match kind with
  | "P" => some (mkViewer wrap .point p R off D a0 a1, xs)
  | "O" => some (mkViewer wrap .oriented p R off D a0 a1, xs)
  | "B" => some (mkViewer wrap .object p R off D a0 a1, xs)
  | "R" => some (⟨p, R, D, a0, a1⟩, xs)
  | _ => none

def mkBox (xs : List Rat) : Option (Box × List Rat) := do
  let (c, xs) ← mkV xs
  let (M, xs) ← mkQ xs
  let (h, xs) ← mkV xs
  some (⟨c, M, h⟩, xs)

def mkBoxes : Nat → List Rat → Option (List Box)
  | 0, [] => some []
  | 0, _ => none
  | n + 1, xs => do
    let (b, xs) ← mkBox xs
    let bs ← mkBoxes n xs
    some (b :: bs)

def bit (b : Bool) : String := if b then "1" else "0"

def handle : List String → String
  | "pt" :: kind :: rest => match rest.mapM parseRat with
    | some xs => match mkViewerFrom kind xs with
      | some (vw, xs) => match mkV xs with
        | some (t, n :: xs) =>
          if n.den = 1 ∧ 0 ≤ n.num then
            match mkBoxes n.num.toNat xs with
            | some bs => bit (pointVisible CFG vw t bs)
            | none => "bad-op"
          else "bad-op"
        | _ => "bad-op"
      | none => "bad-op"
    | none => "bad-op"
  | "rpt" :: kind :: rest => match rest.mapM parseRat with
    | some xs => match mkViewerFrom kind xs WrapCfg.reference with
      | some (vw, xs) => match mkV xs with
        | some (t, n :: xs) =>
          if n.den = 1 ∧ 0 ≤ n.num then
            match mkBoxes n.num.toNat xs with
            | some bs => bit (pointVisible Cfg.reference vw t bs)
            | none => "bad-op"
          else "bad-op"
        | _ => "bad-op"
      | none => "bad-op"
    | none => "bad-op"
  | "vol" :: kind :: rest => match rest.mapM parseRat with
    | some xs => match mkViewerFrom kind xs WrapCfg.reference with
      | some (vw, xs) => match mkV xs with
        | some (t, []) => bit (decide (InViewVolume vw t))
        | _ => "bad-op"
      | none => "bad-op"
    | none => "bad-op"
  | "out" :: kind :: rest => match rest.mapM parseRat with
    | some xs => match mkViewerFrom kind xs with
      | some (vw, xs) => match mkBox xs with
        | some (b, []) => bit (outsideCert vw b)
        | _ => "bad-op"
      | none => "bad-op"
    | none => "bad-op"
  | "in" :: kind :: rest => match rest.mapM parseRat with
    | some xs => match mkViewerFrom kind xs with
      | some (vw, xs) => match mkBox xs with
        | some (b, [ux, uy]) => bit (insideCert vw b ⟨ux, uy, 0⟩)
        | _ => "bad-op"
      | none => "bad-op"
    | none => "bad-op"
  | "geo" :: kind :: rest => match rest.mapM parseRat with
    | some xs => match mkViewerFrom kind xs with
      | some (vw, xs) => match mkBox xs with
        | some (b, []) =>
          s!"{showRat (b.distSq vw.cam)} {showRat (b.farSq vw.cam)} {bit (decide (b.Contains vw.cam))}"
        | _ => "bad-op"
      | none => "bad-op"
    | none => "bad-op"
  | "cam" :: kind :: rest => match rest.mapM parseRat with
    | some xs => match mkViewerFrom kind xs with
      | some (vw, []) => s!"{showRat vw.cam.x} {showRat vw.cam.y} {showRat vw.cam.z}"
      | _ => "bad-op"
    | none => "bad-op"
  | "preg" :: rest => match rest.mapM parseRat with
    | some [d, px, py, pz, tx, ty, tz] => bit (decide (pointRegion WRAP ⟨px, py, pz⟩ d ⟨tx, ty, tz⟩))
    | _ => "bad-op"
  | "vbound" :: kind :: rest => match rest.mapM parseRat with
    | some xs => match mkViewerFrom kind xs with
      | some (vw, xs) => match mkV xs with
        | some (t, []) => bit (decide (viewRegionBound WRAP vw.cam vw.D t))
        | _ => "bad-op"
      | none => "bad-op"
    | none => "bad-op"
  | "c2d" :: kind :: rest => match rest.mapM parseRat with
    | some [d, px, py, pz, hc, hs, ox, oy, oz, c0, s0, tx, ty, tz] =>
      let k : Option ViewerKind := match kind with
        | "P" => some .point
        | "O" => some .oriented
        | "B" => some .object
        | _ => none
      match k with
      | some k => bit (decide (canSee2D CFG2 k ⟨px, py, pz⟩ ⟨ox, oy, oz⟩ ⟨hc, hs⟩ d ⟨c0, s0⟩ ⟨tx, ty, tz⟩))
      | none => "bad-op"
    | _ => "bad-op"
  | "prune" :: rest => match rest.mapM parseRat with
    | some (pi :: a :: b :: ah :: bh :: n :: xs) =>
      if n.den = 1 ∧ 0 ≤ n.num ∧ xs.length = 2 * n.num.toNat then
        match Prune.pruneWindows pi a b (ah != 0) (bh != 0) (xs.take n.num.toNat) (xs.drop n.num.toNat) with
        | none => "none"
        | some ws => " ".intercalate (["some", toString ws.length] ++
            ws.flatMap (fun w => [showRat w.h0, showRat w.h1, showRat w.v0, showRat w.v1]))
      else "bad-op"
    | _ => "bad-op"
  | _ => "bad-op"

end Driver.C17

def main : IO Unit := Driver.runLoop Driver.C17.handle
