import Driver.Util
/-! line protocol for the C10 model (stub: replaced when the property's model is built) -/
namespace Driver.C10
open Driver

def handle : List String → String
  | _ => "bad-op"

end Driver.C10

def main : IO Unit := Driver.runLoop Driver.C10.handle
