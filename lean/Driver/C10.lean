import ScenicModel.Model.PegTotal
import ScenicModel.Model.FrontState
import ScenicModel.Gen.PegGrammarC10
import ScenicModel.Gen.FrontStateC10
import ScenicModel.Model.ErrLoc
import ScenicModel.Gen.ErrLocC10
import Driver.Util
/-! line protocol for the C10 models; grammar and veneer data are the ones regenerated from /repo

  front <g:0|1|-> o<ov><m2> tok…        state machine; tok = w<i> | p | f | I | T<ov><m2><caught> | c
                                        first word: override of `sfsGuarded` (`-` = as extracted)
        -> act=<int> stack=<n> m2=<0|1> dirty=<i,i,…|-> trace=<a:s;…|->
  peg <tok>…                            recogniser, tok = dot-separated ids of the terminals matching the token (`-` none)
        -> pass1=<ok e|fail e|raise|hang> parse=<ok e|raise|hang>
  pegfuel <n>                           -> the fuel bound used for n tokens
  frontdata                             -> names=<n,n,…> writes=<i,…> guarded=<0|1> leaks=<i,…|->  (the data the machine runs on) -/
namespace Driver.C10
open Driver Scenic.PegTotal Scenic.FrontState Scenic.Gen

def bit (c : Char) : Bool := c == '1'

def parseTok (w : String) : Option Tok :=
  match w.toList with
  | ['p'] => some .probe
  | ['f'] => some .fail
  | ['I'] => some .openImp
  | ['c'] => some .close
  | ['T', a, b, c] => some (.openTop ⟨bit a, bit b⟩ (bit c))
  | 'w' :: rest => (String.ofList rest).toNat?.map Tok.write
  | _ => none

def showList (l : List String) (sep : String) : String := if l.isEmpty then "-" else sep.intercalate l

def runFront (gw : String) (ow : String) (toks : List String) : String :=
  match ow.toList, toks.mapM parseTok with
  | ['o', a, b], some ts =>
    let d : Data := match gw with
      | "0" => { frontData with sfsGuarded := false }
      | "1" => { frontData with sfsGuarded := true }
      | _ => frontData
    let m := runTop d ⟨bit a, bit b⟩ ts
    let dirty := (List.range d.nGlobals).filter (fun g => m.st.dirty.contains g)
    s!"act={m.st.activity} stack={m.st.stack} m2={if m.st.mode2D then 1 else 0} " ++
    s!"dirty={showList (dirty.map toString) ","} trace={showList (m.trace.reverse.map (fun p => s!"{p.1}:{p.2}")) ";"}"
  | _, _ => "bad-op"

def parseToken (w : String) : Option (List Nat) :=
  if w == "-" then some [] else (w.splitOn ".").mapM String.toNat?

def showRes : Res → String
  | .ok e => s!"ok {e}"
  | .fail e => s!"fail {e}"
  | .raise => "raise"
  | .hang => "hang"

def runPeg (toks : List String) : String :=
  match toks.mapM parseToken with
  | none => "bad-op"
  | some ts =>
    let arr := ts.toArray
    let E : Env Unit := ⟨arr.size, fun t p => (arr.getD p []).contains t,
      fun _ a _ _ => (if pegNoneActions.contains a then .none else .ok, ())⟩
    let fuel := fuelBound pegGrammar arr.size
    let p1 := (interp E pegGrammar fuel pegStart 0 false ⟨{}, ()⟩).1
    let full := parse E pegGrammar fuel pegStart ()
    s!"pass1={showRes p1} parse={showRes full}"

def showFrontData : String :=
  s!"names={showList frontGlobalNames ","} writes={showList (frontData.compileWrites.map toString) ","} " ++
  s!"guarded={if frontData.sfsGuarded then 1 else 0} leaks={showList ((leaks frontData).map toString) ","}"

/-- errloc <N> <start|-> <end|-> <maxline> <sl:el>…  -> ok <line> <fb> | keyerror | notoken, then ` keys=<bits for 0..maxline>` -/
def runErrLoc (n st sp mx : String) (toks : List String) : String :=
  let optNat (w : String) : Option (Option Nat) := if w == "-" then some none else w.toNat?.map some
  let ptok (w : String) : Option Scenic.ErrLoc.Tok := match w.splitOn ":" with
    | [a, b] => do let a ← a.toNat?; let b ← b.toNat?; pure ⟨a, b⟩
    | _ => none
  match n.toNat?, optNat st, optNat sp, mx.toNat?, toks.mapM ptok with
  | some N, some s, some e, some m, some h =>
    let o := match Scenic.ErrLoc.build errLocData N h s e with
      | .ok l fb => s!"ok {l} {if fb then 1 else 0}"
      | .keyError => "keyerror"
      | .noToken => "notoken"
    let bits := String.ofList ((List.range (m + 1)).map fun l => if Scenic.ErrLoc.known errLocData N h l then '1' else '0')
    s!"{o} keys={bits}"
  | _, _, _, _, _ => "bad-op"

def handle : List String → String
  | "errloc" :: n :: st :: sp :: mx :: toks => runErrLoc n st sp mx toks
  | ["frontdata"] => showFrontData
  | "front" :: g :: o :: toks => runFront g o toks
  | "peg" :: toks => runPeg toks
  | ["pegfuel", n] => match n.toNat? with
    | some n => toString (fuelBound pegGrammar n)
    | none => "bad-op"
  | _ => "bad-op"

end Driver.C10

def main : IO Unit := Driver.runLoop Driver.C10.handle
