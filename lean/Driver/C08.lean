import Driver.Util
/-! line protocol for the C08 model (stub: replaced when the property's model is built) -/
namespace Driver.C08
open Driver

def handle : List String → String
  | _ => "bad-op"

end Driver.C08

def main : IO Unit := Driver.runLoop Driver.C08.handle
