import ScenicModel.Gen.Pruning
import ScenicModel.Model.Pruning
import Driver.Util
/-! line protocol for the pruning model (C08); every configuration is the one regenerated from /repo -/
namespace Driver.C08
open Driver Scenic.Pruning

def parseOptRat (s : String) : Option (Option Rat) :=
  if s == "-" || s == "none" then some none else (parseRat s).map some

def parseOptNat (s : String) : Option (Option Nat) :=
  if s == "-" then some none else s.toNat?.map some

def parseLeaf : List String → Option Leaf
  | [c, a, i] => do
    let c ← parseOptRat c; let a ← parseOptNat a; let i ← i.toNat?
    pure ⟨c, a, i⟩
  | _ => none

/-- `L|c|a|i`, `A|c|a|i`, `B+|c|a|i|c|a|i`, `B-|…` -/
def parseExpr (s : String) : Option Expr :=
  match s.splitOn "|" with
  | "L" :: rest => (parseLeaf rest).map Expr.leaf
  | "A" :: rest => (parseLeaf rest).map Expr.abs1
  | "B+" :: rest => do
    let l ← parseLeaf (rest.take 3); let r ← parseLeaf (rest.drop 3); pure (Expr.absBin .add l r)
  | "B-" :: rest => do
    let l ← parseLeaf (rest.take 3); let r ← parseLeaf (rest.drop 3); pure (Expr.absBin .sub l r)
  | _ => none

def parseOp : String → Option CmpOp
  | "lt" => some .lt | "ltE" => some .ltE | "gt" => some .gt | "gtE" => some .gtE
  | "eq" => some .eq | "notEq" => some .notEq | "is" => some .is | "isNot" => some .isNot
  | "in_" => some .in_ | "notIn" => some .notIn | _ => none

def parseChain : List String → Option (List (CmpOp × Expr))
  | [] => some []
  | o :: e :: rest => do
    let o ← parseOp o; let e ← parseExpr e; let r ← parseChain rest
    pure ((o, e) :: r)
  | _ => none

def showBound (b : Option Rat) (inf : String) : String :=
  match b with
  | some q => showRat q
  | none => inf

def showBounds (bs : Bounds) : String :=
  if bs.isEmpty then "ok -" else
  "ok " ++ ";".intercalate (bs.map fun (t, (lo, hi)) => s!"{t}:{showBound lo "-inf"}:{showBound hi "inf"}")

def parseCell (s : String) : Option Cell :=
  match s.splitOn "," with
  | [a, b, c] => do
    let a ← a.toInt?; let b ← b.toInt?; let c ← c.toInt?
    pure (a, b, c)
  | _ => none

def showCell (c : Cell) : String := s!"{c.1},{c.2.1},{c.2.2}"

def showMorph : Morph → String
  | .same => "same"
  | .dilate k => s!"dilate {k}"
  | .erode k => s!"erode {k}"

def handle : List String → String
  | "bounds" :: first :: rest =>
    match parseExpr first, parseChain rest with
    | some f, some r =>
      (match matchBounds Scenic.Gen.pruneDispatch f r with
       | .ok bs => showBounds bs
       | .error _ => "err")
    | _, _ => "bad-op"
  | ["norm", p, x] =>
    match parseRat p, parseRat x with
    | some p, some x => showRat (normalizeAngle p x)
    | _, _ => "bad-op"
  | ["rh", p, bh, oL, oR, th, tL, tR] =>
    match parseRat p, parseOptRat bh, parseRat oL, parseRat oR, parseOptRat th, parseRat tL, parseRat tR with
    | some p, some bh, some oL, some oR, some th, some tL, some tR =>
      let r := relativeHeadingRange Scenic.Gen.rhConfig p bh oL oR th tL tR
      s!"{showRat r.1} {showRat r.2}"
    | _, _, _, _, _, _, _ => "bad-op"
  | ["kept", p, bh, oL, oR, th, tL, tR, lb, ub] =>
    match parseRat p, parseOptRat bh, parseRat oL, parseRat oR, parseOptRat th, parseRat tL, parseRat tR,
        parseRat lb, parseRat ub with
    | some p, some bh, some oL, some oR, some th, some tL, some tR, some lb, some ub =>
      if rhGuardTrips Scenic.Gen.rhGuardInclusive p oL oR tL tR lb ub then "guard"
      else if cellPairKept Scenic.Gen.rhConfig Scenic.Gen.rhOverlapOps Scenic.Gen.rhOverlapConj p bh oL oR th
        tL tR lb ub then "1" else "0"
    | _, _, _, _, _, _, _, _, _ => "bad-op"
  | ["erosion", r, d] =>
    match parseOptRat r, parseOptRat d with
    | some r, some d =>
      (match erosionAmount Scenic.Gen.erosionUsesDifference r d with
       | some e => showRat e
       | none => "none")
    | _, _ => "bad-op"
  | ["vbuf", r, d] =>
    match parseRat r, parseRat d with
    | some r, some d => showRat (visibilityBuffer Scenic.Gen.visibilityBufferIsSum r d)
    | _, _ => "bad-op"
  | ["erodeit", r, pitch, tp] =>
    match parseRat r, parseRat pitch, parseRat tp with
    | some r, some pitch, some tp =>
      showMorph (erodeMorph Scenic.Gen.erodeCount Scenic.Gen.erodeNegates r pitch tp)
    | _, _, _ => "bad-op"
  | ["dilateit", b, pitch, tp] =>
    match parseRat b, parseRat pitch, parseRat tp with
    | some b, some pitch, some tp => showMorph (dilateMorph Scenic.Gen.dilateCount b pitch tp)
    | _, _, _ => "bad-op"
  | "morph" :: kind :: k :: sx :: sy :: sz :: cells =>
    match k.toNat?, sx.toNat?, sy.toNat?, sz.toNat?, cells.mapM parseCell with
    | some k, some sx, some sy, some sz, some cs =>
      let m : Option Morph := match kind with
        | "dilate" => some (.dilate k) | "erode" => some (.erode k) | "same" => some .same | _ => none
      (match m with
       | some m => let out := applyMorphGrid Scenic.Gen.dilationPads (sx, sy, sz) m cs
                   if out.isEmpty then "-" else " ".intercalate (out.map showCell)
       | none => "bad-op")
    | _, _, _, _, _ => "bad-op"
  | "retry" :: which :: fuel :: okPitches =>
    -- conv succeeds exactly at the listed pitches
    match fuel.toNat?, okPitches.mapM parseRat with
    | some fuel, some oks =>
      let cfg : Option RetryCfg := match which with
        | "erode" => some Scenic.Gen.erodeLoop | "buffer" => some Scenic.Gen.bufferLoop | _ => none
      (match cfg with
       | some cfg =>
         let conv : Rat → Bool := fun p => oks.contains p
         let tr := " ".intercalate ((retryTrace cfg conv Scenic.Gen.pruningPitch fuel Scenic.Gen.pruningPitch).map showRat)
         (match retryLoop cfg conv Scenic.Gen.pruningPitch fuel Scenic.Gen.pruningPitch with
          | some n => s!"done {n} {tr}"
          | none => s!"running {tr}")
       | none => "bad-op")
    | _, _ => "bad-op"
  | _ => "bad-op"

end Driver.C08

def main : IO Unit := Driver.runLoop Driver.C08.handle
