import ScenicModel.Model.Solid
import ScenicModel.Model.SolidGeo
import ScenicModel.Gen.Solid
import Driver.Util
/-! line protocol for the C04 model (overlap / containment decision trees on the pass data regenerated
from /repo, and the certificate checkers of the exact-rational geometry oracle) -/
namespace Driver.C04
open Driver Scenic.Solid Scenic.Gen

def pBool (s : String) : Option Bool :=
  if s == "1" then some true else if s == "0" then some false else none

def pRats (ws : List String) : Option (List Rat) := ws.mapM parseRat

def bit (b : Bool) : String := if b then "1" else "0"

def v3 : List Rat → Option (V3 × List Rat)
  | a :: b :: c :: rest => some ((a, b, c), rest)
  | _ => none

def box (l : List Rat) : Option (Box × List Rat) := do
  let (c, l) ← v3 l
  let (a1, l) ← v3 l
  let (a2, l) ← v3 l
  let (a3, l) ← v3 l
  pure ({ c := c, a1 := a1, a2 := a2, a3 := a3 }, l)

def v3s : Nat → List Rat → Option (List V3 × List Rat)
  | 0, l => some ([], l)
  | n + 1, l => do
    let (v, l) ← v3 l
    let (vs, l) ← v3s n l
    pure (v :: vs, l)

def takeN (n : Nat) (l : List Rat) : Option (List Rat × List Rat) :=
  if l.length < n then none else some (l.take n, l.drop n)

def natOf (q : Rat) : Option Nat := if q.den == 1 && 0 ≤ q.num then some q.num.toNat else none

def isect (ws : List String) : Option String := do
  match ws with
  | [cd, cs, co, ss, so, pd, is_, io, ps, po, bb, col, cvs, cvo, bs, bo, sho, ohs, be] =>
    let o : IntersectObs :=
      { centerDist := ← parseRat cd, circS := ← parseRat cs, circO := ← parseRat co,
        scaledS := ← pBool ss, scaledO := ← pBool so, pointDist := ← parseRat pd,
        inS := ← parseRat is_, inO := ← parseRat io, pcircS := ← parseRat ps, pcircO := ← parseRat po,
        bbOverlap := ← pBool bb, collide := ← pBool col, convexS := ← pBool cvs, convexO := ← pBool cvo,
        bodiesS := ← bs.toNat?, bodiesO := ← bo.toNat?, sHasO := ← pBool sho, oHasS := ← pBool ohs,
        boolEmpty := ← pBool be }
    let r := intersects intersectCfg o
    pure s!"{bit r.1} {r.2.name}"
  | _ => none

def cont (ws : List String) : Option String := do
  match ws with
  | [bb, cv, mc, mv, ca, rh, oc, sd, rca, rc, om, de] =>
    let o : ContainObs :=
      { bbOverlap := ← pBool bb, convex := ← pBool cv, minCornerSd := ← parseRat mc,
        minVertexSd := ← parseRat mv, candAvail := ← pBool ca, regionHasCand := ← pBool rh,
        objCirc := ← parseRat oc, sdCand := ← parseRat sd, regCandAvail := ← pBool rca,
        regCirc := ← parseRat rc, objMaxDist := ← parseRat om, diffEmpty := ← pBool de }
    let r := containsObject containCfg o
    pure s!"{bit r.1} {r.2.name}"
  | _ => none

def objI (ws : List String) : Option String := do
  match ws with
  | [sp, oo, op, opg, zs, zo, hs, ho, pi, va] =>
    let o : ObjObs :=
      { selfPlanar := ← pBool sp, otherIsObject := ← pBool oo, otherPlanar := ← pBool op,
        otherIsPolygonal := ← pBool opg, zS := ← parseRat zs, zO := ← parseRat zo, hS := ← parseRat hs,
        hO := ← parseRat ho, polyIntersects := ← pBool pi, volumeAnswer := ← pBool va }
    let r := objectIntersects objCfg o
    pure s!"{bit r.1} {r.2.name}"
  | _ => none

def geo (op : String) (l : List Rat) : Option String := do
  match op with
  | "orth" => let (a, _) ← box l; pure (bit a.orthogonal)
  | "sep" =>
    let (a, l) ← box l; let (b, l) ← box l; let (n, l) ← v3 l; let (al, l) ← v3 l; let (be, _) ← v3 l
    pure (bit (sepCheck a b n al be))
  | "wit" => let (a, l) ← box l; let (b, l) ← box l; let (x, _) ← v3 l; pure (bit (witnessCheck a b x))
  | "dlo" =>
    let (a, l) ← box l; let (b, l) ← box l; let (n, l) ← v3 l; let (al, l) ← v3 l; let (be, l) ← v3 l
    match l with
    | [g2] => pure (bit (distLowerCheck a b n al be g2))
    | _ => none
  | "dhi" =>
    let (a, l) ← box l; let (b, l) ← box l; let (x, l) ← v3 l; let (y, l) ← v3 l
    match l with
    | [g2] => pure (bit (distUpperCheck a b x y g2))
    | _ => none
  | "cin" =>
    let (a, l) ← box l; let (b, l) ← box l; let (b1, l) ← v3 l; let (b2, l) ← v3 l; let (b3, _) ← v3 l
    pure (bit (containCheck a b b1 b2 b3))
  | "nin" => let (a, l) ← box l; let (b, l) ← box l; let (x, _) ← v3 l; pure (bit (notContainCheck a b x))
  | "has" => let (a, l) ← box l; let (x, _) ← v3 l; pure (bit (a.has x))
  | "hsep" =>
    match l with
    | na :: nb :: l =>
      let (va, l) ← v3s (← natOf na) l; let (vb, l) ← v3s (← natOf nb) l; let (n, l) ← v3 l
      match l with
      | [lo, hi] => pure (bit (hullSepCheck va vb n lo hi))
      | _ => none
    | _ => none
  | "hwit" =>
    match l with
    | na :: nb :: l =>
      let ka ← natOf na; let kb ← natOf nb
      let (va, l) ← v3s ka l; let (vb, l) ← v3s kb l
      let (wa, l) ← takeN ka l; let (wb, l) ← takeN kb l; let (x, _) ← v3 l
      pure (bit (hullWitnessCheck va vb wa wb x))
    | _ => none
  | "hdlo" =>
    match l with
    | na :: nb :: l =>
      let (va, l) ← v3s (← natOf na) l; let (vb, l) ← v3s (← natOf nb) l; let (n, l) ← v3 l
      match l with
      | [lo, hi, g2] => pure (bit (hullDistLowerCheck va vb n lo hi g2))
      | _ => none
    | _ => none
  | "hdhi" =>
    match l with
    | na :: nb :: l =>
      let ka ← natOf na; let kb ← natOf nb
      let (va, l) ← v3s ka l; let (vb, l) ← v3s kb l
      let (wa, l) ← takeN ka l; let (wb, l) ← takeN kb l; let (x, l) ← v3 l; let (y, l) ← v3 l
      match l with
      | [g2] => pure (bit (hullDistUpperCheck va vb wa wb x y g2))
      | _ => none
    | _ => none
  | "hinb" =>
    let (a, l) ← box l
    match l with
    | n :: l => let (v, _) ← v3s (← natOf n) l; pure (bit (hullInBoxCheck a v))
    | _ => none
  | "hout" =>   -- a hull point outside a box:  box, n, vertices, weights, x
    let (a, l) ← box l
    match l with
    | n :: l =>
      let k ← natOf n
      let (v, l) ← v3s k l; let (w, l) ← takeN k l; let (x, _) ← v3 l
      pure (bit (hullNotInUnionCheck [a] v w x))
    | _ => none
  | "circ" =>   -- fall-back circumradius² as computed by /repo's expression:  pos, n, vertices
    let (p, l) ← v3 l
    match l with
    | n :: l => let (v, _) ← v3s (← natOf n) l; pure (showRat (fallbackCircSq fallbackCenter p v))
    | _ => none
  | _ => none

/-- `_circumradius`² through the branch named by the harness (as read from the real region) -/
def circsq (br : String) (l : List Rat) : Option String := do
  match br with
  | "scaled" =>
    match l with
    | n :: l => let (sv, _) ← v3s (← natOf n) l; pure (showRat (circumradiusSq fallbackCenter (.scaled sv) V3.zero []))
    | _ => none
  | "shape" =>
    let (d, l) ← v3 l
    match l with
    | n :: l => let (uv, _) ← v3s (← natOf n) l; pure (showRat (circumradiusSq fallbackCenter (.shape d uv) V3.zero []))
    | _ => none
  | "fallback" =>
    let (p, l) ← v3 l
    match l with
    | n :: l => let (v, _) ← v3s (← natOf n) l; pure (showRat (circumradiusSq fallbackCenter .fallback p v))
    | _ => none
  | _ => none

def handle : List String → String
  | "isect" :: ws => (isect ws).getD "bad-op"
  | "cont" :: ws => (cont ws).getD "bad-op"
  | ["foot", a, b, c] =>
    match pBool a, pBool b, pBool c with
    | some a, some b, some c =>
      let r := footprintContains footCfg { convexObj := a, hasBounding := b, hasHull := c }
      s!"{bit r.1} {r.2.name}"
    | _, _, _ => "bad-op"
  | ["planar", b, p, r] =>
    match pBool b, parseRat p, parseRat r with
    | some b, some p, some r => bit (isPlanarBox planarCfg b p r)
    | _, _, _ => "bad-op"
  | "obj" :: ws => (objI ws).getD "bad-op"
  | ["mdist", sp, op, zs, zo, pd, fd, vi] =>
    match pBool sp, pBool op, parseRat zs, parseRat zo, parseRat pd, parseRat fd, pBool vi with
    | some sp, some op, some zs, some zo, some pd, some fd, some vi =>
      let r := minimumDistance distCfg volDistCfg
        { selfPlanar := sp, otherPlanar := op, zS := zs, zO := zo, polyDist := pd, fclDist := fd, volIntersects := vi }
      s!"{showRat r.1} {r.2.name}"
    | _, _, _, _, _, _, _ => "bad-op"
  | ["vmdist", fd, vi] =>
    match parseRat fd, pBool vi with
    | some fd, some vi =>
      let r := volumeMinimumDistance volDistCfg { fclDist := fd, volIntersects := vi }
      s!"{showRat r.1} {if r.2 then "nested" else "fcl"}"
    | _, _ => "bad-op"
  | ["convex", ov, tc, vol, hv] =>
    let ovr : Option (Option Bool) := if ov == "none" then some none else (pBool ov).map some
    match ovr, pBool tc, parseRat vol, parseRat hv with
    | some ovr, some tc, some vol, some hv =>
      bit (isConvexFlag convexCfg { override := ovr, trimeshConvex := tc, vol := vol, hullVol := hv })
    | _, _, _, _ => "bad-op"
  | "circsq" :: br :: ws =>
    match pRats ws with
    | some l => (circsq br l).getD "bad-op"
    | none => "bad-op"
  | ["surf", bb, col, hf] =>
    match pBool bb, pBool col, pBool hf with
    | some bb, some col, some hf =>
      let r := intersectsSurface surfCfg { bbOverlap := bb, collide := col, hasFirst := hf }
      s!"{bit r.1} {r.2.name}"
    | _, _, _ => "bad-op"
  | ["slab", pc, ph, lo, hi] =>
    let cache : Option (Option (Rat × Rat)) :=
      if pc == "none" then some none else
        match parseRat pc, parseRat ph with
        | some a, some b => some (some (a, b))
        | _, _ => none
    match cache, parseRat lo, parseRat hi with
    | some cache, some lo, some hi =>
      let r := footprintSlab slabCfg cache lo hi
      s!"{showRat r.1.1} {showRat r.1.2} {bit r.2.2}"
    | _, _, _ => "bad-op"
  | ["inner", a, b] =>
    match pBool a, pBool b with
    | some a, some b => bit (containsRegionInner innerCfg a b)
    | _, _ => "bad-op"
  | ["center"] => (match fallbackCenter with | .origin => "origin" | .position => "position")
  | op :: ws =>
    match pRats ws with
    | some l => (geo op l).getD "bad-op"
    | none => "bad-op"
  | _ => "bad-op"

end Driver.C04

def main : IO Unit := Driver.runLoop Driver.C04.handle
