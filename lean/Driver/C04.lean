import Driver.Util
/-! line protocol for the C04 model (stub: replaced when the property's model is built) -/
namespace Driver.C04
open Driver

def handle : List String → String
  | _ => "bad-op"

end Driver.C04

def main : IO Unit := Driver.runLoop Driver.C04.handle
