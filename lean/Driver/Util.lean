/-! Helpers for the line protocol (core Lean only). -/
namespace Driver

def hexDigit (n : Nat) : Char :=
  if n < 10 then Char.ofNat (48 + n) else Char.ofNat (87 + n)

def toHex (bs : List Nat) : String :=
  if bs.isEmpty then "-" else
  String.ofList (bs.foldr (fun b acc => hexDigit (b / 16 % 16) :: hexDigit (b % 16) :: acc) [])

def hexVal (c : Char) : Option Nat :=
  if '0' ≤ c ∧ c ≤ '9' then some (c.toNat - 48)
  else if 'a' ≤ c ∧ c ≤ 'f' then some (c.toNat - 87)
  else none

def fromHexAux : List Char → Option (List Nat)
  | [] => some []
  | a :: b :: rest => do
    let x ← hexVal a; let y ← hexVal b; let r ← fromHexAux rest
    pure ((16 * x + y) :: r)
  | _ => none

/-- "-" is the empty byte string -/
def fromHex (s : String) : Option (List Nat) :=
  if s == "-" then some [] else fromHexAux s.toList

def words (line : String) : List String :=
  (line.splitOn " ").filter (· ≠ "")

def showOpt {α} (f : α → String) : Option α → String
  | none => "err"
  | some a => "ok " ++ f a

/-- "num/den" or "num" -/
def parseRat (s : String) : Option Rat :=
  match s.splitOn "/" with
  | [n] => n.toInt?.map fun z => (z : Rat)
  | [n, d] => do
    let z ← n.toInt?; let k ← d.toNat?
    if k = 0 then none else some (mkRat z k)
  | _ => none

def showRat (q : Rat) : String := s!"{q.num}/{q.den}"

/-- generic line loop: one input line -> one output line; a leading property token (e.g. "C18") is dropped -/
partial def loopOn (handle : List String → String) (h out : IO.FS.Stream) : IO Unit := do
  let line ← h.getLine
  if line.isEmpty then return ()
  let ws := words line.trimAscii.toString
  let ws := match ws with
    | w :: rest => if w.length == 3 && w.startsWith "C" && (w.drop 1).all Char.isDigit then rest else ws
    | [] => []
  out.putStrLn (handle ws)
  loopOn handle h out

def runLoop (handle : List String → String) : IO Unit := do
  let out ← IO.getStdout
  loopOn handle (← IO.getStdin) out
  out.flush

end Driver
