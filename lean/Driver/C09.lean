import ScenicModel.Model.Rewrites
import ScenicModel.Model.Peg
import ScenicModel.Gen.RewriteData
import ScenicModel.Gen.Grammar
import Driver.Util
/-! line protocol for the C09 models (data = what was regenerated from /repo)

    rw  <tree tokens>                         -> the tree after `Scenic.Rewrites.compile Gen.cfg`, or `reject`
    peg <ci 0|1> <erased 0|1> <fuel> <kind:lit>*   -> result of `Scenic.Peg.parse` on the generated grammar
                                                 (erased = 1: the grammar with every guarded alternative erased)
    words                                     -> the literal table (so that the harness numbers tokens the same way)

    tree tokens:  "(Tag" loc child* ")"   loc = "-" | "?" | "<lineno> <end_lineno>" ;  "[" child* "]" ;  atom  -/
namespace Driver.C09
open Driver Scenic.Rewrites

/-! ### trees -/

partial def parseVal : List String → Option (T × List String)
  | [] => none
  | tok :: rest =>
    if tok == "[" then parseItems rest
    else if tok.startsWith "(" then
      let tag := (tok.drop 1).toString
      match rest with
      | "-" :: r => (parseItems' r ")").map fun (fs, r') => (.node tag .noattr fs, r')
      | "?" :: r => (parseItems' r ")").map fun (fs, r') => (.node tag .missing fs, r')
      | l :: el :: r =>
        match l.toNat?, el.toNat? with
        | some a, some b => (parseItems' r ")").map fun (fs, r') => (.node tag (.at a b) fs, r')
        | _, _ => none
      | _ => none
    else if tok.startsWith "s:" then some (.ident (tok.drop 2).toString, rest)
    else some (.atom tok, rest)
where
  parseItems (ts : List String) : Option (T × List String) := parseItems' ts "]"
  parseItems' (ts : List String) (close : String) : Option (T × List String) :=
    match ts with
    | [] => none
    | t :: r =>
      if t == close then some (.nil, r)
      else match parseVal ts with
        | some (v, r1) =>
          match parseItems' r1 close with
          | some (vs, r2) => some (.cons v vs, r2)
          | none => none
        | none => none

partial def showT (t : T) (acc : Array String) : Array String :=
  match t with
  | .atom s => acc.push s
  | .ident s => acc.push ("s:" ++ s)
  | .nil => (acc.push "[").push "]"
  | .cons _ _ => (showItems t (acc.push "[")).push "]"
  | .node tag loc fs =>
    let acc := acc.push ("(" ++ tag)
    let acc := match loc with
      | .noattr => acc.push "-"
      | .missing => acc.push "?"
      | .at l el => (acc.push (toString l)).push (toString el)
    (showItems fs acc).push ")"
where
  showItems (t : T) (acc : Array String) : Array String :=
    match t with
    | .cons h r => showItems r (showT h acc)
    | _ => acc

def doRw (ts : List String) : String :=
  match parseVal ts with
  | some (t, []) =>
    match compile Scenic.Gen.RewriteData.cfg t with
    | some t' => " ".intercalate (showT t' #[]).toList
    | none => "reject"
  | _ => "bad-tree"

/-! ### PEG -/
open Scenic.Peg in
def parseTok (s : String) : Option Tok :=
  match s.splitOn ":" with
  | [k, l] => do
    let a ← k.toNat?; let b ← l.toNat?; pure ⟨a, b⟩
  | _ => none

open Scenic.Peg in
def showEv : Ev → String
  | .t i => s!"t{i}"
  | .o l => s!"o{l}"
  | .c => "c"

open Scenic.Peg in
def showRes : Res → String
  | .oof => "oof" | .err => "err" | .fail => "fail" | .cutfail => "cutfail"
  | .ok p c evs => s!"ok {p} {if c then 1 else 0} " ++ " ".intercalate (evs.map showEv)

open Scenic.Peg Scenic.Gen.Grammar in
def erasedGrammar : Grammar := eraseGrammar mustFailMask noForcedMask scenicWordMask false grammar

open Scenic.Peg Scenic.Gen.Grammar in
def doPeg (ci erased fuel : String) (ts : List String) : String :=
  match fuel.toNat?, ts.mapM parseTok with
  | some f, some toks =>
    let g := if erased == "1" then erasedGrammar else grammar
    showRes (parse g toks.toArray (ci == "1") f start)
  | _, _ => "bad-tokens"

def handle : List String → String
  | "rw" :: ts => doRw ts
  | "peg" :: ci :: erased :: fuel :: ts => doPeg ci erased fuel ts
  | ["words"] => " ".intercalate (Scenic.Gen.Grammar.lits.toList.map fun s => toHex (s.toUTF8.toList.map (·.toNat)))
  | _ => "bad-op"

end Driver.C09

def main : IO Unit := Driver.runLoop Driver.C09.handle
