import Driver.Util
/-! line protocol for the C09 model (stub: replaced when the property's model is built) -/
namespace Driver.C09
open Driver

def handle : List String → String
  | _ => "bad-op"

end Driver.C09

def main : IO Unit := Driver.runLoop Driver.C09.handle
