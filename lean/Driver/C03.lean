import ScenicModel.Gen.RegionSampling
import ScenicModel.Model.RegionSampling
import Driver.Util
/-! line protocol for the region-sampling model (C03); all configuration data is the one regenerated from /repo -/
namespace Driver.C03
open Scenic.RegionSampling Driver

def cfg := Scenic.Gen.samplerCfg
def zt := Scenic.Gen.zTable

/-- "-" = empty list, otherwise comma separated naturals -/
def parseNats (s : String) : Option (List Nat) :=
  if s == "-" then some [] else (s.splitOn ",").mapM String.toNat?

def parseOptNat (s : String) : Option (Option Nat) :=
  if s == "N" then some none else s.toNat?.map some

def parseOptRat (s : String) : Option (Option Rat) :=
  if s == "N" then some none else (parseRat s).map some

def parseInstr : List String → Option (Instr Nat)
  | ["P", atoms, member] => do
    let a ← parseNats atoms; let m ← parseNats member
    pure (.points a m)
  | ["O", d, sz, member, memberPt, memberFp] => do
    let d ← parseOptNat d; let sz ← parseOptRat sz; let m ← parseNats member
    let mp ← parseNats memberPt; let mf ← parseNats memberFp
    pure (.opaque d sz m mp mf)
  | ["I", args] => do pure (.inter (← parseNats args))
  | ["U", args] => do pure (.union (← parseNats args))
  | ["D", a, b] => do pure (.diff (← a.toNat?) (← b.toNat?))
  | ["B", pts, inBall, other] => do
    let ib ← if inBall == "N" then some none else (parseNats inBall).map some
    pure (.ball (← pts.toNat?) ib (← other.toNat?))
  | _ => none

/-- split a token list at ";" -/
def splitSemis (ws : List String) : List (List String) :=
  let (cur, acc) := ws.foldl (fun (st : List String × List (List String)) w =>
    if w == ";" then ([], st.1.reverse :: st.2) else (w :: st.1, st.2)) ([], [])
  (cur.reverse :: acc).reverse

def insertSorted (e : Nat × Rat) : List (Nat × Rat) → List (Nat × Rat)
  | [] => [e]
  | f :: l => if e.1 ≤ f.1 then e :: f :: l else f :: insertSorted e l

def showPMF (p : SubPMF Nat) : String :=
  let c := (collect p).foldr insertSorted []
  let c := c.filter fun e => e.2 ≠ 0
  "pmf" ++ String.join (c.map fun e => s!" {e.1}:{showRat e.2}")

def showV (v : V3) : String := s!"{showRat v.x} {showRat v.y} {showRat v.z}"

def rats (ws : List String) : Option (List Rat) := ws.mapM parseRat

def handle : List String → String
  | "prog" :: rest =>
    match (splitSemis rest).mapM parseInstr with
    | none => "bad-op"
    | some prog =>
      match (evalProgram cfg Scenic.Gen.ballFilter Scenic.Gen.ballFallback prog).getLast? with
      | none => "bad-op"
      | some o => match o.sampler with
        | none => "undef"
        | some p => showPMF p
  | "rect" :: rest => match rats rest with
    | some [px, py, pz, c, s, rx, ry] => showV (rectSample zt.rect ⟨px, py, pz⟩ c s rx ry)
    | _ => "bad-op"
  | "disc" :: rest => match rats rest with
    | some [cx, cy, cz, r, ct, st] => showV (discSample zt.circle ⟨cx, cy, cz⟩ r ct st)
    | _ => "bad-op"
  | "sector" :: rest => match rats rest with
    | some [cx, cy, cz, hx, hy, r, cu, su] => showV (sectorSample zt.sector ⟨cx, cy, cz⟩ hx hy r cu su)
    | _ => "bad-op"
  | "seg" :: rest => match rats rest with
    | some [ax, ay, az, bx, bY, bz, t] => showV (segSample ⟨ax, ay, az⟩ ⟨bx, bY, bz⟩ t)
    | _ => "bad-op"
  | "pline" :: rest => match rats rest with
    | some [ax, ay, bx, bY, t] => showV (polylineSample zt.polyline ⟨ax, ay, 0⟩ ⟨bx, bY, 0⟩ t)
    | _ => "bad-op"
  | "voxel" :: rest => match rats rest with
    | some [bx, bY, bz, sx, sy, sz, ux, uy, uz] => showV (voxelSample ⟨bx, bY, bz⟩ ⟨sx, sy, sz⟩ ⟨ux, uy, uz⟩)
    | _ => "bad-op"
  | "polyc" :: rest => match rats rest with
    | some [minx, miny, maxx, maxy, z, ux, uy] => showV (polyCandidate zt.polygon minx miny maxx maxy z ux uy)
    | _ => "bad-op"
  | "sectorcirc" :: rest => match rats rest with
    | some [R, c] => let r := sectorCirc Scenic.Gen.sectorCircCfg R c; s!"{showRat r.1} {showRat r.2}"
    | _ => "bad-op"
  | "radsq" :: kind :: rest => match rats rest with
    | some [r, hw, hl, hz] =>
      let k := match kind with
        | "circle" => some Scenic.Gen.circTable.circle
        | "rect" => some Scenic.Gen.circTable.rect
        | "mesh" => some Scenic.Gen.circTable.mesh
        | _ => none
      match k with
      | some k => showRat (radiusSq k r hw hl hz)
      | none => "bad-op"
    | _ => "bad-op"
  | "inball" :: rest => match rats rest with
    | some [cx, cy, cz, rsq, x, y, z] => if inBall3 ⟨cx, cy, cz⟩ rsq ⟨x, y, z⟩ then "1" else "0"
    | _ => "bad-op"
  | _ => "bad-op"

end Driver.C03

def main : IO Unit := Driver.runLoop Driver.C03.handle
