import Driver.Util
/-! line protocol for the C03 model (stub: replaced when the property's model is built) -/
namespace Driver.C03
open Driver

def handle : List String → String
  | _ => "bad-op"

end Driver.C03

def main : IO Unit := Driver.runLoop Driver.C03.handle
