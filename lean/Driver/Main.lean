import Driver.Util
import Driver.C18
/-!
Line-protocol driver: one operation per input line, `<property> <op> <args…>`, one output line each.
Compiled (`lake build driver`); imports only Model/ and Gen/ modules (no Mathlib).
-/
open Driver

def dispatch (line : String) : String :=
  match words line with
  | "C18" :: rest => Driver.C18.handle rest
  | _ => "bad-op"

partial def loop (h : IO.FS.Stream) (out : IO.FS.Stream) : IO Unit := do
  let line ← h.getLine
  if line.isEmpty then return ()
  out.putStrLn (dispatch (line.trimAscii.toString))
  loop h out

def main : IO Unit := do
  let out ← IO.getStdout
  loop (← IO.getStdin) out
  out.flush
