import Driver.Util
/-! line protocol for the C12 model (stub: replaced when the property's model is built) -/
namespace Driver.C12
open Driver

def handle : List String → String
  | _ => "bad-op"

end Driver.C12

def main : IO Unit := Driver.runLoop Driver.C12.handle
