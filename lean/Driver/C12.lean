import ScenicModel.Gen.RunOrder
import ScenicModel.Model.SimSpec
import Driver.Util
/-! line protocol for the C12 model (simulation loop).  One line = one program + schedule;
    the answer is the termination, the final clock, the trajectory/action-log lengths and the
    event log.  `Sem` (phase order, flags) is the data regenerated from /repo. -/
namespace Driver.C12
open Driver Scenic.SimLoop

abbrev PM := StateT (List String) Option

def tok : PM String := do
  match (← get) with
  | [] => failure
  | t :: ts => set ts; pure t

def nat : PM Nat := do
  match (← tok).toNat? with
  | some n => pure n
  | none => failure

def expect (s : String) : PM Unit := do
  if (← tok) == s then pure () else failure

def rat : PM Rat := do
  match parseRat (← tok) with
  | some q => pure q
  | none => failure

def many {α} (p : PM α) : Nat → PM (List α)
  | 0 => pure []
  | n + 1 => do let x ← p; let xs ← many p n; pure (x :: xs)

def counted {α} (p : PM α) : PM (List α) := do let n ← nat; many p n

structure Env where
  dt : Rat
  float : Bool

def ratToFloat (q : Rat) : Float := Float.ofInt q.num / Float.ofNat q.den

def Env.secs (e : Env) (q : Rat) : Nat :=
  if e.float then secToStepsF (ratToFloat q) (ratToFloat e.dt) else secToStepsQ q e.dt

def cond : PM Cond := do
  match (← tok) with
  | "tt" => pure .tt
  | "ff" => pure .ff
  | "ge" => return .ge (← nat)
  | "lt" => return .lt (← nat)
  | "eq" => return .eq (← nat)
  | "ne" => return .ne (← nat)
  | _ => failure

def modifier (e : Env) : PM Mod := do
  match (← tok) with
  | "N" => pure .none
  | "Fs" => return .forT (← nat)
  | "Fq" => return .forT (e.secs (← rat))
  | "U" => return .untilC (← nat)
  | _ => failure

mutual
partial def stmt (e : Env) : PM Stmt := do
  match (← tok) with
  | "L" => return .log (← nat)
  | "T" => return .take (← nat)
  | "W" => pure .wait
  | "X" => pure .term
  | "Z" => pure .termSim
  | "D" => do let subs ← counted nat; let m ← modifier e; pure (.doSub subs m)
  | "R" => do let k ← nat; let b ← block e; pure (.rep k b)
  | "V" => do let b ← block e; pure (.forever b)
  | "I" => do let c ← nat; let a ← block e; let b ← block e; pure (.ite c a b)
  | _ => failure
partial def blockRest (e : Env) : PM (List Stmt) := do
  match (← get) with
  | "]" :: ts => set ts; pure []
  | _ => do let s ← stmt e; let r ← blockRest e; pure (s :: r)
partial def block (e : Env) : PM (List Stmt) := do
  expect "["; blockRest e
end

def scen (e : Env) : PM ScenCls := do
  expect "agents"; let agents ← counted nat
  expect "mons"; let mons ← counted nat
  expect "compose"
  let compose ← (do
    match (← get) with
    | "-" :: ts => set ts; pure none
    | _ => return some (← block e))
  expect "limit"
  let limit ← (do
    match (← tok) with
    | "-" => pure none
    | "s" => return some (← nat)
    | "q" => return some (e.secs (← rat))
    | _ => failure)
  expect "tw"; let tw ← counted nat
  expect "ra"; let ra ← nat
  expect "tsw"; let tsw ← counted nat
  expect "rec"; let ri ← nat; let recs ← counted nat; let rf ← nat
  pure ⟨agents, mons, compose, limit, tw, ra == 1, tsw, ri == 1, recs, rf == 1⟩

inductive SMode | id | rev | rot (k : Nat) | swap

def smode : PM SMode := do
  match (← tok) with
  | "id" => pure .id
  | "rev" => pure .rev
  | "rot" => return .rot (← nat)
  | "swap" => pure .swap
  | _ => failure

def SMode.apply (n : Nat) : SMode → List Nat
  | .id => List.range n
  | .rev => (List.range n).reverse
  | .rot k => let k := if n = 0 then 0 else k % n; (List.range n).drop k ++ (List.range n).take k
  | .swap => match List.range n with
    | a :: b :: r => b :: a :: r
    | l => l

structure Job where
  cf : Nat
  fuel : Nat
  prog : Prog
  modes : List SMode

def job : PM Job := do
  expect "cf"; let cf ← nat
  expect "fuel"; let fuel ← nat
  expect "max"; let maxSteps ← nat
  expect "dt"; let dt ← rat
  expect "fm"; let fm ← tok
  let e : Env := ⟨dt, fm == "f"⟩
  expect "conds"; let conds ← counted cond
  expect "behs"; let behs ← counted (block e)
  expect "mons"; let mons ← counted (block e)
  expect "scens"; let scens ← counted (scen e)
  expect "sched"; let modes ← counted smode
  pure ⟨cf, fuel, ⟨⟨conds, behs⟩, mons, scens, maxSteps⟩, modes⟩

def showCtx : Ctx → String
  | .comp => "co" | .mon => "mo" | .beh => "be" | .termWhen => "tw" | .termSim => "ts"

def showEv : Ev → String
  | .q i => s!"q:{i}"
  | .c i t => s!"c:{i}:{t}"
  | .m i j t => s!"m:{i}:{j}:{t}"
  | .b a t => s!"b:{a}:{t}"
  | .bstep a => s!"bs:{a}"
  | .cond x c v => s!"cond:{showCtx x}:{c}:{if v then 1 else 0}"
  | .create a => s!"create:{a}"
  | .stop i => s!"stop:{i}"
  | .recInit => "ri"
  | .recd k => s!"r:{k}"
  | .traj t => s!"traj:{t}"
  | .recFinal => "rf"
  | .sched o => "sched:" ++ ",".intercalate (o.map toString)
  | .act t acts => s!"act:{t}:" ++ ",".intercalate (acts.map fun p =>
      s!"{p.1}=" ++ (match p.2 with | some x => toString x | none => "-"))
  | .sim t => s!"sim:{t}"
  | .upd t => s!"upd:{t}"

def showTerm : Term → String
  | .scenarioComplete => "scenarioComplete"
  | .terminatedByMonitor => "terminatedByMonitor"
  | .simulationTerminationCondition => "simulationTerminationCondition"
  | .timeLimit => "timeLimit"
  | .terminatedByBehavior => "terminatedByBehavior"

def showAbort : Abort → String
  | .stuck => "stuck" | .error => "error"

def runJob (S : Sem) (j : Job) : String :=
  let sched : Nat → Nat → List Nat := fun t n =>
    match j.modes with
    | [] => List.range n
    | ms => ((ms.getD (t % ms.length) .id)).apply n
  let r := simulate j.prog S j.cf j.fuel sched
  let head := match r.abort, r.term with
    | some a, _ => showAbort a
    | none, some t => showTerm t
    | none, none => "none"
  s!"{head} {r.time} {r.trajLen} {r.actLen} | " ++ ";".intercalate (r.log.map showEv)

def parseCtx : String → Option Ctx
  | "co" => some .comp | "mo" => some .mon | "be" => some .beh | "tw" => some .termWhen | "ts" => some .termSim
  | _ => none

def parseNats (s : String) : Option (List Nat) :=
  if s == "" then some [] else (s.splitOn ",").mapM String.toNat?

def parseAct (s : String) : Option (Nat × Option Nat) :=
  match s.splitOn "=" with
  | [a, x] => do
    let a ← a.toNat?
    if x == "-" then pure (a, none) else do let v ← x.toNat?; pure (a, some v)
  | _ => none

def parseEv (s : String) : Option Ev :=
  match s.splitOn ":" with
  | ["q", i] => .q <$> i.toNat?
  | ["c", i, t] => .c <$> i.toNat? <*> t.toNat?
  | ["m", i, j, t] => .m <$> i.toNat? <*> j.toNat? <*> t.toNat?
  | ["b", a, t] => .b <$> a.toNat? <*> t.toNat?
  | ["bs", a] => .bstep <$> a.toNat?
  | ["cond", x, c, v] => .cond <$> parseCtx x <*> c.toNat? <*> (if v == "1" then some true else if v == "0" then some false else none)
  | ["create", a] => .create <$> a.toNat?
  | ["stop", i] => .stop <$> i.toNat?
  | ["ri"] => some .recInit
  | ["r", k] => .recd <$> k.toNat?
  | ["traj", t] => .traj <$> t.toNat?
  | ["rf"] => some .recFinal
  | ["sched", l] => .sched <$> parseNats l
  | ["act", t, l] => do
    let t ← t.toNat?
    let acts ← (if l == "" then some [] else (l.splitOn ",").mapM parseAct)
    pure (.act t acts)
  | ["sim", t] => .sim <$> t.toNat?
  | ["upd", t] => .upd <$> t.toNat?
  | _ => none

/-- run the order automaton of `SimSpec` on an event log -/
def runSpec : DS → Nat → List String → String
  | s, _, [] => s!"ok {if s.final then 1 else 0} {s.time}"
  | s, k, e :: rest =>
    match parseEv e with
    | none => s!"unparsed {k} {e}"
    | some ev =>
      match s.step ev with
      | some s' => runSpec s' (k + 1) rest
      | none => s!"refused {k} {e}"

/-- `thr` of a duration in seconds, both ways (float as CPython, exact quotient) -/
def handle : List String → String
  | "run" :: ts => match job.run ts with
    | some (j, []) => runJob Scenic.Gen.sem j
    | _ => "bad-op"
  | "rundoc" :: ts => match job.run ts with   -- the documented phase order, whatever the source says
    | some (j, []) => runJob Sem.documented j
    | _ => "bad-op"
  | ["wf", evs] => runSpec .start 0 (evs.splitOn ";")
  | ["sem"] => s!"{decide (Scenic.Gen.sem.order = Phase.documented)} {Scenic.Gen.dynReqAsTemporal} {Scenic.Gen.monTermPropagates}"
  | ["secs", q, dt] => match parseRat q, parseRat dt with
    | some q, some dt => s!"{secToStepsF (ratToFloat q) (ratToFloat dt)} {secToStepsQ q dt}"
    | _, _ => "bad-op"
  | _ => "bad-op"

end Driver.C12

def main : IO Unit := Driver.runLoop Driver.C12.handle
