import Driver.Util
/-! line protocol for the C16 model (stub: replaced when the property's model is built) -/
namespace Driver.C16
open Driver

def handle : List String → String
  | _ => "bad-op"

end Driver.C16

def main : IO Unit := Driver.runLoop Driver.C16.handle
