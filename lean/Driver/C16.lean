import ScenicModel.Gen.RegionOps
import Driver.Util
/-!
Line protocol for the C16 model (region algebra + double dispatch).  The dispatch table and the
flags are the ones regenerated from /repo (`Gen/RegionOps.lean`).

Regions are written in prefix form with rationals `n/d`:
  all | empty | planar z <shape> | disc z cx cy r | foot <shape> | line n x y … | path n x y z … |
  pts n x y z … | vol <box> | surf <box> | lzy <reg> | inter <reg> <reg> | union … | diff …
  <shape> = poly n x y … | disc cx cy r         <box> = c(3) h(3) u(3) v(3) w(3)
-/
namespace Driver.C16
open Driver Scenic.Region

def T := Scenic.Gen.RegionOps.table
def F := Scenic.Gen.RegionOps.flags

abbrev P (α : Type) := List String → Option (α × List String)

def pRat : P Rat
  | t :: rest => (parseRat t).map (·, rest)
  | [] => none

def pNat : P Nat
  | t :: rest => t.toNat?.map (·, rest)
  | [] => none

def pV2 : P V2 := fun ts => do
  let (x, ts) ← pRat ts; let (y, ts) ← pRat ts; pure (⟨x, y⟩, ts)

def pPt : P Pt := fun ts => do
  let (x, ts) ← pRat ts; let (y, ts) ← pRat ts; let (z, ts) ← pRat ts; pure (⟨x, y, z⟩, ts)

def pMany {α} (p : P α) : Nat → P (List α)
  | 0, ts => some ([], ts)
  | n + 1, ts => do
    let (a, ts) ← p ts; let (as, ts) ← pMany p n ts; pure (a :: as, ts)

def pList {α} (p : P α) : P (List α) := fun ts => do
  let (n, ts) ← pNat ts; pMany p n ts

def pShape : P Shape2
  | "poly" :: ts => do let (vs, ts) ← pList pV2 ts; pure (.poly vs, ts)
  | "disc" :: ts => do let (c, ts) ← pV2 ts; let (r, ts) ← pRat ts; pure (.disc c r, ts)
  | _ => none

def pBox : P Box := fun ts => do
  let (c, ts) ← pPt ts; let (h, ts) ← pPt ts; let (u, ts) ← pPt ts; let (v, ts) ← pPt ts; let (w, ts) ← pPt ts
  pure (⟨c, h, u, v, w⟩, ts)

/-- fuelled recursive descent (regions nest at most a few levels) -/
def pReg : Nat → P Reg
  | 0, _ => none
  | n + 1, ts => match ts with
    | "all" :: ts => some (.all, ts)
    | "empty" :: ts => some (.empty, ts)
    | "planar" :: ts => do let (z, ts) ← pRat ts; let (s, ts) ← pShape ts; pure (.planar z s, ts)
    | "disc" :: ts => do let (z, ts) ← pRat ts; let (c, ts) ← pV2 ts; let (r, ts) ← pRat ts; pure (.disc z c r, ts)
    | "foot" :: ts => do let (s, ts) ← pShape ts; pure (.foot s, ts)
    | "line" :: ts => do let (c, ts) ← pList pV2 ts; pure (.line c, ts)
    | "path" :: ts => do let (c, ts) ← pList pPt ts; pure (.path c, ts)
    | "pts" :: ts => do let (c, ts) ← pList pPt ts; pure (.pts c, ts)
    | "vol" :: ts => do let (b, ts) ← pBox ts; pure (.vol b, ts)
    | "surf" :: ts => do let (b, ts) ← pBox ts; pure (.surf b, ts)
    | "lzy" :: ts => do let (r, ts) ← pReg n ts; pure (.lzy r, ts)
    | "inter" :: ts => do let (a, ts) ← pReg n ts; let (b, ts) ← pReg n ts; pure (.inter a b, ts)
    | "union" :: ts => do let (a, ts) ← pReg n ts; let (b, ts) ← pReg n ts; pure (.union a b, ts)
    | "diff" :: ts => do let (a, ts) ← pReg n ts; let (b, ts) ← pReg n ts; pure (.diff a b, ts)
    | _ => none

def pOp : P Op
  | "intersect" :: ts => some (.intersect, ts)
  | "union" :: ts => some (.union, ts)
  | "difference" :: ts => some (.difference, ts)
  | "intersects" :: ts => some (.intersects, ts)
  | _ => none

def pKind : P Kind
  | t :: ts => (Kind.list.find? (fun k => (repr k).pretty == "Scenic.Region.Kind." ++ t)).map (·, ts)
  | [] => none

def pBool : P Bool
  | "1" :: ts => some (true, ts)
  | "0" :: ts => some (false, ts)
  | _ => none

def bits (l : List Bool) : String := if l.isEmpty then "-" else String.ofList (l.map fun b => if b then '1' else '0')

def strip (s : String) : String :=
  (((((s.replace "Scenic.Region." "").replace "Op." "").replace "Kind." "").replace "Route." "").replace "Handler." "").replace "\n" " "

def showRoute (r : Route) : String :=
  String.intercalate "" ((strip (repr r).pretty).splitOn " " |>.filter (· ≠ "") |>.intersperse "_")

def showPt (p : Pt) : String := s!"{showRat p.x} {showRat p.y} {showRat p.z}"

/-! ### exact margin from the (relative) boundary of a region -/

def nearShape (m : Rat) : Shape2 → V2 → Bool
  | .poly vs, q => (ringEdges vs).any (fun e => decide (segDistSq2 q e.1 e.2 ≤ sq m))
  | .disc c r, q => decide (sq (maxR 0 (r - m)) ≤ V2.dsq q c) && decide (V2.dsq q c ≤ sq (r + m))

def nearBox (m : Rat) (b : Box) (p : Pt) : Bool :=
  if b.mem p then decide (b.depth p ≤ m) else decide (b.distSq p ≤ sq m)

/-- within `m` of the boundary of a primitive (for curves and point sets: within `m` but not on it,
    or within `m` of a vertex); planar regions: also a height within `m` of, but different from, `z` -/
def near (m : Rat) : Reg → Pt → Bool
  | .all, _ => false
  | .empty, _ => false
  | .planar z s, p => nearShape m s p.xy || (decide (p.z ≠ z) && decide (absR (p.z - z) ≤ m))
  | .disc z c r, p => nearShape m (.disc c r) p.xy || (decide (p.z ≠ z) && decide (absR (p.z - z) ≤ m))
  | .foot s, p => nearShape m s p.xy
  | .line c, p =>
      (decide (minOver (fun e => segDistSq2 p.xy e.1 e.2) (chainSegs c) + sq p.z ≤ sq m) && !(Reg.line c).mem p)
      || c.any (fun v => decide (V2.dsq p.xy v + sq p.z ≤ sq m))
  | .path c, p =>
      (decide (minOver (fun e => segDistSq3 p e.1 e.2) (chainSegs3 c) ≤ sq m) && !(Reg.path c).mem p)
      || c.any (fun v => decide (Pt.dsq p v ≤ sq m))
  | .pts ps, p => ps.any (fun v => decide (Pt.dsq p v ≤ sq m) && decide (p ≠ v))
  | .vol b, p => nearBox m b p
  | .surf b, p => nearBox m b p && !b.onSurface p
  | .lzy r, p => near m r p
  | .inter a b, p => near m a p || near m b p
  | .union a b, p => near m a p || near m b p
  | .diff a b, p => near m a p || near m b p

/-! ### oracles instantiated on a finite candidate list (three-valued use in the harness) -/

def candOracle (cands : List Pt) : Oracle :=
  { sub2 := fun a b => cands.all (fun p => !b p.xy || a p.xy),
    ne2 := fun f => cands.any (fun p => f p.xy),
    ne3 := fun f => cands.any f }

def showDist : DistOut → String
  | .val d => s!"{showRat d.gapSq},{showRat d.r},{showRat d.dzSq}"
  | .inf => "inf"
  | .unsupported => "unsupported"

def showTri : Tri → String
  | .yes => "yes" | .no => "no" | .undecided => "undecided"

def resZ : Res → String
  | .planar z _ => showRat z
  | .same r => match r.z? with | some z => showRat z | none => "-"
  | _ => "-"

def handle : List String → String
  | "mem" :: ts => match (do let (r, ts) ← pReg 8 ts; let (ps, ts) ← pList pPt ts; pure (r, ps, ts)) with
    | some (r, ps, []) =>
      s!"ok {bits (ps.map r.mem)} {bits (ps.map (containsPoint F r))} {bits (ps.map (memCode F r))} {bits (ps.map (trueContains F r))}"
    | _ => "bad-op"
  | "near" :: ts => match (do let (m, ts) ← pRat ts; let (r, ts) ← pReg 8 ts; let (ps, ts) ← pList pPt ts; pure (m, r, ps, ts)) with
    | some (m, r, ps, []) => s!"ok {bits (ps.map (near m r))}"
    | _ => "bad-op"
  | "op" :: ts => match (do let (op, ts) ← pOp ts; let (a, ts) ← pReg 8 ts; let (b, ts) ← pReg 8 ts
                            let (ps, ts) ← pList pPt ts; pure (op, a, b, ps, ts)) with
    | some (op, a, b, ps, []) =>
      let rt := routeOf T fuelBound op (ctlOf a b)
      match exec (candOracle ps) F op rt a b with
      | .res r => s!"ok {showRoute rt} {strip r.tag} {resZ r} {bits (ps.map r.mem)} {bits (ps.map a.mem)} {bits (ps.map b.mem)}"
      | .bool v => s!"bool {showRoute rt} {if v then 1 else 0}"
      | .notImpl => s!"notimpl {showRoute rt}"
      | .crash => s!"crash {showRoute rt}"
    | _ => "bad-op"
  | "route" :: ts => match (do let (op, ts) ← pOp ts; let (ka, ts) ← pKind ts; let (kb, ts) ← pKind ts
                               let (la, ts) ← pBool ts; let (lb, ts) ← pBool ts; let (zne, ts) ← pBool ts
                               let (ea, ts) ← pBool ts; let (eb, ts) ← pBool ts
                               pure (op, (⟨ka, kb, la, lb, zne, ea, eb⟩ : Ctl), ts)) with
    | some (op, c, []) => s!"ok {showRoute (routeOf T fuelBound op c)}"
    | _ => "bad-op"
  | "dist" :: ts => match (do let (r, ts) ← pReg 8 ts; let (ps, ts) ← pList pPt ts; pure (r, ps, ts)) with
    | some (r, ps, []) => "ok " ++ String.intercalate " " (ps.map (fun p => showDist (distanceTo F r p)))
    | _ => "bad-op"
  | "aabb" :: ts => match pReg 8 ts with
    | some (r, []) => (match aabb F r with
      | some bb => s!"ok {showPt bb.1} {showPt bb.2}"
      | none => "none")
    | _ => "bad-op"
  | "proj" :: ts => match (do let (b, ts) ← pBox ts; let (p, ts) ← pPt ts; let (d, ts) ← pPt ts; pure (b, p, d, ts)) with
    | some (b, p, d, []) => (match projectVector F b p d with
      | some q => s!"ok {showPt q}"
      | none => "none")
    | _ => "bad-op"
  | "creg" :: ts => match (do let (a, ts) ← pReg 8 ts; let (b, ts) ← pReg 8 ts; let (sm, ts) ← pBool ts
                              let (ps, ts) ← pList pPt ts; pure (a, b, sm, ps, ts)) with
    | some (a, b, sm, ps, []) => s!"ok {showTri (containsRegion F (candOracle ps) a b sm)}"
    | _ => "bad-op"
  | _ => "bad-op"

end Driver.C16

def main : IO Unit := Driver.runLoop Driver.C16.handle
