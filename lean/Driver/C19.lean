import Driver.Util
/-! line protocol for the C19 model (stub: replaced when the property's model is built) -/
namespace Driver.C19
open Driver

def handle : List String → String
  | _ => "bad-op"

end Driver.C19

def main : IO Unit := Driver.runLoop Driver.C19.handle
