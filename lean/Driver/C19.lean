import Driver.Util
import ScenicModel.Model.Choose
import ScenicModel.Model.ChooseSelect
import ScenicModel.Gen.Choose
/-!
Line protocol for the C19 model (uses the *generated* `Gen.chooseConfig`).

  prog <t0> <stmt>*          exact distribution over outcomes of a behavior/compose body started at step t0
     stmt := W <n> | R <op> <op> | O <k> (<int> <rat>){k} | U <k> <int>{k}
           | C <form> <k> <item>{k} | S <form> <k> <item>{k}
           | D <k> <item>{k}      the next local variable holds this dict (variables are numbered in order of appearance)
           | CV <var> | SV <var>  `do choose d` / `do shuffle d` on the dict held in that variable
     op   := c<int> | p<nat>          form := d (dict, explicit weights) | t (tuple, default weight)
     item := <id> <rat|-> <prebits> <durdigits>     tables are indexed by min(step, len-1)
     output: `<status>,<endTime>,<t.kind.val;…|->=<num/den>` entries separated by spaces
  cidx <u> <k> <w>{k}        index chosen by `random.choices(range(k), cum_weights=accumulate(w))` for raw uniform u
  config                     the generated constants
-/
namespace Driver.C19
open Driver Scenic.Choose

structure ItemTab where
  id : Nat
  pre : List Bool
  dur : List Nat

def tabGet {α : Type} (d : α) (tb : List α) (t : Nat) : α := tb.getD (min t (tb.length - 1)) d

def mkEnv (tabs : List ItemTab) : Env where
  pre := fun i t => match tabs.find? (·.id == i) with
    | some tb => tabGet false tb.pre t
    | none => false
  dur := fun i t => match tabs.find? (·.id == i) with
    | some tb => tabGet 0 tb.dur t
    | none => 0

def parseOperand (s : String) : Option Operand :=
  if s.startsWith "c" then (s.drop 1).toString.toInt?.map Operand.const
  else if s.startsWith "p" then (s.drop 1).toString.toNat?.map Operand.prev
  else none

def parseBits (s : String) : Option (List Bool) :=
  s.toList.mapM fun ch => if ch == '1' then some true else if ch == '0' then some false else none

def parseDigits (s : String) : Option (List Nat) :=
  s.toList.mapM fun ch => if ch.isDigit then some (ch.toNat - 48) else none

/-- parse `k` items; returns items, their tables and the remaining tokens -/
def parseItems (form : String) : Nat → List String → Option (List Item × List ItemTab × List String)
  | 0, ts => some ([], [], ts)
  | k + 1, i :: w :: p :: d :: ts => do
    let id ← i.toNat?
    let wt ← if form == "t" then some ((Scenic.Gen.chooseConfig.defaultWeight : Nat) : Rat) else parseRat w
    let pre ← parseBits p
    let dur ← parseDigits d
    let (its, tabs, rest) ← parseItems form k ts
    some (⟨id, wt⟩ :: its, ⟨id, pre, dur⟩ :: tabs, rest)
  | _, _ => none

def parseWeighted : Nat → List String → Option (List (Int × Rat) × List String)
  | 0, ts => some ([], ts)
  | k + 1, v :: w :: ts => do
    let z ← v.toInt?
    let q ← parseRat w
    let (r, rest) ← parseWeighted k ts
    some ((z, q) :: r, rest)
  | _, _ => none

def parseInts : Nat → List String → Option (List Int × List String)
  | 0, ts => some ([], ts)
  | k + 1, v :: ts => do
    let z ← v.toInt?
    let (r, rest) ← parseInts k ts
    some (z :: r, rest)
  | _, _ => none

/-- `fuel` = number of tokens (every statement consumes at least one) -/
def parseStmts : Nat → List String → Option (List Stmt × List ItemTab × Store)
  | _, [] => some ([], [], [])
  | 0, _ => none
  | fuel + 1, "W" :: n :: ts => do
    let k ← n.toNat?
    let (ss, tabs, st) ← parseStmts fuel ts
    some (.wait k :: ss, tabs, st)
  | fuel + 1, "R" :: a :: b :: ts => do
    let lo ← parseOperand a
    let hi ← parseOperand b
    let (ss, tabs, st) ← parseStmts fuel ts
    some (.draw (.range lo hi) :: ss, tabs, st)
  | fuel + 1, "O" :: n :: ts => do
    let k ← n.toNat?
    let (opts, rest) ← parseWeighted k ts
    let (ss, tabs, st) ← parseStmts fuel rest
    some (.draw (.weighted opts) :: ss, tabs, st)
  | fuel + 1, "U" :: n :: ts => do
    let k ← n.toNat?
    let (opts, rest) ← parseInts k ts
    let (ss, tabs, st) ← parseStmts fuel rest
    some (.draw (.uniform opts) :: ss, tabs, st)
  | fuel + 1, "C" :: form :: n :: ts => do
    let k ← n.toNat?
    let (its, tb, rest) ← parseItems form k ts
    let (ss, tabs, st) ← parseStmts fuel rest
    some (.choose its :: ss, tb ++ tabs, st)
  | fuel + 1, "S" :: form :: n :: ts => do
    let k ← n.toNat?
    let (its, tb, rest) ← parseItems form k ts
    let (ss, tabs, st) ← parseStmts fuel rest
    some (.shuffle its :: ss, tb ++ tabs, st)
  | fuel + 1, "D" :: n :: ts => do
    let k ← n.toNat?
    let (its, tb, rest) ← parseItems "d" k ts
    let (ss, tabs, st) ← parseStmts fuel rest
    some (ss, tb ++ tabs, its :: st)
  | fuel + 1, "CV" :: n :: ts => do
    let k ← n.toNat?
    let (ss, tabs, st) ← parseStmts fuel ts
    some (.chooseVar k :: ss, tabs, st)
  | fuel + 1, "SV" :: n :: ts => do
    let k ← n.toNat?
    let (ss, tabs, st) ← parseStmts fuel ts
    some (.shuffleVar k :: ss, tabs, st)
  | _, _ => none

def showStatus : Status → String
  | .done => "done"
  | .rejected => "rej"
  | .error => "err"

def showEvent (e : Event) : String := s!"{e.t}.{e.kind}.{e.val}"

def showOutcome (o : Outcome) : String :=
  let lg := if o.log.isEmpty then "-" else ";".intercalate (o.log.map showEvent)
  s!"{showStatus o.status},{o.endTime},{lg}"

def showDist (d : Dist Outcome) : String :=
  " ".intercalate (List.map (fun (op : Outcome × Rat) => s!"{showOutcome op.1}={showRat op.2}") d)

def parseRats : List String → Option (List Rat)
  | [] => some []
  | s :: ss => do
    let q ← parseRat s
    let r ← parseRats ss
    some (q :: r)

def parseOpts : List String → Option (List (Int × Rat))
  | [] => some []
  | v :: w :: rest => do
    let z ← v.toInt?
    let q ← parseRat w
    let r ← parseOpts rest
    some ((z, q) :: r)
  | _ => none

def showPick : Pick Int → String
  | .picked z => s!"picked {z}"
  | .deadlock => "deadlock"
  | .emptyDomain => "empty"
  | .negWeight => "neg"
  | .crash => "crash"

def handle : List String → String
  | "prog" :: t0 :: ts =>
    match t0.toNat?, parseStmts (ts.length + 1) ts with
    | some t, some (ss, tabs, st) => "ok " ++ showDist (exec Scenic.Gen.chooseConfig (mkEnv tabs) ss t [] st)
    | _, _ => "bad-prog"
  | "cidx" :: u :: _k :: ws =>
    match parseRat u, parseRats ws with
    | some q, some w => s!"ok {choicesIndex w q}"
    | _, _ => "bad-cidx"
  | "osel" :: u :: ts =>
    -- `Options({v: w, …})` constructed and sampled with raw uniform value `u`, on the generated constants
    match parseRat u, parseOpts ts with
    | some q, some xs => "ok " ++ showPick (optionsSelect Scenic.Gen.chooseConfig Scenic.Gen.selectConfig xs q)
    | _, _ => "bad-osel"
  | ["config"] =>
    let c := Scenic.Gen.chooseConfig
    let s := Scenic.Gen.selectConfig
    s!"ok {c.defaultWeight} {c.shortcutLen} {c.shortcutIdx} {c.dropZero} {c.copyOperand} {s.highOff} {s.selLow} {s.rangeOff} {s.takeIdx}"
  | _ => "bad-op"

end Driver.C19

def main : IO Unit := Driver.runLoop Driver.C19.handle
