import ScenicModel.Gen.Frames
import ScenicModel.Model.Frames
import Driver.Util
/-! line protocol for the frame model (C07), run at `α = Rat`.

Numbers are `num/den` rationals. Orientations come in as (not necessarily unit) quaternions
`w x y z`, angles as half-angle pairs `a b` (the angle is `2·atan2(b, a)`); orientations go out as the
9 entries of the rotation matrix (row major), angles as `cos sin`.
Square-root witnesses (`h = hypot(dx,dy)`, `rho = hypot(dx,dy,dz)`) are supplied by the caller and
checked here (`bad-witness` otherwise). -/
namespace Driver.C07
open Driver Scenic.Frames

abbrev Q := Rat

def showV (v : Vec3 Q) : String := s!"{showRat v.x} {showRat v.y} {showRat v.z}"
def showM (m : Mat3 Q) : String := s!"{showV m.r0} {showV m.r1} {showV m.r2}"
def showA (a : Ang Q) : String := s!"{showRat a.c} {showRat a.s}"

def vec : List Q → Option (Vec3 Q × List Q)
  | x :: y :: z :: r => some (⟨x, y, z⟩, r)
  | _ => none

def dims : List Q → Option (Dims Q × List Q)
  | x :: y :: z :: r => some (⟨x, y, z⟩, r)
  | _ => none

/-- quaternion `w x y z` (non-zero) -> rotation matrix -/
def ori : List Q → Option (Mat3 Q × List Q)
  | w :: x :: y :: z :: r =>
    let q : Quat Q := ⟨w, x, y, z⟩
    if q.normSq = 0 then none else some (q.toMat, r)
  | _ => none

def quat : List Q → Option (Quat Q × List Q)
  | w :: x :: y :: z :: r =>
    let q : Quat Q := ⟨w, x, y, z⟩
    if q.normSq = 0 then none else some (q, r)
  | _ => none

/-- half-angle pair `a b` -> `(cos, sin)` -/
def ang : List Q → Option (Ang Q × List Q)
  | a :: b :: r => if a * a + b * b = 0 then none else some (Ang.ofHalf a b, r)
  | _ => none

def num : List Q → Option (Q × List Q)
  | a :: r => some (a, r)
  | _ => none

def dirOf : String → Option Dir
  | "left" => some .left | "right" => some .right | "ahead" => some .ahead
  | "behind" => some .behind | "above" => some .above | "below" => some .below
  | _ => none

def distOf (kind : String) (xs : List Q) : Option (Dist Q × List Q) :=
  match kind, xs with
  | "none", r => some (.none, r)
  | "s", d :: r => some (.scalar d, r)
  | "v", x :: y :: z :: r => some (.vector ⟨x, y, z⟩, r)
  | _, _ => none

/-- `h ≥ 0 ∧ h² = x² + y²` -/
def okH (d : Vec3 Q) (h : Q) : Bool := decide (0 ≤ h) && decide (h * h = d.x * d.x + d.y * d.y)
def okRho (d : Vec3 Q) (h rho : Q) : Bool := decide (0 ≤ rho) && decide (rho * rho = h * h + d.z * d.z)

def argOf (kind : String) (xs : List Q) : Option (Arg Q × List Q) :=
  match kind with
  | "vec" => (vec xs).map fun (v, r) => (.vec v, r)
  | "heading" => (ang xs).map fun (a, r) => (.heading a, r)
  | "orient" => (ori xs).map fun (m, r) => (.orient m, r)
  | "opoint" => do
    let (p, r) ← vec xs
    let (o, r) ← ori r
    let (cp, r) ← num r
    if cp = 0 then none else some (.opoint p o (yawOf o cp), r)
  | _ => none

def showRel : RelResult Q → String
  | .vec v => s!"vec {showV v}"
  | .heading a => s!"heading {showA a}"
  | .orient m => s!"orient {showM m}"
  | .opoint p o => s!"opoint {showV p} {showM o}"
  | .typeError => "typeerror"

/-- `following` through a piecewise-constant field (orientation `a` where `x < x0`, `b` elsewhere);
    also reports how close the visited points come to the discontinuity -/
def followOp (x0 : Q) (a b : Mat3 Q) (p : Vec3 Q) (dist : Q) (minSteps : Nat) (stepSize : Q) : String :=
  let n := followNumSteps minSteps dist stepSize
  let field := fun (q : Vec3 Q) => if q.x < x0 then a else b
  let step := dist / (n : Q)
  let res := following field step n p
  let pts := (List.range (n + 1)).map fun k => followSteps field step k p
  let margin := pts.foldl (fun m q => min m (if q.x < x0 then x0 - q.x else q.x - x0)) (1000000 : Q)
  s!"{n} {showRat margin} {showV res.1} {showM res.2}"

def handleSpec (op : String) (strs : List String) (xs : List Q) : Option String :=
  match op, strs with
  | "dirobj", [k, dk] => do
    let k ← dirOf k
    let (rp, r) ← vec xs; let (ro, r) ← ori r; let (rd, r) ← dims r; let (sd, r) ← dims r
    let (ct, r) ← num r; let (dist, _) ← distOf dk r
    let res := dirObject k rp ro rd sd ct dist
    let o : OPoint Q := ⟨res.1, res.2, Ang.zero, Ang.zero, Ang.zero⟩
    some s!"{showV res.1} {showM res.2} {showM o.orientation}"
  | "dirop", [k, dk] => do
    let k ← dirOf k
    let (rp, r) ← vec xs; let (ro, r) ← ori r; let (sd, r) ← dims r; let (dist, _) ← distOf dk r
    let res := dirOPoint k rp ro sd dist
    let o : OPoint Q := ⟨res.1, res.2, Ang.zero, Ang.zero, Ang.zero⟩
    some s!"{showV res.1} {showM res.2} {showM o.orientation}"
  | "dirvec", [k, dk] => do
    let k ← dirOf k
    let (p, r) ← vec xs; let (so, r) ← ori r; let (sd, r) ← dims r; let (dist, _) ← distOf dk r
    some (showV (dirVector k p so sd dist))
  | "beyond", [kind, fk] => do
    -- kind: v (vector offset) | s (scalar offset); fk: vec | op (the `from` argument is an oriented point)
    let (p, r) ← vec xs
    let (off, r) ← (if kind == "s" then (num r).map fun (d, r) => (beyondScalar d, r) else vec r)
    let (f, r) ← vec r; let (h, r) ← num r; let (rho, r) ← num r
    let fo ← (if fk == "op" then (ori r).map fun (o, _) => some o else some none)
    if okH (p.sub f) h && okRho (p.sub f) h rho then
      some s!"{showV (beyond p off f h rho)} {showM (beyondParent fo)}"
    else some "bad-witness"
  | "offsetby", [] => do
    let (p, r) ← vec xs; let (o, r) ← ori r; let (off, _) ← vec r
    let res := offsetBy p o off
    some s!"{showV res.1} {showM res.2}"
  | "offsetalong", [] => do
    let (p, r) ← vec xs; let (o, r) ← ori r; let (hd, r) ← ori r; let (off, _) ← vec r
    let res := offsetAlong p o hd off
    some s!"{showV res.1} {showM res.2}"
  | "on", [] => do
    let (p, r) ← vec xs; let (ct, r) ← num r; let (b, r) ← vec r
    match r with
    | [] => some (showV (onPosition p ct b none))
    | _ => do let (o, _) ← ori r; some (showV (onPosition p ct b (some o)))
  | "facing", [] => do
    let (p, r) ← ori xs; let (t, _) ← ori r
    let l := facingLocal p t
    some s!"{showM l} {showM (p.mul l)}"
  | "facingtoward", [name, away] => do
    -- name: the specifier function in veneer.py (row of the generated facingTable); `away` only tells the
    -- harness-side direction used to check the square-root witnesses
    let (p, r) ← ori xs; let (pos, r) ← vec r; let (t, r) ← vec r; let (h, r) ← num r; let (rho, _) ← num r
    let dir := facingDirection (away == "away") p pos t
    if !(okH dir h && okRho dir h rho) then some "bad-witness" else
    match facingByName name p pos t Ang.zero h rho with
    | none => some "no-such-specifier"
    | some (yaw, pitch) =>
      let pt := pitch.getD Ang.zero
      some s!"{showA yaw} {showA pt} {showM (p.mul (euler yaw pt Ang.zero))}"
  | "appfacing", [] => do
    let (p, r) ← ori xs; let (pos, r) ← vec r; let (f, r) ← vec r; let (hd, r) ← ang r; let (h, _) ← num r
    let d := p.transpose.mulVec (pos.sub f)
    if !(okH d h) then some "bad-witness" else
    match facingByName "ApparentlyFacing" p pos f hd h 1 with
    | some (yaw, _) => some (showA yaw)
    | none => some "no-such-specifier"
  | "side", [name] => do
    let (p, r) ← vec xs; let (o, r) ← ori r; let (d, _) ← dims r
    match sidePoint p o d name with
    | some q => some s!"{showV q.position} {showM q.orientation}"
    | none => some "no-such-side"
  | "corners", [] => do
    let (p, r) ← vec xs; let (o, r) ← ori r; let (d, _) ← dims r
    some (" ".intercalate ((corners p o d).map showV))
  | "relto", [kx, ky] => do
    let (x, r) ← argOf kx xs; let (y, _) ← argOf ky r
    some (showRel (relativeTo x y))
  | "follow", [] => do
    let (x0, r) ← num xs; let (a, r) ← ori r; let (b, r) ← ori r; let (p, r) ← vec r
    let (dist, r) ← num r; let (minSteps, r) ← num r; let (stepSize, _) ← num r
    if stepSize ≤ 0 || minSteps.den != 1 || minSteps < 1 then none else
    some (followOp x0 a b p dist minSteps.num.toNat stepSize)
  | _, _ => none

def handleOps (op : String) (strs : List String) (xs : List Q) : Option String :=
  match op, strs with
  | "distsq", [] => do
    let (a, r) ← vec xs; let (b, _) ← vec r
    some (showRat (distSq a b))
  | "azimuth", [] => do
    let (a, r) ← vec xs; let (b, r) ← vec r; let (h, _) ← num r
    if okH (b.sub a) h then some (showA (azimuthTo a b h)) else some "bad-witness"
  | "altitude", [] => do
    let (a, r) ← vec xs; let (b, r) ← vec r; let (h, r) ← num r; let (rho, _) ← num r
    if okH (b.sub a) h && okRho (b.sub a) h rho then some (showA (altitudeTo a b h rho)) else some "bad-witness"
  | "relheading", [] => do
    let (x, r) ← ang xs; let (y, _) ← ang r
    some (showA (relativeHeading x y))
  | "appheading", [] => do
    let (p, r) ← vec xs; let (hd, r) ← ang r; let (b, r) ← vec r; let (h, _) ← num r
    if okH (p.sub b) h then some (showA (apparentHeading p hd b h)) else some "bad-witness"
  | "distpast", [] => do
    let (p, r) ← vec xs; let (hd, r) ← ang r; let (v, _) ← vec r
    some (showRat (distancePast p hd v))
  | "euler", [] => do
    let (y, r) ← ang xs; let (p, r) ← ang r; let (ro, _) ← ang r
    some (showM (euler y p ro))
  | "eulerx", [] => do
    -- Euler extraction of fromEuler(y, p, r): the witness cos(pitch) is rational by construction
    let (y, r) ← ang xs; let (p, r) ← ang r; let (ro, _) ← ang r
    let m := euler y p ro
    if p.c = 0 then some "gimbal" else
    some s!"{showA (yawOf m p.c)} {showA (pitchOf m p.c)} {showA (rollOf m p.c)}"
  | "qmul", [] => do
    let (a, r) ← quat xs; let (b, _) ← quat r
    some s!"{showM (a.mul b).toMat} {showM (a.toMat.mul b.toMat)}"
  | "qinv", [] => do
    let (a, _) ← quat xs
    some (showM a.conj.toMat)
  | "orim", [] => do
    let (a, _) ← ori xs
    some (showM a)
  | "qapply", [] => do
    let (a, r) ← ori xs; let (v, _) ← vec r
    some (showV (a.mulVec v))
  | "rotatedby", [] => do
    let (v, r) ← vec xs; let (a, _) ← ang r
    some (showV (rotatedBy v a))
  | _, _ => none

/-- tokens that parse as rationals are numbers, the others are names (all names come first) -/
def handle : List String → String
  | [] => "bad-op"
  | op :: rest =>
    let strs := rest.takeWhile fun t => (parseRat t).isNone
    let numsS := rest.dropWhile fun t => (parseRat t).isNone
    match numsS.mapM parseRat with
    | none => "bad-op"
    | some xs =>
      match handleSpec op strs xs with
      | some s => s
      | none => (handleOps op strs xs).getD "bad-op"

end Driver.C07

def main : IO Unit := Driver.runLoop Driver.C07.handle
