import Driver.Util
/-! line protocol for the C07 model (stub: replaced when the property's model is built) -/
namespace Driver.C07
open Driver

def handle : List String → String
  | _ => "bad-op"

end Driver.C07

def main : IO Unit := Driver.runLoop Driver.C07.handle
