import Driver.Util
/-! line protocol for the C20 model (stub: replaced when the property's model is built) -/
namespace Driver.C20
open Driver

def handle : List String → String
  | _ => "bad-op"

end Driver.C20

def main : IO Unit := Driver.runLoop Driver.C20.handle
