import ScenicModel.Model.Roads
import ScenicModel.Model.RoadLookup
import ScenicModel.Model.RoadCache
import ScenicModel.Model.RoadDirection
import ScenicModel.Model.RoadAdjacency
import ScenicModel.Gen.Roads
import Driver.Util
/-!
line protocol for the C20 model (road-network link tables, point lookups, cache header logic);
lookup table, passes and cache constants are the ones regenerated from /repo (`Gen/Roads.lean`).

network encoding: one token per element, `<kind><F|B>[;<field>=<i>,<i>,…]…`, element 0 is the network.
-/
namespace Driver.C20
open Driver Scenic.Roads Scenic.RoadCache

def parseKind : String → Option Kind
  | "net" => some .network | "road" => some .road | "grp" => some .laneGroup | "lane" => some .lane
  | "rsec" => some .roadSection | "lsec" => some .laneSection | "int" => some .intersection
  | "sw" => some .sidewalk | "sh" => some .shoulder | "cross" => some .crossing
  | "man" => some .maneuver | _ => none

def parseField : String → Option Field
  | "road" => some .road | "group" => some .group | "lane" => some .lane | "succ" => some .succ
  | "pred" => some .pred | "opposite" => some .opposite | "forward" => some .forward
  | "backward" => some .backward | "sidewalk" => some .sidewalk | "shoulder" => some .shoulder
  | "left" => some .left | "right" => some .right | "faster" => some .faster
  | "slower" => some .slower | "lanes" => some .lanes | "sections" => some .sections
  | "groups" => some .groups | "adjacent" => some .adjacent | "maneuvers" => some .maneuvers
  | "roads" => some .roads | "connecting" => some .connecting | "incoming" => some .incoming
  | "outgoing" => some .outgoing | "intersections" => some .intersections
  | "sidewalks" => some .sidewalks | "shoulders" => some .shoulders
  | "laneSections" => some .laneSections | "start" => some .start | "conn" => some .conn
  | "endLane" => some .endLane | "inter" => some .inter | "via" => some .via
  | "direct" => some .direct | _ => none

def parseNats (s : String) : Option (List Nat) :=
  if s == "" || s == "-" then some [] else (s.splitOn ",").mapM String.toNat?

def parseFieldVal (s : String) : Option (Field × List Nat) :=
  match s.splitOn "=" with
  | [f, v] => do
    let f ← parseField f; let v ← parseNats v; pure (f, v)
  | _ => none

def parseElem (tok : String) : Option Elem :=
  match tok.splitOn ";" with
  | [] => none
  | hd :: fs => do
    let n := hd.length
    if n < 2 then none else
    let k ← parseKind (hd.take (n - 1)).toString
    let d := (hd.drop (n - 1)).toString
    if d != "F" && d != "B" then none else
    let fields ← fs.mapM parseFieldVal
    pure { kind := k, isForward := d == "F", fields := fields }

def parseNet (toks : List String) : Option Network := do
  let es ← toks.mapM parseElem
  pure { elems := es.toArray }

def showNats (l : List Nat) : String := ",".intercalate (l.map toString)

/-- `ok <#rules>` or `fail <rule index>@<first failing elements> …` -/
def linksReport (n : Network) : String :=
  let bad := (rules.zipIdx).filterMap fun (r, k) =>
    if r.check n then none else some s!"{k}@{showNats ((r.failures n).take 3)}"
  if linksReciprocal n && bad.isEmpty then s!"ok {rules.length}"
  else "fail " ++ " ".intercalate bad

def parsePoint (tok : String) : Option PointFacts :=
  match tok.splitOn "/" with
  | [e, m] => do
    let e ← parseNats e; let m ← parseNats m; pure { exact := e, near := m }
  | _ => none

def showOptNat : Option Nat → String
  | none => "-"
  | some i => toString i

def queryPoint (n : Network) (tolPos : Bool) (pf : PointFacts) : String :=
  ",".intercalate (Scenic.Gen.Roads.lookups.map fun (_, d) =>
    showOptNat (lookupWith Scenic.Gen.Roads.passes n tolPos pf d))

def splitAtTok (t : String) : List String → List String × List String
  | [] => ([], [])
  | x :: xs => if x == t then ([], xs) else
    let (a, b) := splitAtTok t xs
    (x :: a, b)

def parseErr : Err → String
  | .unpickling => "unpickling" | .digestMismatch => "mismatch" | .fileNotFound => "notfound"
  | .valueError => "valueerror" | .other => "other"

def showSrc : Src → String
  | .elem e => s!"e{e}"
  | .closestOf i => s!"c{i}"

/-- network-level lookups | element-level lookups (owner taken from the network-level result of the same
model) | source of roadDirection | sources of nominalDirectionsAt -/
def queryPoint2 (n : Network) (tolPos : Bool) (pf : PointFacts) : String :=
  let passes := Scenic.Gen.Roads.passes
  let look (name : String) : Option Nat :=
    match Scenic.Gen.Roads.lookups.lookup name with
    | some d => lookupWith passes n tolPos pf d
    | none => none
  let road := look "roadAt"
  let roadSec : Option Nat := match road with
    | some r => findPointInWith passes tolPos pf (n.field .sections r)
    | none => none
  let ownerOf : Kind → Option Nat
    | .road => road
    | .laneGroup => look "laneGroupAt"
    | .lane => look "laneAt"
    | .roadSection => roadSec
    | _ => none
  let elems := Scenic.Gen.Roads.elemLookups.map fun (_, d) =>
    match ownerOf d.owner with
    | some o => showOptNat (elemLookupWith passes n tolPos pf d o)
    | none => "-"
  let (rd, nd) := match Scenic.Gen.Roads.lookups.lookup "nominalDirElem" with
    | some d => (match roadDirSource passes n tolPos pf d with | some s => showSrc s | none => "-",
                 ";".intercalate ((nominalSources passes n tolPos pf d).map showSrc))
    | none => ("?", "?")
  queryPoint n tolPos pf ++ "|" ++ ",".intercalate elems ++ "|" ++ rd ++ "|" ++ (if nd == "" then "-" else nd)

def parseInts (s : String) : Option (List Int) :=
  if s == "" || s == "-" then some [] else (s.splitOn ",").mapM String.toInt?

def showOptInt : Option Int → String
  | none => "-"
  | some i => toString i

def parseExt : String → Option Ext
  | "none" => some .none | "map" => some .map | "pickled" => some .pickled | "unknown" => some .unknown
  | _ => none

def parseOptBytes (s : String) : Option (Option Bytes) :=
  if s == "none" then some none else if s == "empty" then some (some []) else (fromHex s).map some

def unpickleFlag (s : String) : Bytes → Option Unit := fun _ => if s == "ok" then some () else none

def parseKV (tok : String) : Option (Bytes × Option Bytes) :=
  match tok.splitOn "=" with
  | [k, v] => do
    let k ← fromHex k
    let v ← if v == "none" then some none else (fromHex v).map some
    pure (k, v)
  | _ => none

def handle : List String → String
  | "links" :: toks =>
    match parseNet toks with
    | some n => linksReport n
    | none => "bad-net"
  | "rules" :: _ => toString rules.length
  | "lookups" :: _ => " ".intercalate (Scenic.Gen.Roads.lookups.map (·.1))
  | "query" :: tp :: rest =>
    let (toks, pts) := splitAtTok "Q" rest
    match parseNet toks, pts.mapM parsePoint with
    | some n, some ps => " ".intercalate (ps.map (queryPoint n (tp == "1")))
    | _, _ => "bad-query"
  | "query2" :: tp :: rest =>
    let (toks, pts) := splitAtTok "Q" rest
    match parseNet toks, pts.mapM parsePoint with
    | some n, some ps => " ".intercalate (ps.map (queryPoint2 n (tp == "1")))
    | _, _ => "bad-query"
  | "elemlookups" :: _ => " ".intercalate (Scenic.Gen.Roads.elemLookups.map (·.1))
  | ["adj", dr, ids] =>
    match parseInts ids with
    | some l =>
      " ".intercalate (l.map fun id =>
        let a := Scenic.RoadAdj.adjOf Scenic.Gen.Roads.adjCfg (dr == "1") l id
        s!"{id}:{showOptInt a.left}/{showOptInt a.right}/{showOptInt a.faster}/{showOptInt a.slower}/" ++
          (if a.adjacent.isEmpty then "-" else ".".intercalate (a.adjacent.map toString)))
    | none => "bad-adj"
  | ["order", ids] =>
    match parseInts ids with
    | some l =>
      let (f, b) := Scenic.RoadAdj.sectionOrder l
      let sh (x : List Int) := if x.isEmpty then "-" else ",".intercalate (x.map toString)
      sh f ++ "|" ++ sh b
    | none => "bad-order"
  | ["frompath", ext, useCache, mapd, cache, payload, optd] =>
    match parseExt ext, (if mapd == "none" then some none else (fromHex mapd).map some),
      (if cache == "none" then some none else if cache == "-" then some (some []) else (fromHex cache).map some), fromHex optd with
    | some e, some m, some c, some o =>
      match fromFilePath Scenic.Gen.Roads.cacheCfg Scenic.Gen.Roads.pathCfg .fileNotFound (unpickleFlag payload) ()
          (useCache == "1") e m c o with
      | .cached _ => "cached"
      | .parsed _ => "parsed"
      | .raised e => "raised:" ++ parseErr e
    | _, _, _, _ => "bad-frompath"
  | ["find", tp, elems, exact, near] =>
    match parseNats elems, parseNats exact, parseNats near with
    | some es, some ex, some nr =>
      showOptNat (findPointInWith Scenic.Gen.Roads.passes (tp == "1") { exact := ex, near := nr } es)
    | _, _, _ => "bad-find"
  | ["frompickle", file, payload, orig, opts] =>
    match fromHex file, parseOptBytes orig, parseOptBytes opts with
    | some f, some o, some p =>
      match fromPickle Scenic.Gen.Roads.cacheCfg (unpickleFlag payload) f o p with
      | .ok _ => "ok"
      | .err e => parseErr e
    | _, _, _ => "bad-frompickle"
  | ["fromfile", useCache, cache, payload, digest, optd] =>
    match (if cache == "none" then some none else (fromHex cache).map some), fromHex digest, fromHex optd with
    | some c, some d, some o =>
      match fromFile Scenic.Gen.Roads.cacheCfg (unpickleFlag payload) () (useCache == "1") c d o with
      | .cached _ => "cached"
      | .parsed _ => "parsed"
      | .raised e => "raised:" ++ parseErr e
    | _, _, _ => "bad-fromfile"
  | ["header", digest, optd] =>
    match fromHex digest, fromHex optd with
    | some d, some o => toHex (header Scenic.Gen.Roads.cacheCfg d o)
    | _, _ => "bad-header"
  | "opthash" :: kvs =>
    match kvs.mapM parseKV with
    | some l => toHex (optionsPreimage Scenic.Gen.Roads.hashCfg l)
    | none => "bad-opthash"
  | _ => "bad-op"

end Driver.C20

def main : IO Unit := Driver.runLoop Driver.C20.handle
