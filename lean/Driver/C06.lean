import ScenicModel.Gen.SpecTable
import ScenicModel.Model.SpecEval
import Driver.Util
/-! line protocol for the specifier-resolution model (C06); built-in specifiers are instantiated
from the table regenerated from /repo (`Gen/SpecTable.lean`).

Tokens never contain spaces; inside a token the separators are `|` `;` `,` `=` `:` (names are
sanitised by the harness).  `-` is the empty list.

* `resolve <3|2[F]> <class> <spec>*`
    class = `<defaults>|<finals>`, defaults = `p:d1,d2;q:`, finals = `f1,f2`
    spec  = `name|p=1,q=3|d1,d2|M or N|m1,m2`   (a raw descriptor)
          | `@key|prop|extra1,extra2`            (an instance of the generated table)
    mode 2 applies `prepare2D` first (`2F`: the value of `with heading` is a vector field)
    class may carry a third part `|s1,s2`: the properties whose final value needs sampling
    -> `ok <assign> <modifier> <trace> <final> <constProps>` | `err <kind>`
       constProps = the model's `constProps` (defaulted properties that are not sampled)
* `override <class> <dyn> <props> <spec>*`  (`Constructible._override`; only the finals of class are used)
    -> `ok <final> <untouched>` | `refused dynamic|noprop` | `err <kind>`
       final = the context after the evaluation loop (property=producer of its value), or
       `evalerr:depNotFinal:<node>:<prop>` / `evalerr:assertFail:<node>:<prop>`
* `entry <key>` -> the table entry as a raw descriptor
* `merge <classdecl>*`, classdecl = `name|p:d1,d2:adf;q::` -> `ok <defaults> <finals> <dynamics>` | `err`
* `transform2d p1,p2,...` -> `ok p1,...` | `err`
-/
namespace Driver.C06
open Driver Scenic.Spec

def splitL (sep : String) (s : String) : List String :=
  if s == "-" || s == "" then [] else s.splitOn sep

def joinL (sep : String) (l : List String) : String :=
  if l.isEmpty then "-" else sep.intercalate l

def parsePrios (s : String) : Option (List (String × Nat)) :=
  (splitL "," s).mapM fun e => match e.splitOn "=" with
    | [p, k] => k.toNat?.map fun k => (p, k)
    | _ => none

def parseSpec (tok : String) : Option Spec :=
  if tok.startsWith "@" then
    match (tok.drop 1).toString.splitOn "|" with
    | [key, prop, extra] =>
      (Scenic.Gen.specTable.find? (fun e => e.key = key)).map fun e => e.inst prop (splitL "," extra)
    | _ => none
  else
    match tok.splitOn "|" with
    | [name, pr, deps, m, mods] => do
      let pr ← parsePrios pr
      pure ⟨name, pr, splitL "," deps, m == "M", splitL "," mods⟩
    | _ => none

def parseClassCore (defs finals : String) : Option ClassInfo := do
  let ds ← (splitL ";" defs).mapM fun e => match e.splitOn ":" with
    | [p, d] => some (p, splitL "," d)
    | _ => none
  pure ⟨ds, splitL "," finals⟩

/-- `defaults|finals` or `defaults|finals|sampled` (the properties whose final value needs sampling) -/
def parseClass (tok : String) : Option (ClassInfo × List String) :=
  match tok.splitOn "|" with
  | [defs, finals] => (parseClassCore defs finals).map fun c => (c, [])
  | [defs, finals, sampled] => (parseClassCore defs finals).map fun c => (c, splitL "," sampled)
  | _ => none

def showNode : Node → String
  | .user n => "u:" ++ n.replace " " "+"
  | .dflt p => "d:" ++ p

def showErr : Err → String
  | .dupName => "dupName" | .finalProp => "finalProp" | .tie => "tie"
  | .modifiedTwice => "modifiedTwice" | .cycle => "cycle" | .missingDep => "missingDep" | .fuel => "fuel"

def showMap (m : List (String × Node)) : String :=
  joinL "," (m.map fun e => e.1 ++ "=" ++ showNode e.2)

def showOutcome (o : Outcome) : String :=
  "ok " ++ showMap o.assign ++ " " ++ showMap o.modifier ++ " " ++
    joinL ";" ((trace o).map fun e => showNode e.1 ++ "[" ++ ",".intercalate e.2 ++ "]")

def showEval : Except EvalErr Ctx → String
  | .ok ctx => showMap ctx
  | .error (.depNotFinal n d) => "evalerr:depNotFinal:" ++ showNode n ++ ":" ++ d
  | .error (.assertFail n p) => "evalerr:assertFail:" ++ showNode n ++ ":" ++ p

def showSpec (s : Spec) : String :=
  "|".intercalate [s.name.replace " " "+", joinL "," (s.prios.map fun e => e.1 ++ "=" ++ toString e.2), joinL "," s.deps,
    (if s.modifying then "M" else "N"), joinL "," s.modifiable]

/-- the `Facing` specifier that `_prepareSpecifiers` builds from `with heading X` -/
def facingFor (field : Bool) (s : Spec) : Spec :=
  match Scenic.Gen.specTable.find? (fun e => e.key = (if field then "Facing/field" else "Facing/value")) with
  | some e => e.inst "" (if e.valueDeps then s.deps else [])
  | none => s

def parseDecl (tok : String) : Option ClassDecl :=
  match tok.splitOn "|" with
  | [name, props] => do
    let ps ← (splitL ";" props).mapM fun e => match e.splitOn ":" with
      | [p, d, fl] => some (p, (⟨splitL "," d, fl.contains 'a', fl.contains 'd', fl.contains 'f'⟩ : PropDefault))
      | _ => none
    pure ⟨name, ps⟩
  | _ => none

def handle : List String → String
  | "resolve" :: mode :: cls :: specs =>
    match parseClass cls, specs.mapM parseSpec with
    | some (C, sampled), some S =>
      let S := if mode.startsWith "2" then prepare2D (facingFor (mode == "2F")) S else S
      match resolve C S with
      | .ok o => showOutcome o ++ " " ++ showEval (evaluate C S o) ++ " " ++
          joinL "," (constProps (fun p => sampled.contains p) o)
      | .error e => "err " ++ showErr e
    | _, _ => "bad-op"
  | "override" :: cls :: dyn :: props :: specs =>
    match parseClass cls, specs.mapM parseSpec with
    | some (C, _), some S =>
      match override C (splitL "," dyn) (splitL "," props) S with
      | .refused .dynamicProp => "refused dynamic"
      | .refused .noSuchProp => "refused noprop"
      | .resolveErr e => "err " ++ showErr e
      | .ok o => "ok " ++ showEval (evaluate (overrideClass C (splitL "," props)) S o) ++ " " ++ joinL "," (defaulted o)
    | _, _ => "bad-op"
  | ["entry", key] =>
    match Scenic.Gen.specTable.find? (fun e => e.key = key) with
    | some e => showSpec e.spec ++ " " ++ (if e.valueDeps then "V" else "-")
    | none => "none"
  | "merge" :: decls =>
    match decls.mapM parseDecl with
    | some mro =>
      match mergeDefaults mro with
      | some m => "ok " ++ joinL ";" (m.defaults.map fun e => e.1 ++ ":" ++ joinL "," e.2.deps ++ ":" ++ joinL "," e.2.sources)
          ++ " " ++ joinL "," m.finals ++ " " ++ joinL "," m.dynamics
      | none => "err"
    | none => "bad-op"
  | ["transform2d", props] =>
    match transform2D ((splitL "," props).map fun p => (p, p)) with
    | some r => "ok " ++ joinL "," (r.map fun e => e.1 ++ "<" ++ e.2)
    | none => "err"
  | _ => "bad-op"

end Driver.C06

def main : IO Unit := Driver.runLoop Driver.C06.handle
