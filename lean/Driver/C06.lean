import Driver.Util
/-! line protocol for the C06 model (stub: replaced when the property's model is built) -/
namespace Driver.C06
open Driver

def handle : List String → String
  | _ => "bad-op"

end Driver.C06

def main : IO Unit := Driver.runLoop Driver.C06.handle
