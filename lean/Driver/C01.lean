import ScenicModel.Model.SamplerSpec
import ScenicModel.Model.SamplerOptions
import ScenicModel.Gen.SamplerCfg
import ScenicModel.Gen.SamplerOptCfg
import Driver.Util
/-! line protocol for the sampler model (C01); the configuration is the one regenerated from /repo.

`gen <n> <program>`      exact PMF of `generate` with `maxIterations = n`, as `key#num/den` entries sorted by key;
                         keys are `<active bits>|<iterations>|<scene>` and `<active bits>|rej`
`spec <n> <program>`     the same PMF computed from the *declarative* semantics `specGenerate` (Model/SamplerSpec.lean)
`hyp <program>`          `ok` when the hypotheses of `Scenic.C01.scene_generation_eq_declarative_semantics` hold for the
                         program (acyclic, proper weights, roots in range), else which one fails
`order <program>`        the DFS post-order in which `sampleAll` draws
`paths <program>`        number of weighted outcomes of one `sampleAll`
`optbuild <k> (id w)*`   `Options.__init__` on a dict of `k` items (option node id, weight `num/den` or `X` = not a
                         constant number), with the regenerated `Scenic.Gen.optCfg`: `typeError` | `negative` | `empty` |
                         `ok <m> id* | w* | clone=<same|differs> | deps id*`  (kept options, kept weights, whether
                         `Options.clone` rebuilds the same, the multiplexer's dependencies after the selector)

Program syntax (prefix tokens, written by tools/props/c01.py `Term.line`):
  <#nodes> node* OUT <k> (label id)* REQ <k> (prob rexpr)* DEF <k> rexpr*
  node  = C val | R lo hi | S n | D len | W k w* | M idx k id* | U sel k arg* | O name k arg*     arg = s<id> | p<id>
  val   = n<num>/<den> | bT | bF | s<hex> | t<k> val* | l<k> val* | N
  rexpr = r<id> | c val | o name k rexpr*
-/
namespace Driver.C01
open Driver Scenic.Sampler

def cfg : Cfg := Scenic.Gen.samplerCfg

abbrev Parser (α : Type) := List String → Option (α × List String)

def pNat : Parser Nat
  | t :: rest => t.toNat?.map (·, rest)
  | [] => none

def pTok : Parser String
  | t :: rest => some (t, rest)
  | [] => none

def pMany {α : Type} (p : Parser α) : Nat → Parser (List α)
  | 0, ts => some ([], ts)
  | k + 1, ts => do
    let (a, ts) ← p ts
    let (as, ts) ← pMany p k ts
    pure (a :: as, ts)

def hexToString (h : String) : Option String :=
  if h == "-" then some "" else
  (fromHex h).bind fun bs => String.fromUTF8? (ByteArray.mk (bs.map (·.toUInt8)).toArray)

partial def pVal : Parser Val
  | [] => none
  | t :: rest =>
    let body := (t.drop 1).toString
    match t.front with
    | 'n' => (parseRat body).map fun q => (Val.num q, rest)
    | 'b' => some (Val.bool (body == "T"), rest)
    | 's' => (hexToString body).map fun s => (Val.str s, rest)
    | 't' => do
      let k ← body.toNat?
      let (vs, rest) ← pMany pVal k rest
      pure (Val.tup vs, rest)
    | 'l' => do
      let k ← body.toNat?
      let (vs, rest) ← pMany pVal k rest
      pure (Val.lst vs, rest)
    | 'N' => some (Val.none, rest)
    | _ => none

def pArg : Parser (Bool × Nat)
  | t :: rest => ((t.drop 1).toString.toNat?).map fun i => ((t.front == 's', i), rest)
  | [] => none

def pRat : Parser Rat
  | t :: rest => (parseRat t).map (·, rest)
  | [] => none

def pNode : Parser Node
  | [] => none
  | t :: rest =>
    match t with
    | "C" => (pVal rest).map fun (v, r) => (Node.const v, r)
    | "R" => do
      let (lo, r) ← pNat rest
      let (hi, r) ← pNat r
      pure (Node.drange lo hi, r)
    | "S" => (pNat rest).map fun (n, r) => (Node.selector n, r)
    | "D" => (pNat rest).map fun (n, r) => (Node.dynSelector n, r)
    | "W" => do
      let (k, r) ← pNat rest
      let (ws, r) ← pMany pRat k r
      pure (Node.windex ws, r)
    | "M" => do
      let (idx, r) ← pNat rest
      let (k, r) ← pNat r
      let (os, r) ← pMany pNat k r
      pure (Node.mux idx os, r)
    | "U" => do
      let (sel, r) ← pNat rest
      let (k, r) ← pNat r
      let (os, r) ← pMany pArg k r
      pure (Node.ustar sel os, r)
    | "O" => do
      let (f, r) ← pTok rest
      let (k, r) ← pNat r
      let (as, r) ← pMany pArg k r
      pure (Node.op f as, r)
    | _ => none

partial def pRExpr : Parser RExpr
  | [] => none
  | t :: rest =>
    if t == "c" then (pVal rest).map fun (v, r) => (RExpr.const v, r)
    else if t == "o" then do
      let (f, r) ← pTok rest
      let (k, r) ← pNat r
      let (as, r) ← pMany pRExpr k r
      pure (RExpr.op f as, r)
    else if t.front == 'r' then ((t.drop 1).toString.toNat?).map fun i => (RExpr.ref i, rest)
    else none

structure Program where
  prog : Prog
  outs : List (String × Nat)
  reqs : List (Rat × RExpr)
  defaults : List RExpr

def expect (s : String) : Parser Unit
  | t :: rest => if t == s then some ((), rest) else none
  | [] => none

def pProgram : Parser Program := fun ts => do
  let (n, ts) ← pNat ts
  let (nodes, ts) ← pMany pNode n ts
  let (_, ts) ← expect "OUT" ts
  let (k, ts) ← pNat ts
  let (outs, ts) ← pMany (fun ts => do
    let (l, ts) ← pTok ts
    let (i, ts) ← pNat ts
    pure ((l, i), ts)) k ts
  let (_, ts) ← expect "REQ" ts
  let (k, ts) ← pNat ts
  let (reqs, ts) ← pMany (fun ts => do
    let (p, ts) ← pRat ts
    let (e, ts) ← pRExpr ts
    pure ((p, e), ts)) k ts
  let (_, ts) ← expect "DEF" ts
  let (k, ts) ← pNat ts
  let (defs, ts) ← pMany pRExpr k ts
  pure ({ prog := ⟨nodes⟩, outs := outs, reqs := reqs, defaults := defs }, ts)

mutual
partial def refs : RExpr → List Nat
  | .ref i => [i]
  | .const _ => []
  | .op _ as => refsList as
partial def refsList : List RExpr → List Nat
  | [] => []
  | e :: es => refs e ++ refsList es
end

/-- `Scenario.dependencies`: objects and parameters, then what the requirements refer to -/
def Program.roots (p : Program) : List Nat :=
  p.outs.map (·.2) ++ refsList (p.reqs.map (·.2)) ++ refsList p.defaults

def sceneOf (outs : List (String × Nat)) (env : Env) : String :=
  ";".intercalate (outs.map fun (l, i) => l ++ "=" ++ (env.get i).canon)

def bits (bs : List Bool) : String := String.ofList (bs.map fun b => if b then '1' else '0')

/-- merge equal keys, drop zero weights, sort by key -/
def normalise (d : List (String × Rat)) : List (String × Rat) :=
  let sorted := d.mergeSort (fun a b => a.1 ≤ b.1)
  let merged := sorted.foldr (fun x acc =>
    match acc with
    | y :: ys => if x.1 == y.1 then (x.1, x.2 + y.2) :: ys else x :: acc
    | [] => [x]) []
  merged.filter fun x => x.2 != 0

def render (d : List (String × Rat)) : String :=
  " ".intercalate ((normalise d).map fun (k, w) => k ++ "#" ++ showRat w)

def runGen (n : Nat) (p : Program) : String :=
  let d := generate cfg p.prog p.roots (p.reqs.map fun (q, e) => (q, e.holds)) (p.defaults.map (·.holds))
    (sceneOf p.outs) n
  render (List.map (fun (x : (List Bool × Option (String × Nat)) × Rat) =>
    match x.1.2 with
    | some (s, k) => (bits x.1.1 ++ "|" ++ toString k ++ "|" ++ s, x.2)
    | none => (bits x.1.1 ++ "|rej", x.2)) d)

def renderGen (d : Dist (List Bool × Option (String × Nat))) : String :=
  render (List.map (fun (x : (List Bool × Option (String × Nat)) × Rat) =>
    match x.1.2 with
    | some (s, k) => (bits x.1.1 ++ "|" ++ toString k ++ "|" ++ s, x.2)
    | none => (bits x.1.1 ++ "|rej", x.2)) d)

def runSpec (n : Nat) (p : Program) : String :=
  renderGen (specGenerate cfg p.prog p.roots (p.reqs.map fun (q, e) => (q, e.holds)) (p.defaults.map (·.holds))
    (sceneOf p.outs) n)

def runHyp (p : Program) : String :=
  if !p.prog.wfB then "not-acyclic"
  else if !p.prog.normalizedB then "improper-weights"
  else if !(p.roots.all fun j => decide (j < p.prog.nodes.length)) then "root-out-of-range"
  else "ok"

def pItem : Parser (Nat × Option Rat)
  | i :: w :: rest =>
    match i.toNat? with
    | some i => if w == "X" then some ((i, none), rest) else (parseRat w).map fun q => ((i, some q), rest)
    | none => none
  | _ => none

def runOptBuild (items : List (Nat × Option Rat)) : String :=
  match optBuild Scenic.Gen.optCfg items with
  | .typeError => "typeError"
  | .negative => "negative"
  | .empty => "empty"
  | .ok os ws =>
    let same := optClone Scenic.Gen.optCfg os ws == Built.ok os ws
    let deps := ((optNodes 0 os ws).2.deps).drop 1
    "ok " ++ toString os.length ++ " " ++ " ".intercalate (os.map toString) ++ " | "
      ++ " ".intercalate (ws.map showRat) ++ " | clone=" ++ (if same then "same" else "differs")
      ++ " | deps " ++ " ".intercalate (deps.map toString)

def handle : List String → String
  | "optbuild" :: k :: rest =>
    match k.toNat? with
    | some k =>
      match pMany pItem k rest with
      | some (items, []) => runOptBuild items
      | _ => "bad-items"
    | none => "bad-items"
  | "gen" :: n :: rest =>
    match n.toNat?, pProgram rest with
    | some n, some (p, []) => runGen n p
    | _, _ => "bad-program"
  | "spec" :: n :: rest =>
    match n.toNat?, pProgram rest with
    | some n, some (p, []) => runSpec n p
    | _, _ => "bad-program"
  | "hyp" :: rest =>
    match pProgram rest with
    | some (p, []) => runHyp p
    | _ => "bad-program"
  | "order" :: rest =>
    match pProgram rest with
    | some (p, []) => " ".intercalate ((postorder p.prog p.roots).map toString)
    | _ => "bad-program"
  | "paths" :: rest =>
    match pProgram rest with
    | some (p, []) => toString (sampleAll cfg p.prog p.roots).length
    | _ => "bad-program"
  | _ => "bad-op"

end Driver.C01

def main : IO Unit := Driver.runLoop Driver.C01.handle
