import Driver.Util
/-! line protocol for the C01 model (stub: replaced when the property's model is built) -/
namespace Driver.C01
open Driver

def handle : List String → String
  | _ => "bad-op"

end Driver.C01

def main : IO Unit := Driver.runLoop Driver.C01.handle
