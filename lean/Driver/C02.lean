import ScenicModel.Gen.CheckerCfg
import ScenicModel.Gen.DefaultReqsCfg
import ScenicModel.Model.SceneReqs
import ScenicModel.Model.BoxOracle
import Driver.Util
/-! line protocol for the C02 models: default requirements, the two sample checkers (run on whole traces),
the `falsifiedByInner` polarities, and the exact-geometry oracle.  The configurations are the ones
regenerated from /repo. -/
namespace Driver.C02
open Driver Scenic.Checker Scenic.DefaultReqs Scenic.SceneReqs Scenic.Oracle

def CC := Scenic.Gen.checkerCfg
def DC := Scenic.Gen.defaultReqsCfg

def commaNats (s : String) : Option (List Nat) :=
  if s == "-" then some [] else (s.splitOn ",").mapM String.toNat?

def showNats (l : List Nat) : String :=
  if l.isEmpty then "-" else ",".intercalate (l.map toString)

def tri? : String → Option (Option Bool)
  | "n" => some none
  | "t" => some (some true)
  | "f" => some (some false)
  | _ => none

def optNat? (s : String) : Option (Option Nat) :=
  if s == "-" then some none else s.toNat?.map some

def bit? : String → Option Bool
  | "1" => some true
  | "0" => some false
  | _ => none

def bits (s : String) : List Bool := if s == "-" then [] else s.toList.map (· == '1')

def parseInst (s : String) : Option Inst :=
  match s.splitOn ":" with
  | [o, a, c, oc, r, ob, nob] => do
    let o ← bit? o; let a ← tri? a; let c ← bit? c; let oc ← tri? oc; let r ← bit? r
    let ob ← optNat? ob; let nob ← optNat? nob
    pure ⟨o, a, c, oc, r, ob, nob⟩
  | _ => none

def showKind (k : ReqKind) : String :=
  let body := match k with
    | .blanket objs => s!"B:{showNats objs}"
    | .intersection a b => s!"I:{a}:{b}"
    | .containment o => s!"C:{o}"
    | .visibility s t occ => s!"V:{s}:{t}:{showNats occ}"
    | .nonVisibility s t occ => s!"N:{s}:{t}:{showNats occ}"
    | .user u => s!"U:{u}"
  body ++ (if k.optional DC then "/1" else "/0")

/-! ### checker traces -/

def splitBar (ws : List String) : List (List String) :=
  let rec go : List String → List String → List (List String)
    | [], cur => [cur.reverse]
    | "|" :: rest, cur => cur.reverse :: go rest []
    | w :: rest, cur => go rest (w :: cur)
  go ws []

def rats (s : String) : Option (List Rat) :=
  if s == "-" then some [] else (s.splitOn ",").mapM parseRat

def parseCost (s : String) : Option Cost :=
  match s.splitOn ":" with
  | [a, b] => do
    let b ← parseRat b
    if a == "inf" then pure (none, b) else do
      let a ← parseRat a
      pure (some a, b)
  | _ => none

/-- the ids whose `falsifiedBy` was *called*, in order (the one that raised included), and the verdict -/
def showOutcome (ev : List (Nat × Bool)) (o : Outcome) : String :=
  let called := ev.map (·.1) ++ (match o with | .rejectExc id => [id] | _ => [])
  showNats called ++ "=" ++ match o with
    | .accept => "A"
    | .reject id => s!"R{id}"
    | .rejectExc id => s!"E{id}"
    | .crash => "X"

/-- per requirement id: `0` returns False, `1` returns True, `x` raises RejectionException -/
def falsFn (s : String) : Nat → Option Bool :=
  let cs := if s == "-" then [] else s.toList
  fun i => match cs.getD i '0' with
    | 'x' => none
    | '1' => some true
    | _ => some false

def mkReqs (opt act : List Bool) : List Req :=
  (List.range opt.length).map fun i => ⟨i, opt.getD i false, act.getD i false⟩

def lookup (l : List Bool) (i : Nat) : Bool := l.getD i false

def wrun (B : Nat) (given : Bool) (opt : List Bool) : State → List (List String) → List String → Option (List String × State)
  | st, [], acc => some (acc.reverse, st)
  | st, call :: rest, acc =>
    match call with
    | act :: fals :: ts :: more => do
      let ts ← rats ts
      let reqs := mkReqs opt (bits act)
      let f := falsFn fals
      let key ← if given then
          match more with
          | [cs] => do
            let cs ← (cs.splitOn ",").mapM parseCost
            pure (fun (r : Req) => cs.getD r.id (none, 0))
          | _ => none
        else pure (st.key B)
      let (ev, out) := weightedDecide CC key reqs f
      let st' := applyMetrics CC st ev ts
      wrun B given opt st' rest (showOutcome ev out :: acc)
    | _ => none

def showState (st : State) : String :=
  " ".intercalate (st.map fun s => s!"{s.sumAcc}:{showRat s.sumTime}")

def brun (reqs0 : List Req → List Req) (opt : List Bool) : List (List String) → List String → Option (List String)
  | [], acc => some acc.reverse
  | call :: rest, acc =>
    match call with
    | [act, fals] =>
      let reqs := reqs0 (mkReqs opt (bits act))
      let (ev, out) := basicLoop CC (falsFn fals) reqs
      brun reqs0 opt rest (showOutcome ev out :: acc)
    | _ => none

/-! ### geometry -/

def ints (s : String) (sep : String) : Option (List Int) := (s.splitOn sep).mapM String.toInt?

def parseV3 (s : String) : Option V3 := do
  match ← ints s "," with
  | [x, y, z] => pure (x, y, z)
  | _ => none

def parsePts (s : String) : Option (List V3) :=
  if s == "-" then some [] else (s.splitOn ";").mapM parseV3

def parseMesh (s : String) : Option Mesh :=
  match s.splitOn "#" with
  | [vs, fs] => do
    let vs ← parsePts vs
    let fs ← (fs.splitOn ";").mapM fun f => do
      match ← commaNats f with
      | [i, j, k] => pure (i, j, k)
      | _ => none
    pure ⟨vs, fs⟩
  | _ => none

def parseRing (s : String) : Option (List (Int × Int)) :=
  (s.splitOn ";").mapM fun p => do
    match ← ints p "," with
    | [x, y] => pure (x, y)
    | _ => none

def handle : List String → String
  | "defaults" :: ego :: objs :: insts => (do
      let ego ← optNat? ego
      let objs ← commaNats objs
      let insts ← insts.mapM parseInst
      pure (match generate DC insts objs ego with
        | none => "err"
        | some ks => if ks.isEmpty then "ok" else "ok " ++ " ".intercalate (ks.map showKind))).getD "bad-op"
  | "wrun" :: b :: mode :: opt :: "|" :: calls => (do
      let B ← b.toNat?
      let opt := bits opt
      let (outs, st) ← wrun B (mode == "g") opt (State.init B opt.length) (splitBar calls) []
      pure (" ".intercalate outs ++ " | " ++ showState st)).getD "bad-op"
  | "basic" :: icc :: opt :: blanket :: inter :: "|" :: calls => (do
      let icc ← bit? icc
      let opt := bits opt
      let sel := basicSelect CC icc (lookup (bits blanket)) (lookup (bits inter))
      let chosen : List Req := sel (mkReqs opt (opt.map fun _ => true))
      let outs ← brun sel opt (splitBar calls) []
      pure (s!"sel:{showNats (chosen.map Req.id)} " ++ " ".intercalate outs)).getD "bad-op"
  | ["fals", "I", a, b, x] => (do
      let a ← bit? a; let b ← bit? b; let x ← bit? x
      let w : World := ⟨fun i => if i == 0 then a else b, fun _ => true, fun _ _ => x, fun _ => true,
        fun _ _ _ => true, fun _ => false, fun _ => false, fun _ => false⟩
      pure (if falsified DC w (.intersection 0 1) then "1" else "0")).getD "bad-op"
  | ["fals", k, x] => (do
      let x ← bit? x
      let w : World := ⟨fun _ => false, fun _ => true, fun _ _ => x, fun _ => x, fun _ _ _ => x, fun _ => x, fun _ => x, fun _ => false⟩
      let kind ← match k with
        | "C" => some (ReqKind.containment 0)
        | "V" => some (ReqKind.visibility 0 1 [])
        | "N" => some (ReqKind.nonVisibility 0 1 [])
        | "U" => some (ReqKind.user 0)
        | "B" => some (ReqKind.blanket [])
        | _ => none
      pure (if falsified DC w kind then "1" else "0")).getD "bad-op"
  | ["activates", u, p] => (do
      let u ← parseRat u; let p ← parseRat p
      pure (if activates Scenic.Gen.activationCmpLe u p then "1" else "0")).getD "bad-op"
  | ["cfg"] => s!"buffer={Scenic.Gen.defaultBufferSize} icc={DC.initialCollisionCheck}"
  | ["sat", m, a, b] => (do
      let m ← m.toInt?; let a ← parseMesh a; let b ← parseMesh b
      pure (match sat m a b with
        | .separated => "sep" | .penetrating => "pen" | .undecided => "und")).getD "bad-op"
  | ["cmesh", m, c, pts] => (do
      let m ← m.toInt?; let c ← parseMesh c; let pts ← parsePts pts
      pure (match halfspaces m c.planes pts with
        | .inside => "in" | .outside => "out" | .undecided => "und")).getD "bad-op"
  | ["cpoly", m, ring, pts] => (do
      let m ← m.toInt?; let ring ← parseRing ring; let pts ← parsePts pts
      pure (if signedArea2 ring ≤ 0 || !ringConvex ring then "nonconvex" else
        match halfspaces m (polygonPlanes ring) pts with
        | .inside => "in" | .outside => "out" | .undecided => "und")).getD "bad-op"
  | ["pim", m, c, pts] => (do
      let m ← m.toInt?; let c ← parseMesh c; let pts ← parsePts pts
      pure (match pointsInMesh m c pts with
        | .inside => "in" | .outside => "out" | .undecided => "und")).getD "bad-op"
  | "los" :: m :: eye :: centre :: targets :: occ => (do
      let m ← m.toInt?; let eye ← parseV3 eye; let centre ← parseV3 centre
      let targets ← parsePts targets; let occ ← occ.mapM parseMesh
      pure (match lineOfSight m eye centre targets occ with
        | .blocked => "blocked" | .clear => "clear" | .undecided => "und")).getD "bad-op"
  | ["dist2", eye, pts] => (do
      let eye ← parseV3 eye; let pts ← parsePts pts
      let d ← distSqToAABB eye pts
      pure (toString d)).getD "bad-op"
  | _ => "bad-op"

end Driver.C02

def main : IO Unit := Driver.runLoop Driver.C02.handle
