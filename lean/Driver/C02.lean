import Driver.Util
/-! line protocol for the C02 model (stub: replaced when the property's model is built) -/
namespace Driver.C02
open Driver

def handle : List String → String
  | _ => "bad-op"

end Driver.C02

def main : IO Unit := Driver.runLoop Driver.C02.handle
