import Driver.Util
/-! line protocol for the C15 model (stub: replaced when the property's model is built) -/
namespace Driver.C15
open Driver

def handle : List String → String
  | _ => "bad-op"

end Driver.C15

def main : IO Unit := Driver.runLoop Driver.C15.handle
