import ScenicModel.Model.SampleOrder
import ScenicModel.Gen.Determinism
import Driver.Util
/-! line protocol for the C15 model (seeded generation); the bracket flags and the activation
comparator are the ones regenerated from /repo.

  sample | <py stream> | <np stream> | <order ids> | <nodes id:src:tag:dep,dep,..>
      -> "ok|rej <id=val in binding order> py=<consumed> np=<consumed>"
  gen <numScenes> <maxIterations> | <py> | <np> | <order> | <nodes> | <probs> | <view> | <reqs a:b:u>
      -> "ok=<0|1> scenes=<v,v,..;its> ... py=<consumed> np=<consumed>"
     requirement a:b:u is falsified iff (val a + val b) % 5 = 0; u = index of its activation flag or "-"
     (always active); the checker consumes both generators (3 and 2 elements per evaluated requirement)
  initdeps | <lazy ids> | <argument ids>  -> "ok <_dependencies>" (Samplable.__init__ + LazilyEvaluable.__init__)
  setorder <size> <ids..>  -> ids in slot order
  deps | <instances> | <params> | <objects> | <behavior values> | <ids needing sampling> | <Samplable ids>
       { | <funcs fid:cell,cell.. with "/" between atomic propositions> | <binding values> | <canSee 0/1> <ego id or -> }
       (one triple per requirement)
      -> "ok c=<closures of req 1, "/" between atoms>;<req 2>.. d=<dependencies of req 1>;.. R=<requirement deps> D=<Scenario.dependencies>"
     computed by Model/DepOrder.lean with the container kinds, segment order and source order regenerated from /repo
-/
namespace Driver.C15
open Driver Scenic.Det

def splitBar : List String → List (List String)
  | [] => [[]]
  | w :: ws =>
    match splitBar ws with
    | [] => [[w]]
    | g :: gs => if w == "|" then [] :: g :: gs else (w :: g) :: gs

def nats (ws : List String) : Option (List Nat) := ws.mapM (·.toNat?)

def parseSrc : String → Option Src
  | "py" => some .py
  | "np" => some .np
  | "no" => some .none
  | _ => none

def parseNode (w : String) : Option (Id × Node) :=
  match w.splitOn ":" with
  | [i, s, t, ds] => do
    let i ← i.toNat?
    let s ← parseSrc s
    let t ← t.toNat?
    let ds ← if ds == "" || ds == "-" then some [] else (ds.splitOn ",").mapM (·.toNat?)
    pure (i, { src := s, tag := t, deps := ds })
  | _ => none

structure ReqSpec where
  a : Id
  b : Id
  u : Option Nat

def parseReq (w : String) : Option ReqSpec :=
  match w.splitOn ":" with
  | [a, b, u] => do
    let a ← a.toNat?
    let b ← b.toNat?
    if u == "-" then pure ⟨a, b, none⟩ else do
      let u ← u.toNat?
      pure ⟨a, b, some u⟩
  | _ => none

def specActive (acts : List Bool) (r : ReqSpec) : Bool :=
  match r.u with
  | none => true
  | some u => acts.getD u false

def burn (n : Nat) (s : List Nat) : List Nat := s.drop n

/-- the requirements of a `gen` line as model requirements: verdict from the sample only, and each
    evaluation consumes 3 elements of Python's generator and 2 of NumPy's -/
def reqsOf (specs : List ReqSpec) (acts : List Bool) : List (Req (List Nat)) :=
  (specs.filter (specActive acts)).map fun r =>
    { optional := false,
      run := fun m rs => (decide ((get m r.a + get m r.b) % 5 = 0), { py := burn 3 rs.py, np := burn 2 rs.np }) }

def showMemo (m : Memo) : String :=
  " ".intercalate (m.reverse.map fun p => s!"{p.1}={p.2}")

def showScene (p : List Val × Nat) : String :=
  ",".intercalate (p.1.map toString) ++ ";" ++ toString p.2

def handleSample (py np order : List Nat) (tbl : Table) : String :=
  -- partial samples are not exposed by `sampleAll`; run the model node by node through visitList
  -- roots and children are iterated with the kinds regenerated from /repo (Model/SampleOrder.lean)
  let r := sampleAllK listNext stubSem Scenic.Gen.detSampleKinds tbl (tbl.length + 1) order { py := py, np := np }
  let used := s!"py={py.length - r.2.py.length} np={np.length - r.2.np.length}"
  match r.1 with
  | none => s!"rej {used}"
  | some m => s!"ok {showMemo m} {used}"

def handleGen (n maxIt : Nat) (py np order : List Nat) (tbl : Table) (probs view : List Nat)
    (specs : List ReqSpec) : String :=
  let P : Program := { tbl := tbl, fuel := tbl.length + 1, order := order, probs := probs, view := view }
  let chk : Checker (List Nat) Unit := basicChecker (reqsOf specs)
  let r := generateMany listNext stubSem P Scenic.Gen.detBracket Scenic.Gen.detActivationLe chk n maxIt ()
    { py := py, np := np }
  let scenes := " ".intercalate (r.scenes.map showScene)
  s!"ok={if r.ok then 1 else 0} scenes={scenes} py={py.length - r.rs.py.length} np={np.length - r.rs.np.length}"

def parseFunc (w : String) : Option (Id × List Id) :=
  match w.splitOn ":" with
  | [f, cs] => do
    let f ← f.toNat?
    let cs ← if cs == "" || cs == "-" then some [] else (cs.splitOn ",").mapM (·.toNat?)
    pure (f, cs)
  | _ => none

def splitSlash : List String → List (List String)
  | [] => [[]]
  | w :: ws =>
    match splitSlash ws with
    | [] => [[w]]
    | g :: gs => if w == "/" then [] :: g :: gs else (w :: g) :: gs

def parseReqSrcs : List (List String) → Option (List ReqSrc)
  | [] => some []
  | funcs :: bindings :: [cs, ego] :: rest => do
    let fs ← (if funcs.isEmpty then [] else splitSlash funcs).mapM (·.mapM parseFunc)
    let bs ← nats bindings
    let cs ← cs.toNat?
    let ego ← if ego == "-" then some none else ego.toNat?.map some
    let more ← parseReqSrcs rest
    pure ({ atoms := fs, bindings := bs, canSee := cs != 0, ego := ego } :: more)
  | _ => none

def showIds (l : List Id) : String :=
  if l.isEmpty then "-" else ",".intercalate (l.map toString)

def handleDeps (I : CompileInput) : String :=
  let k := Scenic.Gen.detKinds
  let srcs := Scenic.Gen.detCompileSources
  let segs := Scenic.Gen.detDependencySegs
  let cl := ";".intercalate (I.reqs.map fun r => "/".intercalate (r.atoms.map fun fs => showIds (atomClosures k fs)))
  let ds := ";".intercalate (I.reqs.map fun r => showIds (reqDeps k srcs I r))
  s!"ok c={cl} d={ds} R={showIds (requirementDeps k srcs I)} D={showIds (dependencies k srcs segs I)}"

def handle (ws : List String) : String :=
  match splitBar ws with
  | ["deps"] :: inst :: params :: objs :: beh :: needs :: samp :: reqs =>
    match nats inst, nats params, nats objs, nats beh, nats needs, nats samp, parseReqSrcs reqs with
    | some inst, some params, some objs, some beh, some needs, some samp, some reqs =>
      handleDeps { instances := inst, params := params, objects := objs, reqs := reqs, behaviorVals := beh,
                   needs := needs, samplable := samp }
    | _, _, _, _, _, _, _ => "bad-op"
  | [["initdeps"], lazy, args] =>
    match nats lazy, nats args with
    | some lazy, some args => "ok " ++ showIds (initDependencies Scenic.Gen.detSampleKinds lazy args)
    | _, _ => "bad-op"
  | [["sample"], py, np, order, nodes] =>
    match nats py, nats np, nats order, nodes.mapM parseNode with
    | some py, some np, some order, some tbl => handleSample py np order tbl
    | _, _, _, _ => "bad-op"
  | [["gen", n, maxIt], py, np, order, nodes, probs, view, reqs] =>
    match n.toNat?, maxIt.toNat?, nats py, nats np, nats order, nodes.mapM parseNode, nats probs, nats view,
        reqs.mapM parseReq with
    | some n, some maxIt, some py, some np, some order, some tbl, some probs, some view, some specs =>
      handleGen n maxIt py np order tbl probs view specs
    | _, _, _, _, _, _, _, _, _ => "bad-op"
  | [("setorder" :: size :: ids)] =>
    match size.toNat?, nats ids with
    | some size, some ids => " ".intercalate ((setOrder size ids).map toString)
    | _, _ => "bad-op"
  | _ => "bad-op"

end Driver.C15

def main : IO Unit := Driver.runLoop Driver.C15.handle
