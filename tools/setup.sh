#!/bin/bash
# MANIFEST.setup_cmd: build the Lean side of every claimed property from files on disk (offline).
# A property whose Lean files do not build is reported here but does not stop the others: its own
# check rebuilds what it needs and reports the broken obligation itself.
HERE="$(cd "$(dirname "${BASH_SOURCE[0]}")/.." && pwd)"
cd "$HERE/lean" || exit 2
props=$(python3 -c "
import json
m=json.load(open('$HERE/MANIFEST.json'))
print(' '.join(c['property_id'] for c in m['checks']))")
rc=0
for p in $props; do
  lower=$(echo "$p" | tr 'A-Z' 'a-z')
  if lake build "ScenicModel.Props.$p" "drv_$lower" >/tmp/verif-setup-$p.log 2>&1; then
    echo "setup: $p built"
  else
    echo "setup: WARNING $p failed to build (its check will report the broken obligation)"; tail -5 /tmp/verif-setup-$p.log
  fi
  rm -f /tmp/verif-setup-$p.log
done
exit 0
