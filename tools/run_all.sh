#!/bin/bash
# Developer tool: run every claimed check (or the listed ones) at a tier for one or more seeds, N in parallel.
#   tools/run_all.sh [-t quick|thorough] [-s "0 1 2"] [-j 5] [-o outdir] [C01 C02 ...]
HERE="$(cd "$(dirname "${BASH_SOURCE[0]}")/.." && pwd)"
TIER=quick; SEEDS="0"; JOBS=5; OUT=/tmp/verif-runall
while getopts "t:s:j:o:" o; do case $o in t) TIER=$OPTARG;; s) SEEDS=$OPTARG;; j) JOBS=$OPTARG;; o) OUT=$OPTARG;; esac; done
shift $((OPTIND-1))
PROPS="$@"
[ -z "$PROPS" ] && PROPS=$(python3 -c "import json;print(' '.join(c['property_id'] for c in json.load(open('$HERE/MANIFEST.json'))['checks']))")
mkdir -p "$OUT"
cd "$HERE"
for s in $SEEDS; do
  for p in $PROPS; do echo "$p $s"; done
done | xargs -P "$JOBS" -L1 bash -c 'p=$0; s=$1; t0=$(date +%s); VERIF_SEED=$s ./check $p --tier '"$TIER"' > '"$OUT"'/$p.s$s.log 2>&1; rc=$?; echo "$p seed=$s exit=$rc wall=$(( $(date +%s)-t0 ))s $(grep -c "^KNOWN-FINDING" '"$OUT"'/$p.s$s.log) known $(grep "^VIOLATION" '"$OUT"'/$p.s$s.log | head -1 | cut -c1-150)"' | tee "$OUT/summary.txt"
echo "--- non-zero:"; grep -v "exit=0" "$OUT/summary.txt"
