"""C20 — road networks are internally consistent for every map, cached or parsed.

Proof:  lean/ScenicModel/Props/C20*.lean  — the Boolean link checker is equivalent to the ∀-statement of
        reciprocity for every rule (`linksReciprocal_spec`) and its consequences (unique owners, involutive
        opposite, symmetric adjacency, maneuver paths); `findPointIn` returns the first element of the list
        that contains the point exactly, else the first within tolerance (`lookup_sound`, `lookup_complete`,
        priority, lane-in-road); the cache is used iff version, map digest and options digest all match
        (`cache_used_iff_keys_equal`), otherwise ignored, never partially used.
Tie:    (T) translate/roads.py regenerates Gen/Roads.lean (priority orders, lookup table, passes and guard of
        findPointIn, header layout / comparisons / exception classes of fromPickle and fromFile, separators of
        deterministicHash) from roads.py / serialization.py;
        (C) every shipped OpenDRIVE map x parser options x parsed/cached: link tables exported from the real
        Network and checked by the proved Lean checker; real lookups vs the Lean `findPointIn` on independently
        computed containment facts; real fromPickle/fromFile/deterministicHash vs the Lean cache model;
        (S) the property itself on the real code: containment within tolerance, children in parents, drivable
        coverage, traffic direction tangent to the centreline, parsed == cached, cache invalidation.
"""
import hashlib
import json
import math
import os
import pickle
import random
import shutil
import struct
import sys
import time
import warnings

from vlib.ctx import Infra, TemplateMismatch

THEOREMS = [
    "Scenic.C20.linksReciprocal_spec",
    "Scenic.C20.rule_check_iff",
    "Scenic.C20.owner_unique",
    "Scenic.C20.section_lane_unique",
    "Scenic.C20.lane_owner_chain",
    "Scenic.C20.opposite_involutive",
    "Scenic.C20.adjacent_symmetric",
    "Scenic.C20.maneuver_path",
    "Scenic.C20.group_link_from_lanes",
    "Scenic.C20.lookup_sound",
    "Scenic.C20.lookup_first",
    "Scenic.C20.lookup_complete",
    "Scenic.C20.lookup_exact_priority",
    "Scenic.C20.lookup_zero_tolerance",
    "Scenic.C20.elementAt_priority",
    "Scenic.C20.lane_in_road_found",
    "Scenic.C20.fromPickle_ok_iff",
    "Scenic.C20.cache_used_iff_keys_equal",
    "Scenic.C20.cache_never_raises",
    "Scenic.C20.dump_load_roundtrip",
    "Scenic.C20.second_load_uses_cache",
    "Scenic.C20.options_preimage_injective",
    "Scenic.C20.path_map_is_core",
    "Scenic.C20.path_noext_prefers_map",
    "Scenic.C20.path_noext_only_cache",
    "Scenic.C20.path_errors",
    "Scenic.C20.path_pickled_direct",
    "Scenic.C20.direction_of_unique_lane",
    "Scenic.C20.nominal_in_intersection",
    "Scenic.C20.found_section_owned",
    "Scenic.C20.found_group_owned",
    "Scenic.C20.elem_lookup_sound",
    "Scenic.C20.adj_left_reciprocal",
    "Scenic.C20.adj_right_reciprocal",
    "Scenic.C20.adj_faster_slower",
    "Scenic.C20.adj_slower_faster",
    "Scenic.C20.adj_adjacent_symmetric",
    "Scenic.C20.sectionOrder_spec",
    # the same, instantiated on the data regenerated from /repo (Gen/Roads.lean)
    "Scenic.C20.gen_findPointIn",
    "Scenic.C20.gen_lookup_sound",
    "Scenic.C20.gen_lookup_complete",
    "Scenic.C20.gen_elementAt_priority",
    "Scenic.C20.gen_cache_used_iff",
    "Scenic.C20.gen_cache_never_raises",
    "Scenic.C20.gen_dump_load_roundtrip",
    "Scenic.C20.gen_options_injective",
    "Scenic.C20.gen_direction_of_unique_lane",
    "Scenic.C20.gen_found_section_owned",
    "Scenic.C20.gen_found_group_owned",
    "Scenic.C20.gen_adj_reciprocal",
    "Scenic.C20.gen_path",
]
SIDE = ["Scenic.C20.gen_passes", "Scenic.C20.gen_cache_wf", "Scenic.C20.gen_lookups", "Scenic.C20.gen_hash_wf",
        "Scenic.C20.gen_elem_lookups", "Scenic.C20.gen_heading_chain", "Scenic.C20.gen_path_wf", "Scenic.C20.gen_adj"]

ROADS = "src/scenic/domains/driving/roads.py"
XODR = "src/scenic/formats/opendrive/xodr_parser.py"
FINGERPRINTS = {
    "Network.findPointIn": (ROADS, "Network.findPointIn"),
    "Network._findPointInAll": (ROADS, "Network._findPointInAll"),
    "Network.__attrs_post_init__": (ROADS, "Network.__attrs_post_init__"),
    "Network._defaultRoadDirection": (ROADS, "Network._defaultRoadDirection"),
    "Network.fromFile": (ROADS, "Network.fromFile"),
    "Network.fromPickle": (ROADS, "Network.fromPickle"),
    "Network.dumpPickle": (ROADS, "Network.dumpPickle"),
    "Network.__setstate__": (ROADS, "Network.__setstate__"),
    "Network._currentFormatVersion": (ROADS, "Network._currentFormatVersion"),
    "Network.fromOpenDrive": (ROADS, "Network.fromOpenDrive"),
    "Network.elementAt": (ROADS, "Network.elementAt"),
    "Network.roadAt": (ROADS, "Network.roadAt"),
    "Network.laneAt": (ROADS, "Network.laneAt"),
    "Network.laneSectionAt": (ROADS, "Network.laneSectionAt"),
    "Network.laneGroupAt": (ROADS, "Network.laneGroupAt"),
    "Network.nominalDirectionsAt": (ROADS, "Network.nominalDirectionsAt"),
    "_ElementReferencer": (ROADS, "_ElementReferencer"),
    "NetworkElement": (ROADS, "NetworkElement"),
    "LinearElement": (ROADS, "LinearElement"),
    "Road": (ROADS, "Road"),
    "LaneGroup": (ROADS, "LaneGroup"),
    "Lane": (ROADS, "Lane"),
    "RoadSection": (ROADS, "RoadSection"),
    "LaneSection": (ROADS, "LaneSection"),
    "Intersection": (ROADS, "Intersection"),
    "Maneuver": (ROADS, "Maneuver"),
    "deterministicHash": ("src/scenic/core/serialization.py", "deterministicHash"),
    "xodr.Road.toScenicRoad": (XODR, "Road.toScenicRoad"),
    "xodr.Road.calc_geometry_for_type": (XODR, "Road.calc_geometry_for_type"),
    "xodr.Road.calculate_geometry": (XODR, "Road.calculate_geometry"),
    "xodr.RoadMap.calculate_geometry": (XODR, "RoadMap.calculate_geometry"),
    "xodr.RoadMap.calculate_intersections": (XODR, "RoadMap.calculate_intersections"),
    "xodr.RoadMap.toScenicNetwork": (XODR, "RoadMap.toScenicNetwork"),
    "xodr.RoadMap.parse": (XODR, "RoadMap.parse"),
}

LOOKUPS = ["elementAt", "roadAt", "laneAt", "laneSectionAt", "laneGroupAt", "intersectionAt", "sidewalkAt",
           "shoulderAt"]

# the rule table of Model/Roads.lean, in order: short labels used in keys / messages (length re-checked against
# the driver's `rules` answer on every run)
CHILD_TOL_HARD = 0.5  # the code's own construction-time containment tolerance (roads.py: containsRegion(..., 0.5))
# the recorded finding `direction:centerline-backstep` is about short backward steps of a lane centreline at the joints
# of the reference-line pieces (length = lateral offset x heading change of the chords at the joint; on the 18 shipped maps
# 3747 of them, median 3.7 cm, 99 % below 0.46 m, longest 0.965 m); a longer backward run is a different defect (e.g. lane
# sections concatenated in the wrong order) and gets another key
BACKSTEP_MAX = 1.5



def B(ctx, quick, thorough):
    """tier budget (ctx.budget: thorough tier or any escalation -> thorough value).  VERIF_C20_QUICK_ONLY=1 keeps the
    quick values even when a fingerprint / translator change escalated the run: for experiments on a loaded machine
    only (the escalation is still recorded in the evidence)."""
    if os.environ.get("VERIF_C20_QUICK_ONLY") == "1" and ctx.tier != "thorough":
        return quick
    return ctx.budget(quick, thorough)


# ------------------------------------------------------------------------------------------ real code access
def R():
    warnings.filterwarnings("ignore")
    from scenic.domains.driving import roads
    return roads


def repo_maps(repo):
    import glob
    out = []
    for p in sorted(glob.glob(os.path.join(repo, "assets", "maps", "**", "*.xodr"), recursive=True)):
        rel = os.path.relpath(p, repo)
        out.append((rel, os.path.getsize(p)))
    return out


# ------------------------------------------------------------------------------------------ export to Lean
def kind_of(roads, e):
    table = [(roads.Road, "road"), (roads.LaneGroup, "grp"), (roads.Lane, "lane"), (roads.RoadSection, "rsec"),
             (roads.LaneSection, "lsec"), (roads.Intersection, "int"), (roads.Sidewalk, "sw"),
             (roads.Shoulder, "sh"), (roads.PedestrianCrossing, "cross")]
    for c, k in table:
        if type(e) is c:
            return k
    return None


def export_network(n):
    """-> (tokens, names, why): index 0 = the network, then the elements in dict order, then the maneuvers.
    A link value that is not (identically) an element of this network becomes the out-of-range index N;
    why[(i, field)] says what it was."""
    roads = R()
    elems = list(n.elements.values())
    idx = {id(e): i + 1 for i, e in enumerate(elems)}
    mans, midx = [], {}

    def man(m):
        if id(m) not in midx:
            midx[id(m)] = len(elems) + 1 + len(mans)
            mans.append(m)
        return midx[id(m)]

    for e in elems:
        if isinstance(e, (roads.Lane, roads.Intersection)):
            for m in e.maneuvers:
                man(m)
    N = 1 + len(elems) + len(mans)
    why = {}
    cur = [0, ""]

    def one(x):
        i = idx.get(id(x))
        if i is None:
            if isinstance(x, bool) or isinstance(x, int):
                why[(cur[0], cur[1])] = "raw-int"
            elif isinstance(x, roads.NetworkElement):
                why[(cur[0], cur[1])] = "foreign-element"
            else:
                why[(cur[0], cur[1])] = "non-element:" + type(x).__name__
            return N
        return i

    def ref(x):
        return [] if x is None else [one(x)]

    def refs(xs):
        return [one(x) for x in (xs or ())]

    def tok(i, kind, fwd, fields):
        parts = [kind + ("F" if fwd else "B")]
        for f, getter in fields:
            cur[0], cur[1] = i, f
            v = getter()
            if v:
                parts.append(f + "=" + ",".join(map(str, v)))
        return ";".join(parts)

    toks = [tok(0, "net", True, [
        ("roads", lambda: refs(n.roads)), ("connecting", lambda: refs(n.connectingRoads)),
        ("groups", lambda: refs(n.laneGroups)), ("lanes", lambda: refs(n.lanes)),
        ("intersections", lambda: refs(n.intersections)), ("sidewalks", lambda: refs(n.sidewalks)),
        ("shoulders", lambda: refs(n.shoulders)), ("sections", lambda: refs(n.roadSections)),
        ("laneSections", lambda: refs(n.laneSections))])]
    for i, e in enumerate(elems, start=1):
        k, f, fwd = kind_of(roads, e), [], True
        if k == "road":
            f = [("lanes", lambda: refs(e.lanes)), ("forward", lambda: ref(e.forwardLanes)),
                 ("backward", lambda: ref(e.backwardLanes)), ("groups", lambda: refs(e.laneGroups)),
                 ("sections", lambda: refs(e.sections)), ("succ", lambda: ref(e._successor)),
                 ("pred", lambda: ref(e._predecessor)), ("sidewalks", lambda: refs(e.sidewalks))]
        elif k == "grp":
            f = [("road", lambda: ref(e.road)), ("lanes", lambda: refs(e.lanes)),
                 ("opposite", lambda: ref(e._opposite)), ("sidewalk", lambda: ref(e._sidewalk)),
                 ("shoulder", lambda: ref(e._shoulder)), ("succ", lambda: ref(e._successor)),
                 ("pred", lambda: ref(e._predecessor))]
        elif k == "lane":
            f = [("group", lambda: ref(e.group)), ("road", lambda: ref(e.road)),
                 ("sections", lambda: refs(e.sections)), ("adjacent", lambda: refs(e.adjacentLanes)),
                 ("maneuvers", lambda: [man(m) for m in e.maneuvers]), ("succ", lambda: ref(e._successor)),
                 ("pred", lambda: ref(e._predecessor))]
            fwd = bool(e.sections[0].isForward) if e.sections else True
        elif k == "rsec":
            f = [("road", lambda: ref(e.road)), ("lanes", lambda: refs(e.lanes)),
                 ("forward", lambda: refs(e.forwardLanes)), ("backward", lambda: refs(e.backwardLanes)),
                 ("succ", lambda: ref(e._successor)), ("pred", lambda: ref(e._predecessor))]
        elif k == "lsec":
            f = [("lane", lambda: ref(e.lane)), ("group", lambda: ref(e.group)), ("road", lambda: ref(e.road)),
                 ("left", lambda: ref(e._laneToLeft)), ("right", lambda: ref(e._laneToRight)),
                 ("faster", lambda: ref(e._fasterLane)), ("slower", lambda: ref(e._slowerLane)),
                 ("adjacent", lambda: refs(e.adjacentLanes)), ("succ", lambda: ref(e._successor)),
                 ("pred", lambda: ref(e._predecessor))]
            fwd = bool(e.isForward)
        elif k == "int":
            f = [("roads", lambda: refs(e.roads)), ("incoming", lambda: refs(e.incomingLanes)),
                 ("outgoing", lambda: refs(e.outgoingLanes)), ("maneuvers", lambda: [man(m) for m in e.maneuvers])]
        elif k in ("sw", "sh"):
            f = [("road", lambda: ref(e.road))]
        elif k is None:
            k = "cross"
        toks.append(tok(i, k, fwd, f))
    for j, m in enumerate(mans):
        i = 1 + len(elems) + j
        toks.append(tok(i, "man", True, [
            ("start", lambda: ref(m.startLane)), ("conn", lambda: ref(m.connectingLane)),
            ("endLane", lambda: ref(m.endLane)), ("inter", lambda: ref(m.intersection)),
            ("via", lambda: ref(m.connectingLane) or ref(m.endLane)),
            ("direct", lambda: [] if m.connectingLane is not None else ref(m.endLane))]))
    uid = lambda x: getattr(x, "uid", None)
    names = ["<network>"] + [e.uid for e in elems] + [
        f"maneuver({uid(m.startLane)}->{uid(m.connectingLane)}->{uid(m.endLane)})" for m in mans]
    return toks, names, {f"{i}:{f}": w for (i, f), w in why.items()}


# ------------------------------------------------------------------------------------------ canonical dump
def canon_network(n):
    """{section: digest} of everything observable about a network (geometry as WKB, links as uids, orders)."""
    import shapely
    roads = R()
    out = {}

    def h(*parts):
        m = hashlib.sha256()
        for p in parts:
            m.update(p if isinstance(p, bytes) else repr(p).encode())
            m.update(b"|")
        return m.hexdigest()[:16]

    def u(x):
        if x is None:
            return None
        if isinstance(x, (list, tuple)):
            return [u(y) for y in x]
        if isinstance(x, roads.Maneuver):
            return ("M", str(x.type), u(x.startLane), u(x.connectingLane), u(x.endLane), u(x.intersection))
        if isinstance(x, roads.Signal):
            return ("S", x.uid, x.openDriveID, x.country, x.type)
        if hasattr(x, "uid"):
            return x.uid
        return repr(x)

    def geom(g):
        return b"" if g is None else shapely.to_wkb(g)

    def line(r):
        return None if r is None else [tuple(float(c) for c in p) for p in r.points]

    for uid, e in n.elements.items():
        parts = [type(e).__name__, e.uid, e.id, e.name, geom(e.polygons), sorted(v.name for v in e.vehicleTypes),
                 e.speedLimit, sorted(e.tags)]
        for attr in ("centerline", "leftEdge", "rightEdge", "curb"):
            if hasattr(e, attr):
                parts.append((attr, line(getattr(e, attr))))
        for attr in ("_successor", "_predecessor", "road", "group", "lane", "lanes", "sections", "laneGroups",
                     "forwardLanes", "backwardLanes", "_opposite", "_sidewalk", "_shoulder", "_bikeLane",
                     "adjacentLanes", "_laneToLeft", "_laneToRight", "_fasterLane", "_slowerLane", "maneuvers",
                     "roads", "incomingLanes", "outgoingLanes", "signals", "crossings", "sidewalks", "parent",
                     "startSidewalk", "endSidewalk", "isForward", "openDriveID"):
            if hasattr(e, attr):
                v = getattr(e, attr)
                parts.append((attr, v if isinstance(v, (bool, int, float, str)) else u(v)))
        if hasattr(e, "lanesByOpenDriveID"):
            parts.append(sorted((k, u(v)) for k, v in e.lanesByOpenDriveID.items()))
        out["elem:" + uid] = h(*parts)
    for attr in ("roads", "connectingRoads", "allRoads", "laneGroups", "lanes", "intersections", "crossings",
                 "sidewalks", "shoulders", "roadSections", "laneSections", "_topLevelElements", "_nominalDirElems"):
        out["list:" + attr] = h(u(list(getattr(n, attr))))
    out["list:elements"] = h(list(n.elements))
    out["scalars"] = h(n.tolerance, n.driveOnLeft, list(n._uidForIndex))
    for attr in ("drivableRegion", "walkableRegion", "roadRegion", "laneRegion", "intersectionRegion",
                 "crossingRegion", "sidewalkRegion", "shoulderRegion"):
        r = getattr(n, attr)
        out["region:" + attr] = h(type(r).__name__, geom(getattr(r, "polygons", None)))
    cr = n.curbRegion
    out["region:curbRegion"] = h(type(cr).__name__, line(cr) if hasattr(cr, "points") else None)
    return out


# ------------------------------------------------------------------------------------------ geometry oracle
class Geo:
    """Independent containment facts: brute-force distances from a point to every element polygon."""

    def __init__(self, n):
        import numpy as np
        import shapely
        self.np, self.sh = np, shapely
        self.n = n
        self.elems = list(n.elements.values())
        self.polys = np.array([e.polygons for e in self.elems], dtype=object)
        self.bounds = shapely.bounds(self.polys)
        self.tol = float(n.tolerance)

    def facts(self, x, y):
        """-> (exact, near, undecided): index lists (1-based as in the export) of elements containing the point,
        elements within tolerance, and whether some element sits in the numerically undecided band."""
        np, sh = self.np, self.sh
        b = self.bounds
        m = self.tol * 1.01 + 1e-6
        mask = (b[:, 0] - m <= x) & (x <= b[:, 2] + m) & (b[:, 1] - m <= y) & (y <= b[:, 3] + m)
        ii = np.nonzero(mask)[0]
        if len(ii) == 0:
            return [], [], False
        pt = sh.Point(x, y)
        d = sh.distance(self.polys[ii], pt)
        inter = sh.intersects(self.polys[ii], pt)
        exact, near, und = [], [], False
        tol = self.tol
        for i, di, it in zip(ii, d, inter):
            if it != (di == 0.0) or 0.0 < di <= 1e-9:
                und = True
            if di == 0.0:
                exact.append(int(i) + 1)
            if tol > 0:
                if di <= 0.998 * tol:
                    near.append(int(i) + 1)
                elif di <= tol * (1 + 1e-9) + 1e-12:
                    und = True
        return exact, near, und


def polyline_xy(region):
    import numpy as np
    return np.array([(float(p[0]), float(p[1])) for p in region.points], dtype=float)


def nearest_tangents(pts, x, y, slack=1e-9):
    """headings (Scenic convention: 0 = +y, counter-clockwise) of the segments of the polyline nearest to (x, y),
    with the distance; segments of zero length are ignored."""
    import numpy as np
    a, b = pts[:-1], pts[1:]
    ab = b - a
    L2 = (ab ** 2).sum(1)
    ok = L2 > 0
    p = np.array([x, y])
    t = np.where(ok, ((p - a) * ab).sum(1) / np.where(ok, L2, 1.0), 0.0).clip(0, 1)
    proj = a + t[:, None] * ab
    d = np.hypot(proj[:, 0] - x, proj[:, 1] - y)
    d = np.where(ok, d, np.inf)
    dm = float(d.min())
    idx = np.nonzero(d <= dm + slack)[0]
    return [norm_angle(math.atan2(ab[i, 1], ab[i, 0]) - math.pi / 2) for i in idx], dm, [int(i) for i in idx]


def norm_angle(a):
    while a > math.pi:
        a -= 2 * math.pi
    while a <= -math.pi:
        a += 2 * math.pi
    return a


def ang_diff(a, b):
    return abs(norm_angle(a - b))


def coarse_heading(pts, x, y, span=1.0):
    """travel direction of the polyline near (x, y): chord between the points `span` metres of arc length before
    and after the projection of the point (None for degenerate polylines)."""
    import numpy as np
    seg = np.hypot(*(pts[1:] - pts[:-1]).T)
    cum = np.concatenate([[0.0], np.cumsum(seg)])
    total = cum[-1]
    if total <= 1e-6:
        return None
    _, _, idx = nearest_tangents(pts, x, y)
    i = idx[0]
    a, b = pts[i], pts[i + 1]
    ab = b - a
    t = float(np.clip(((np.array([x, y]) - a) * ab).sum() / (ab ** 2).sum(), 0, 1))
    s = cum[i] + t * seg[i]

    def at(s):
        s = min(max(s, 0.0), total)
        j = int(np.searchsorted(cum, s, side="right") - 1)
        j = min(max(j, 0), len(seg) - 1)
        while j < len(seg) - 1 and seg[j] == 0:
            j += 1
        f = 0.0 if seg[j] == 0 else (s - cum[j]) / seg[j]
        return pts[j] + f * (pts[j + 1] - pts[j])

    p0, p1 = at(s - span), at(s + span)
    if np.hypot(*(p1 - p0)) < 1e-6:
        return None
    return norm_angle(math.atan2(p1[1] - p0[1], p1[0] - p0[0]) - math.pi / 2)


def backsteps(pts):
    """indices i of consecutive non-degenerate segments (i, next) of a polyline that turn by more than 90 degrees"""
    import numpy as np
    d = pts[1:] - pts[:-1]
    L = np.hypot(d[:, 0], d[:, 1])
    keep = np.nonzero(L > 1e-9)[0]
    out = []
    for a, b in zip(keep[:-1], keep[1:]):
        if d[a, 0] * d[b, 0] + d[a, 1] * d[b, 1] < 0:
            out.append((int(a), int(b)))
    return out


# ------------------------------------------------------------------------------------------ sampling
def sample_points(n, rng, count):
    """structured sample of query points: in lanes (centreline + lateral noise), in intersections, in a band of a
    few tolerances round element boundaries, on shoulders / sidewalks, far outside."""
    import numpy as np
    import shapely
    tol = float(n.tolerance)
    pts = []
    lanes = list(n.lanes)
    inters = list(n.intersections)
    sides = list(n.shoulders) + list(n.sidewalks)
    tops = list(n.allRoads) + inters + sides
    minx, miny, maxx, maxy = n.drivableRegion.polygons.bounds

    def along(e, noise):
        ls = e.centerline.lineString
        p = ls.interpolate(rng.random(), normalized=True)
        ang = rng.uniform(0, 2 * math.pi)
        r = abs(rng.gauss(0, noise))
        return ("lane", p.x + r * math.cos(ang), p.y + r * math.sin(ang))

    def inside(e, cat):
        poly = e.polygons
        bx = poly.bounds
        for _ in range(30):
            x, y = rng.uniform(bx[0], bx[2]), rng.uniform(bx[1], bx[3])
            if poly.intersects(shapely.Point(x, y)):
                return (cat, x, y)
        p = poly.representative_point()
        return (cat, p.x, p.y)

    def band(e):
        poly = e.polygons
        geoms = list(poly.geoms) if hasattr(poly, "geoms") else [poly]
        g = rng.choice(geoms)
        p = g.exterior.interpolate(rng.random(), normalized=True)
        r = rng.choice([0.0, 1e-7, 0.3, 0.9, 0.97, 1.03, 1.5, 3.0]) * (tol if tol > 0 else 0.05)
        ang = rng.uniform(0, 2 * math.pi)
        return ("band", p.x + r * math.cos(ang), p.y + r * math.sin(ang))

    for k in range(count):
        u = rng.random()
        if u < 0.40 and lanes:
            pts.append(along(rng.choice(lanes), 1.0))
        elif u < 0.55 and inters:
            pts.append(inside(rng.choice(inters), "intersection"))
        elif u < 0.82 and tops:
            pts.append(band(rng.choice(tops + lanes)))
        elif u < 0.92 and sides:
            c, x, y = along(rng.choice(sides), 0.5)
            pts.append(("side", x, y))
        elif u < 0.96:
            pts.append(("far", rng.uniform(minx - 20, maxx + 20), rng.uniform(miny - 20, maxy + 20)))
        elif lanes:
            # a vertex of a centreline (ties between segments)
            e = rng.choice(lanes)
            p = rng.choice(e.centerline.points)
            pts.append(("vertex", float(p[0]), float(p[1])))
        else:
            pts.append(("far", rng.uniform(minx - 20, maxx + 20), rng.uniform(miny - 20, maxy + 20)))
    return pts


# ------------------------------------------------------------------------------------------ per-map worker
def chain_spec(seed):
    """a straight chain of two-way roads linked end -> start, some interior ones shorter than any tolerance used:
    -> [(road id, length)], in order along x"""
    rng = random.Random(f"chain:{seed}")
    n = rng.randrange(3, 6)
    short = {rng.randrange(1, n - 1)}
    if n >= 5 and rng.random() < 0.5:
        short.add(rng.choice([i for i in range(1, n - 1) if i not in short and i - 1 not in short and i + 1 not in short] or list(short)))
    return [(i + 1, 0.01 if i in short else float(rng.choice([30, 50, 80]))) for i in range(n)]


def chain_xodr(seed):
    spec = chain_spec(seed)
    out = ['<?xml version="1.0" standalone="yes"?>', '<OpenDRIVE>',
           '  <header revMajor="1" revMinor="4" name="chain" version="1.00" north="0" south="0" east="0" west="0"/>']
    x = 0.0
    for k, (rid, length) in enumerate(spec):
        links, ll, lr = "", "", ""
        if k > 0:
            links += f'<predecessor elementType="road" elementId="{spec[k - 1][0]}" contactPoint="end"/>'
            ll += '<predecessor id="1"/>'
            lr += '<predecessor id="-1"/>'
        if k + 1 < len(spec):
            links += f'<successor elementType="road" elementId="{spec[k + 1][0]}" contactPoint="start"/>'
            ll += '<successor id="1"/>'
            lr += '<successor id="-1"/>'
        out.append(f'  <road name="Road {rid}" length="{length!r}" id="{rid}" junction="-1"><link>{links}</link>'
                   f'<planView><geometry s="0.0" x="{x!r}" y="0.0" hdg="0.0" length="{length!r}"><line/></geometry></planView>'
                   f'<lanes><laneSection s="0.0"><left><lane id="1" type="driving" level="false"><link>{ll}</link>'
                   f'<width sOffset="0.0" a="3.5" b="0.0" c="0.0" d="0.0"/></lane></left>'
                   f'<center><lane id="0" type="none" level="false"/></center>'
                   f'<right><lane id="-1" type="driving" level="false"><link>{lr}</link>'
                   f'<width sOffset="0.0" a="3.5" b="0.0" c="0.0" d="0.0"/></lane></right></laneSection></lanes></road>')
        x += length
    out.append('</OpenDRIVE>')
    return "\n".join(out) + "\n"


def chain_issues(n, seed, elide):
    """direct oracle on a synthetic chain: the kept roads are linked to each other in chain order, through elided ones"""
    spec = chain_spec(seed)
    kept = [rid for rid, length in spec if not (elide and length < float(n.tolerance))]
    byid = {}
    for r in n.roads:
        byid[int(r.id)] = r
    out = []
    if sorted(byid) != sorted(kept):
        return [("links:chain:roads", f"roads of the chain {spec} with elide_short_roads={elide}: {sorted(byid)}, expected {sorted(kept)}")]
    u = lambda e: None if e is None else getattr(e, "uid", repr(e))
    for k, rid in enumerate(kept):
        r = byid[rid]
        want_s = byid[kept[k + 1]] if k + 1 < len(kept) else None
        want_p = byid[kept[k - 1]] if k > 0 else None
        if r._successor is not want_s:
            out.append(("links:chain:successor", f"chain {spec}, elide_short_roads={elide}: successor of road {rid} is {u(r._successor)}, expected {u(want_s)}"))
        if r._predecessor is not want_p:
            out.append(("links:chain:predecessor", f"chain {spec}, elide_short_roads={elide}: predecessor of road {rid} is {u(r._predecessor)}, expected {u(want_p)}"))
        for lane, lid in ((r.forwardLanes.lanes[0] if r.forwardLanes else None, -1), (r.backwardLanes.lanes[0] if r.backwardLanes else None, 1)):
            if lane is None:
                continue
            # the forward lane continues into the forward lane of the next road, the backward lane into that of the previous one
            nxt, prv = (want_s, want_p) if lid == -1 else (want_p, want_s)
            grp = lambda rd: None if rd is None else ((rd.forwardLanes if lid == -1 else rd.backwardLanes).lanes[0])
            if lane._successor is not grp(nxt):
                out.append(("links:chain:lane-successor", f"chain {spec}, elide_short_roads={elide}: successor of {lane.uid} is {u(lane._successor)}, expected {u(grp(nxt))}"))
            if lane._predecessor is not grp(prv):
                out.append(("links:chain:lane-predecessor", f"chain {spec}, elide_short_roads={elide}: predecessor of {lane.uid} is {u(lane._predecessor)}, expected {u(grp(prv))}"))
    return out


def mutate_xodr(text, kind, seed):
    """deterministic mutated variants of a map (positive inputs: a network built from them must be consistent)"""
    import re
    if kind == "synthetic-chain":
        return chain_xodr(seed)
    rng = random.Random(f"{kind}:{seed}")
    if kind == "drop-lane-links":
        # remove some lane-level <link> blocks
        blocks = list(re.finditer(r"<link>\s*(?:<predecessor id=\"-?\d+\"\s*/>\s*)?(?:<successor id=\"-?\d+\"\s*/>\s*)?</link>", text))
        for m in sorted(rng.sample(blocks, min(len(blocks), max(1, len(blocks) // 10))), key=lambda m: -m.start()):
            text = text[:m.start()] + "<link/>" + text[m.end():]
        return text
    if kind == "perturb-geometry":
        # nudge the start of some plan-view geometries by up to 2 cm (gaps / overlaps between pieces)
        def nud(m):
            if rng.random() < 0.15:
                return f'{m.group(1)}{float(m.group(2)) + rng.uniform(-0.02, 0.02):.16e}{m.group(3)}'
            return m.group(0)
        return re.sub(r'(<geometry [^>]*?\bx=")([-+0-9.eE]+)(")', nud, text)
    if kind == "perturb-width":
        def nud(m):
            if rng.random() < 0.2:
                return f'{m.group(1)}{max(0.0, float(m.group(2)) + rng.uniform(-0.3, 0.3)):.16e}{m.group(3)}'
            return m.group(0)
        return re.sub(r'(<width [^>]*?\ba=")([-+0-9.eE]+)(")', nud, text)
    if kind == "junction-id-zero":
        # renumber one junction to id 0 (ids are arbitrary in OpenDRIVE)
        ids = sorted(set(re.findall(r'<junction [^>]*?\bid="(\d+)"', text)) | set(re.findall(r'<junction id="(\d+)"', text)))
        if not ids or "0" in ids:
            return text
        j = rng.choice(ids)
        text = re.sub(r'(<junction\b[^>]*?\bid=")%s(")' % j, r"\g<1>0\2", text)
        text = re.sub(r'(elementType="junction"[^>]*?elementId=")%s(")' % j, r"\g<1>0\2", text)
        text = re.sub(r'(elementId=")%s("[^>]*?elementType="junction")' % j, r"\g<1>0\2", text)
        text = re.sub(r'(<road\b[^>]*?\bjunction=")%s(")' % j, r"\g<1>0\2", text)
        return text
    if kind == "lane-links-at-junctions":
        # give every lane without a lane-level link a predecessor/successor naming itself (legal OpenDRIVE; the
        # road-level link may be a junction, in which case the ids cannot be resolved to lane sections)
        def add(m):
            if rng.random() < 0.5:
                return f'{m.group(1)}<link><predecessor id="{m.group(2)}"/><successor id="{m.group(2)}"/></link>'
            return m.group(0)
        return re.sub(r'(<lane id="(-?[1-9]\d*)"[^>]*>\s*)<link\s*/>', add, text)
    if kind == "drop-connecting-road-links":
        # connecting roads (junction != -1) lose their road-level predecessor link: the junction's <connection> elements carry
        # the same information, and the parser resolves the lanes of connecting roads from them
        def drop(m):
            return m.group(1) if rng.random() < 0.5 else m.group(0)
        return re.sub(r'(<road\b(?=[^>]*\bjunction="(?!-1")[^"]+")[^>]*>\s*<link>\s*)(<predecessor\b[^>]*elementType="road"[^>]*/>\s*)', drop, text)
    raise ValueError(kind)


def load_map_text(repo, rel, mutation):
    with open(os.path.join(repo, rel), "r", errors="replace") as f:
        text = f.read()
    if mutation:
        text = mutate_xodr(text, mutation["kind"], mutation["seed"])
    return text


def real_lookup(n, name, x, y):
    e = getattr(n, name)((x, y))
    return None if e is None else e


ELEM_LOOKUPS = ["Road.sectionAt", "Road.laneAt", "Road.laneGroupAt", "LaneGroup.laneAt", "Lane.sectionAt",
                "RoadSection.laneAt", "Road.laneSectionAt"]


def real_elem_lookups(n, idx, x, y):
    """the `…At` methods of the elements the network-level lookups return at this point"""
    p = (x, y)
    ix = lambda e: None if e is None else idx.get(id(e), -1)
    road, group, lane = n.roadAt(p), n.laneGroupAt(p), n.laneAt(p)
    rsec = road.sectionAt(p) if road is not None else None
    out = {
        "Road.sectionAt": ix(rsec),
        "Road.laneAt": ix(road.laneAt(p)) if road is not None else None,
        "Road.laneGroupAt": ix(road.laneGroupAt(p)) if road is not None else None,
        "LaneGroup.laneAt": ix(group.laneAt(p)) if group is not None else None,
        "Lane.sectionAt": ix(lane.sectionAt(p)) if lane is not None else None,
        "RoadSection.laneAt": ix(rsec.laneAt(p)) if rsec is not None else None,
        "Road.laneSectionAt": ix(road.laneSectionAt(p)) if road is not None else None,
    }
    return out


def real_directions(n, x, y):
    roads = R()
    v = roads.Vector(x, y)
    rd = n.roadDirection[v]
    rd = float(rd.yaw) if hasattr(rd, "yaw") else float(rd)
    return {"rd": rd, "nd": [float(o.yaw) for o in n.nominalDirectionsAt(v)]}


def run_driver_exe(exe, lines):
    import subprocess
    p = subprocess.run([exe], input="\n".join(lines) + "\n", capture_output=True, text=True, timeout=3000)
    if p.returncode != 0:
        raise RuntimeError(f"Lean driver failed rc={p.returncode}: {p.stderr[-300:]}")
    out = p.stdout.split("\n")
    if out and out[-1] == "":
        out.pop()
    if len(out) != len(lines):
        raise RuntimeError(f"Lean driver returned {len(out)} lines for {len(lines)}")
    return out


def model_phase(job, n, geo, toks, qpoints, cl, H, issue):
    import shapely
    roads = R()
    exe = job.get("driver")
    pts = [q for q in qpoints if not q["und"] and "real_elem" in q]
    if not exe or not os.path.exists(exe) or not pts:
        return
    tol = geo.tol
    line = f"C20 query2 {'1' if tol > 0 else '0'} " + " ".join(toks) + " Q " + \
        " ".join((",".join(map(str, q["exact"])) or "-") + "/" + (",".join(map(str, q["near"])) or "-") for q in pts)
    answers = run_driver_exe(exe, [line])[0].split(" ")
    if len(answers) != len(pts):
        raise RuntimeError(f"driver answered {len(answers)} points for {len(pts)}")
    EPS = 1e-6
    nm = lambda i: None if i is None else (geo.elems[i - 1].uid if 0 < i <= len(geo.elems) else f"#{i}")

    def tangents_of(src, x, y):
        """headings admissible for one model source: e<i> = nearest segment(s) of that element's centreline,
        c<I> = the same for the connecting lane(s) of I's maneuvers closest to the point"""
        if src.startswith("e"):
            e = geo.elems[int(src[1:]) - 1]
            return nearest_tangents(cl(e), x, y)[0], [e.uid]
        I = geo.elems[int(src[1:]) - 1]
        pt = shapely.Point(x, y)
        ds = [(float(shapely.distance(m.connectingLane.polygons, pt)), m.connectingLane) for m in I.maneuvers]
        if not ds:
            return [], []
        dmin = min(d for d, _ in ds)
        cands = []
        for d, l in ds:
            if d <= dmin + 1e-9 and not any(l is c for c in cands):
                cands.append(l)
        out = []
        for l in cands:
            out += nearest_tangents(cl(l), x, y)[0]
        return out, [l.uid for l in cands]

    for q, a in zip(pts, answers):
        x, y = q["p"]
        net, elems, rd, nd = a.split("|")
        q["model"] = net
        # element-level lookups
        for name, mv in zip(ELEM_LOOKUPS, elems.split(",")):
            mv = None if mv == "-" else int(mv)
            rv = q["real_elem"].get(name)
            H("elem_lookup", f"{name}:{'none' if rv is None else 'exact' if rv in q['exact'] else 'tolerant'}")
            if mv != rv:
                issue(f"lookup:{name}:disagrees-with-spec",
                      f"{name} at ({x!r}, {y!r}) (owner = what the network-level lookup returns) gave {nm(rv)}; the first match of the "
                      f"list it searches is {nm(mv)} (contain the point: {[nm(i) for i in q['exact']]}; within tolerance: "
                      f"{[nm(i) for i in q['near']]})", {"point": [x, y], "lookup": name, "corr": f"findPointIn model vs {name}"})
        # which centreline supplies the direction
        real_rd, real_nd = q["dirs"]["rd"], q["dirs"]["nd"]
        if rd == "-":
            ok = real_rd == 0
            H("direction_source", "roadDirection:outside" if ok else "roadDirection:MISMATCH")
            if not ok:
                issue("direction:source:roadDirection", f"roadDirection at ({x!r}, {y!r}) is {math.degrees(real_rd):.4f} deg although no "
                      "intersection, road or shoulder is within tolerance (documented value there: 0)",
                      {"point": [x, y], "corr": "direction-source model vs Network.roadDirection"})
        else:
            tans, who = tangents_of(rd, x, y)
            ok = any(ang_diff(real_rd, t) <= EPS for t in tans)
            H("direction_source", f"roadDirection:{'closest-connecting-lane' if rd.startswith('c') else kind_of(roads, geo.elems[int(rd[1:]) - 1])}"
              if ok else "roadDirection:MISMATCH")
            if not ok:
                issue("direction:source:roadDirection",
                      f"roadDirection at ({x!r}, {y!r}) is {math.degrees(real_rd):.4f} deg; the lookup chain of the model gives the centreline of "
                      f"{who} whose nearest segment runs at {[round(math.degrees(t), 4) for t in tans]} deg",
                      {"point": [x, y], "corr": "direction-source model vs Network.roadDirection"})
        srcs = [] if nd == "-" else nd.split(";")
        ok = len(srcs) == len(real_nd)
        detail = []
        if ok:
            for s_, d_ in zip(srcs, real_nd):
                tans, who = tangents_of(s_, x, y)
                detail.append((who, [round(math.degrees(t), 4) for t in tans]))
                if not any(ang_diff(d_, t) <= EPS for t in tans):
                    ok = False
        H("direction_source", f"nominalDirectionsAt:{len(srcs)}" if ok else "nominalDirectionsAt:MISMATCH")
        if not ok:
            issue("direction:source:nominalDirectionsAt",
                  f"nominalDirectionsAt({x!r}, {y!r}) = {[round(math.degrees(d), 4) for d in real_nd]} deg; the model gives {len(srcs)} "
                  f"direction(s) from the centrelines {detail or srcs}",
                  {"point": [x, y], "corr": "direction-source model vs Network.nominalDirectionsAt"})


def collect_adjacency(n):
    """{ids: [[where, order, {id: 'left/right/faster/slower/adjacent'}], …]} over the distinct lane-id sets of the road
    sections (each distinct observation once), in the driver's output format"""
    roads = R()
    out = {}
    for road in n.allRoads:
        for rs in road.sections:
            d = rs.lanesByOpenDriveID
            ids = list(d)
            key = ",".join(map(str, ids))

            def oid(x, d=d):
                if x is None:
                    return "-"
                if not isinstance(x, roads.LaneSection) or d.get(x.openDriveID) is not x:
                    return "foreign"
                return str(x.openDriveID)
            per = {}
            for i, sct in d.items():
                adj = ".".join(oid(a) for a in sct.adjacentLanes) or "-"
                per[str(i)] = "/".join([oid(sct._laneToLeft), oid(sct._laneToRight), oid(sct._fasterLane), oid(sct._slowerLane), adj])
                if sct.openDriveID != i or bool(sct.isForward) != (i < 0):
                    per[str(i)] += f"!id={sct.openDriveID},fwd={sct.isForward}"
            order = (",".join(oid(a) for a in rs.forwardLanes) or "-") + "|" + (",".join(oid(a) for a in rs.backwardLanes) or "-")
            if rs.lanes != rs.forwardLanes + rs.backwardLanes:
                order += "!lanes"
            obs = out.setdefault(key, [])
            if not any(o[1] == order and o[2] == per for o in obs):
                obs.append([rs.uid, order, per])
    return out


def process_map(job):
    """Runs in a worker process.  job: dict(repo, rel, options, mutation, seed, npoints, scratch, depth)."""
    t0 = time.time()
    warnings.filterwarnings("ignore")
    res = {"job": {k: job[k] for k in ("rel", "options", "mutation", "seed", "npoints", "depth")}, "status": "ok",
           "issues": [], "hist": {}, "cases": 0}
    hist = res["hist"]

    def H(name, bucket, k=1):
        hist.setdefault(name, {})
        hist[name][str(bucket)] = hist[name].get(str(bucket), 0) + k

    def issue(key, what, extra=None):
        if len(res["issues"]) < 40 and not any(i["key"] == key and i["what"] == what for i in res["issues"]):
            res["issues"].append({"key": key, "what": what, "extra": extra or {}})

    try:
        import numpy as np
        import shapely
        roads = R()
        rng = random.Random(f"{job['seed']}:{job['rel']}:{sorted(job['options'].items())}:{job['mutation']}")
        random.seed(rng.getrandbits(32))
        np.random.seed(rng.getrandbits(32))
        os.makedirs(job["scratch"], exist_ok=True)
        path = os.path.join(job["scratch"], os.path.basename(job["rel"]))
        with open(path, "w") as f:
            f.write(load_map_text(job["repo"], job["rel"], job["mutation"]))
        opts = dict(job["options"])
        # ---- parse (writes the cache next to the scratch copy)
        try:
            n = roads.Network.fromFile(path, useCache=False, writeCache=True, **opts)
        except BaseException as e:  # noqa
            if isinstance(e, KeyboardInterrupt):
                raise
            import traceback
            tb = traceback.extract_tb(e.__traceback__)[-1]
            res["status"] = "build-failed"
            res["error"] = f"{type(e).__name__} at {os.path.basename(tb.filename)}:{tb.lineno}: {str(e)[:120]}"
            res["error_class"] = type(e).__name__
            res["wall"] = time.time() - t0
            return res
        res["t_parse"] = time.time() - t0
        res["n_elems"] = len(n.elements)
        res["tolerance"] = float(n.tolerance)
        toks, names, why = export_network(n)
        res["tokens"], res["names"], res["why"] = toks, names, why
        if job["mutation"] and job["mutation"]["kind"] == "synthetic-chain":
            for key, what in chain_issues(n, job["mutation"]["seed"], bool(opts.get("elide_short_roads"))):
                issue(key, what)
            H("synthetic_chain", f"{len(chain_spec(job['mutation']['seed']))}-roads:elide={bool(opts.get('elide_short_roads'))}")
        # uid bookkeeping (not expressible on indices)
        for uid, e in n.elements.items():
            if e.uid != uid:
                issue("links:uid-key", f"elements[{uid!r}].uid == {e.uid!r}")
            if e.network is None or e.network.elements is not n.elements:
                issue("links:network-backref", f"{uid}.network is not the owning network")
        # ---- cached copy
        t1 = time.time()
        calls = []
        orig_od = roads.Network.__dict__["fromOpenDrive"]

        def counting(cls, *a, **k):
            calls.append(1)
            return orig_od.__func__(cls, *a, **k)

        n2 = None
        snet = os.path.splitext(path)[0] + roads.Network.pickledExt
        if not os.path.exists(snet):
            issue("cache:not-written", "fromFile(writeCache=True) did not write the .snet file")
        else:
            roads.Network.fromOpenDrive = classmethod(counting)
            try:
                n2 = roads.Network.fromFile(path, useCache=True, writeCache=False, **opts)
            except BaseException as e:  # noqa
                issue("cache:load-raised", f"loading the cache just written raised {type(e).__name__}: {str(e)[:100]}")
            finally:
                roads.Network.fromOpenDrive = orig_od
            if calls:
                issue("cache:not-used", "fromFile(useCache=True) re-parsed the map although a matching cache exists")
                n2 = None
        res["t_cache"] = time.time() - t1
        if n2 is not None:
            c1, c2 = canon_network(n), canon_network(n2)
            diff = sorted(k for k in set(c1) | set(c2) if c1.get(k) != c2.get(k))
            H("parsed_vs_cached", "equal" if not diff else "DIFFERENT")
            if diff:
                issue("cache:differs", f"network loaded from its cache differs from the parsed one in {diff[:6]} "
                      f"({len(diff)} sections)", {"sections": diff[:20]})
            toks2, names2, why2 = export_network(n2)
            res["tokens_cached"] = toks2 if toks2 != toks else "same"
            res["why_cached"] = why2
            if names2 != names:
                issue("cache:differs", "element order / uids of the cached network differ")
            for uid, e in n2.elements.items():
                if e.network is None or e.network.elements is not n2.elements:
                    issue("cache:network-backref", f"cached {uid}.network is not the owning network")
                    break
        # ---- points
        geo = Geo(n)
        idx = {id(e): i + 1 for i, e in enumerate(geo.elems)}
        pts = sample_points(n, rng, job["npoints"])
        if job.get("points"):  # replay of one reported point
            pts = [("replay", float(x), float(y)) for x, y in job["points"]]
        tol = float(n.tolerance)
        qpoints = []
        drivable = n.drivableRegion.polygons
        laneset = set(id(l) for l in n.lanes)
        conn_lane_ids = set(id(l) for r in n.connectingRoads for l in r.lanes)
        inter_polys = [i.polygons for i in n.intersections]
        cl_cache = {}
        top_rank = {}  # ordinary roads only: connecting roads are not top-level elements
        for rk, lst in enumerate((n.intersections, n.roads, n.shoulders, n.sidewalks)):
            for e in lst:
                top_rank.setdefault(id(e), rk)

        def cl(e):
            if id(e) not in cl_cache:
                cl_cache[id(e)] = polyline_xy(e.centerline)
            return cl_cache[id(e)]

        for cat, x, y in pts:
            res["cases"] += 1
            H("point_category", cat)
            exact, near, und = geo.facts(x, y)
            real = {}
            try:
                for name in LOOKUPS:
                    e = getattr(n, name)((x, y))
                    real[name] = None if e is None else idx.get(id(e), -1)
            except BaseException as e:  # noqa
                issue(f"lookup:raised:{type(e).__name__}", f"lookup at ({x!r}, {y!r}) raised {type(e).__name__}: {str(e)[:100]}",
                      {"point": [x, y]})
                continue
            if n2 is not None:
                for name in LOOKUPS:
                    e2 = getattr(n2, name)((x, y))
                    u1 = None if real[name] in (None, -1) else geo.elems[real[name] - 1].uid
                    u2 = None if e2 is None else e2.uid
                    if u1 != u2:
                        issue("cache:lookup-differs", f"{name}({x!r}, {y!r}) = {u1} parsed but {u2} from the cache",
                              {"point": [x, y], "lookup": name})
            H("point_decided", "undecided-band" if und else "decided")
            q = {"p": [x, y], "exact": exact, "near": near, "und": und, "real": real, "cat": cat}
            if not und:
                try:
                    q["real_elem"] = real_elem_lookups(n, idx, x, y)
                    q["dirs"] = real_directions(n, x, y)
                except BaseException as e:  # noqa
                    if isinstance(e, KeyboardInterrupt):
                        raise
                    issue(f"lookup:raised:{type(e).__name__}", f"element-level lookup / direction at ({x!r}, {y!r}) raised "
                          f"{type(e).__name__}: {str(e)[:100]}", {"point": [x, y]})
            qpoints.append(q)
            # direct: containment within tolerance of whatever is returned
            for name in LOOKUPS:
                r = real[name]
                if r is None:
                    continue
                if r == -1:
                    issue(f"lookup:foreign:{name}", f"{name}({x!r}, {y!r}) returned an object that is not an element of the network",
                          {"point": [x, y], "lookup": name})
                    continue
                d = float(shapely.distance(geo.polys[r - 1], shapely.Point(x, y)))
                H("returned_distance", "0" if d == 0 else "<=tol" if d <= tol else ">tol")
                if d > tol * (1 + 1e-9) + 1e-9:
                    issue(f"lookup:too-far:{name}", f"{name}({x!r}, {y!r}) returned {geo.elems[r-1].uid} at distance {d:.6g} > tolerance {tol}",
                          {"point": [x, y], "lookup": name})
            # direct: documented priority of elementAt (Intersection -> Road -> Shoulder -> Sidewalk; elements containing
            # the point before elements within tolerance), independent of the generated lookup table
            if not und and real["elementAt"] != -1:
                def best(cands):
                    rs = [top_rank[id(geo.elems[i - 1])] for i in cands if id(geo.elems[i - 1]) in top_rank]
                    return min(rs) if rs else None

                exp = best(exact)
                if exp is None and tol > 0:
                    exp = best(near)
                got = None if real["elementAt"] is None else top_rank.get(id(geo.elems[real["elementAt"] - 1]), 9)
                if exp != got:
                    names = {0: "Intersection", 1: "Road", 2: "Shoulder", 3: "Sidewalk", None: "None", 9: "other"}
                    issue("lookup:elementAt:priority",
                          f"elementAt({x!r}, {y!r}) returned a {names[got]} where the documented order gives a {names[exp]}",
                          {"point": [x, y], "lookup": "elementAt"})
            # direct: mutual consistency of the lookups: a lane found at a point that also lies in the polygon of the lane's road
            # (resp. a section of the lane, a group of the road) => the road (section, group) lookup finds something containing it
            if not und and -1 not in real.values():
                el = lambda i: None if i is None else geo.elems[i - 1]
                ln, rd_, gp, ls = el(real["laneAt"]), el(real["roadAt"]), el(real["laneGroupAt"]), el(real["laneSectionAt"])
                exs = set(exact)
                checks = []
                if ln is not None and real["laneAt"] in exs:
                    if idx.get(id(ln.road)) in exs:
                        checks.append(("laneAt->roadAt", real["roadAt"] in exs, ln.uid))
                    if idx.get(id(ln.group)) in exs and rd_ is ln.road:  # laneGroupAt searches the groups of the road found
                        checks.append(("laneAt->laneGroupAt", real["laneGroupAt"] in exs, ln.uid))
                    if any(idx.get(id(sc)) in exs for sc in ln.sections):
                        checks.append(("laneAt->laneSectionAt", real["laneSectionAt"] in exs, ln.uid))
                for nm_, ok_, who in checks:
                    H("lookup_consistency", nm_ + (":ok" if ok_ else ":INCONSISTENT"))
                    if not ok_:
                        issue(f"lookup:inconsistent:{nm_}",
                              f"at ({x!r}, {y!r}) laneAt returns {who}, which contains the point together with its parent, but "
                              f"{nm_.split('->')[1]} returns {None if real[nm_.split('->')[1]] is None else geo.elems[real[nm_.split('->')[1]] - 1].uid}",
                              {"point": [x, y], "lookup": nm_.split("->")[1]})
            # direct: drivable coverage
            if not und and drivable.intersects(shapely.Point(x, y)):
                H("drivable_point", "covered" if (real["roadAt"] or real["intersectionAt"]) else "UNCOVERED")
                if not (real["roadAt"] or real["intersectionAt"]):
                    issue("coverage:drivable", f"point ({x!r}, {y!r}) of the drivable region: roadAt and intersectionAt both return None",
                          {"point": [x, y]})
                if real["elementAt"] is None:
                    issue("coverage:elementAt", f"point ({x!r}, {y!r}) of the drivable region: elementAt returns None", {"point": [x, y]})
            # direct: traffic direction tangent to the centreline of the lane
            direction_check(n, geo, x, y, exact, near, und, inter_polys, laneset, conn_lane_ids, cl, H, issue)
        res["points"] = qpoints
        # ---- the Lean model on the same containment facts: network-level lookups (compared by the parent), element-level
        # lookups and the centreline that supplies the direction (compared here, where the geometry is at hand)
        model_phase(job, n, geo, toks, qpoints, cl, H, issue)
        # ---- adjacency / lane order of every road section, to be compared with the Lean construction by the parent
        res["adj"] = collect_adjacency(n)
        # ---- centreline back-steps: deterministic search for a point where the reported direction is reversed
        nb = nlong = 0
        for lane in n.lanes:
            p = cl(lane)
            for a, b in backsteps(p):
                nb += 1
                seg = a if np.hypot(*(p[a + 1] - p[a])) < np.hypot(*(p[b + 1] - p[b])) else b
                long_ = np.hypot(*(p[seg + 1] - p[seg])) > BACKSTEP_MAX
                nlong += bool(long_)
                H("centreline_backstep_length", "<=1cm" if np.hypot(*(p[seg + 1] - p[seg])) <= 0.01 else "<=10cm" if np.hypot(*(p[seg + 1] - p[seg])) <= 0.1
                  else "<=1.5m" if not long_ else ">1.5m")
                if nb <= 3 or (long_ and nlong <= 5):
                    mx, my = (p[seg] + p[seg + 1]) / 2
                    ch = coarse_heading(p, mx, my, span=2.0)
                    try:
                        rep = float(n.roadDirection[roads.Vector(mx, my)].yaw) if hasattr(n.roadDirection[roads.Vector(mx, my)], "yaw") \
                            else float(n.roadDirection[roads.Vector(mx, my)])
                    except Exception:
                        rep = None
                    if ch is not None and rep is not None and ang_diff(rep, ch) > math.pi / 2 \
                            and lane.polygons.intersects(shapely.Point(mx, my)):
                        issue("direction:centerline-backstep" if np.hypot(*(p[seg + 1] - p[seg])) <= BACKSTEP_MAX else "direction:centerline-reversed",
                              f"lane {lane.uid}: centreline runs backwards for {np.hypot(*(p[seg+1]-p[seg])):.3f} m between vertices {seg} and {seg+1}; "
                              f"roadDirection at ({mx:.4f}, {my:.4f}) is {math.degrees(rep):.1f} deg, the lane runs at {math.degrees(ch):.1f} deg",
                              {"point": [float(mx), float(my)], "lane": lane.uid})
        H("centreline_backsteps", "none" if nb == 0 else "some", 1)
        res["backsteps"] = nb
        # ---- children inside parents (element level, every pair or a sample of them)
        t2 = time.time()
        pairs = []
        for l in n.lanes:
            pairs += [("lane<group", l, l.group), ("lane<road", l, l.road)]
            pairs += [("laneSection<lane", s, l) for s in l.sections]
        pairs += [("group<road", g, g.road) for g in n.laneGroups]
        for r in n.allRoads:
            for rs in r.sections:
                pairs.append(("roadSection<road", rs, r))
                pairs += [("laneSection<roadSection", ls, rs) for ls in rs.lanes]
        for I in n.intersections:
            pairs += [("connectingLane<intersection", m.connectingLane, I) for m in I.maneuvers if m.connectingLane is not None]
        if job["depth"] < len(pairs):
            pairs = rng.sample(pairs, job["depth"])
        worst = 0.0
        for name, c, p in pairs:
            if not isinstance(c, roads.NetworkElement) or not isinstance(p, roads.NetworkElement):
                continue
            res["cases"] += 1
            diff = c.polygons.difference(p.polygons)
            ex = 0.0
            if not diff.is_empty and diff.area > 1e-12:
                co = shapely.get_coordinates(diff)
                ex = float(np.max(shapely.distance(shapely.points(co), p.polygons))) if len(co) else 0.0
            worst = max(worst, ex)
            H("child_excess", "0" if ex == 0 else "<=tol" if ex <= tol else "<=0.5" if ex <= CHILD_TOL_HARD else ">0.5")
            if ex > CHILD_TOL_HARD:
                issue(f"containment:{name}", f"{c.uid} sticks out of its parent {p.uid} by {ex:.4g} m (> {CHILD_TOL_HARD})",
                      {"child": c.uid, "parent": p.uid})
        res["child_worst"] = worst
        # ---- laneToLeft / laneToRight lie on that side of the lane (with respect to its direction of travel)
        secs = list(n.laneSections)
        if job["depth"] < len(secs):
            secs = rng.sample(secs, job["depth"])
        for sct in secs:
            p = cl(sct)
            half = sct.centerline.lineString.interpolate(0.5, normalized=True)
            hd = coarse_heading(p, half.x, half.y, span=2.0)
            if hd is None:
                continue
            leftn = (-math.cos(hd), -math.sin(hd))
            for attr, sign in (("_laneToLeft", 1.0), ("_laneToRight", -1.0)):
                o = getattr(sct, attr)
                if not isinstance(o, roads.LaneSection):
                    continue
                res["cases"] += 1
                q = o.centerline.lineString.interpolate(o.centerline.lineString.project(half))
                side = (q.x - half.x) * leftn[0] + (q.y - half.y) * leftn[1]
                if abs(side) < 1.0:
                    H("adjacent_side", "undecided")
                    continue
                okside = side * sign > 0
                H("adjacent_side", "correct" if okside else "WRONG")
                if not okside:
                    issue("links:adjacent-side", f"{sct.uid}.{attr} = {o.uid} lies {abs(side):.2f} m to the {'right' if sign > 0 else 'left'} of it",
                          {"section": sct.uid})
        res["t_children"] = time.time() - t2
    except BaseException as e:  # noqa
        if isinstance(e, KeyboardInterrupt):
            raise
        import traceback
        res["status"] = "harness-error"
        res["error"] = traceback.format_exc()[-1500:]
    res["wall"] = time.time() - t0
    return res


def direction_check(n, geo, x, y, exact, near, und, inter_polys, laneset, conn_lane_ids, cl, H, issue):
    """traffic direction at a point of a lane is tangent to that lane's centreline (independent computation)"""
    import shapely
    roads = R()
    if und:
        return
    ex_elems = [geo.elems[i - 1] for i in exact]
    lanes = [e for e in ex_elems if id(e) in laneset]
    if not lanes:
        return
    pt = shapely.Point(x, y)
    tol = geo.tol
    in_inter = any(float(shapely.distance(p, pt)) <= tol * 1.01 + 1e-9 for p in inter_polys)
    v = roads.Vector(x, y)
    try:
        dirs = [float(o.yaw) for o in n.nominalDirectionsAt(v)]
        rd = n.roadDirection[v]
        rd = float(rd.yaw) if hasattr(rd, "yaw") else float(rd)
    except BaseException as e:  # noqa
        issue(f"direction:raised:{type(e).__name__}", f"nominalDirectionsAt / roadDirection at ({x!r}, {y!r}) raised {type(e).__name__}: {str(e)[:80]}",
              {"point": [x, y]})
        return
    EPS = 1e-6
    if not in_inter:
        main = [l for l in lanes if id(l) not in conn_lane_ids]
        if len(main) != 1 or len(lanes) != 1:
            H("direction_point", "ambiguous-lane")
            return
        lane = main[0]
        # lookups go through road -> lane group -> lane, each with an exact and a tolerant pass, and polygons of
        # siblings are separated by slivers: the lane that supplies the direction is unambiguous only when no other
        # lane is within tolerance of the point
        if any(id(geo.elems[i - 1]) in laneset and geo.elems[i - 1] is not lane for i in near):
            H("direction_point", "ambiguous:other-lane-within-tolerance")
            return
        # the element that supplies the direction is the first of intersections + roads + shoulders containing the
        # point: unambiguous only if the lane's road contains the point exactly and no shoulder is within tolerance
        if not any(e is lane.road for e in ex_elems):
            H("direction_point", "ambiguous:lane-outside-road-polygon")
            return
        if any(float(shapely.distance(sh.polygons, pt)) <= tol * 1.01 + 1e-9 for sh in n.shoulders):
            H("direction_point", "ambiguous:shoulder-overlap")
            return
        tans, dm, segs = nearest_tangents(cl(lane), x, y)
        ok = len(dirs) == 1 and any(ang_diff(dirs[0], t) <= EPS for t in tans) and any(ang_diff(rd, t) <= EPS for t in tans)
        H("direction_point", "lane:tangent" if ok else "lane:NOT-TANGENT")
        if not ok:
            issue("direction:not-tangent",
                  f"point ({x!r}, {y!r}) lies in lane {lane.uid} only; nominalDirectionsAt = {[round(math.degrees(d), 4) for d in dirs]}, "
                  f"roadDirection = {math.degrees(rd):.4f} deg, centreline tangent = {[round(math.degrees(t), 4) for t in tans]} deg",
                  {"point": [x, y], "lane": lane.uid})
        else:
            ch = coarse_heading(cl(lane), x, y, span=2.0)
            if ch is not None:
                rev = ang_diff(rd, ch) > math.pi / 2
                H("direction_vs_travel", "reversed" if rev else "along")
                if rev:
                    import numpy as np
                    seglen = min(float(np.hypot(*(cl(lane)[i + 1] - cl(lane)[i]))) for i in segs)
                    issue("direction:centerline-backstep" if seglen <= BACKSTEP_MAX else "direction:centerline-reversed",
                          f"roadDirection at ({x!r}, {y!r}) in lane {lane.uid} is {math.degrees(rd):.1f} deg but the lane runs at {math.degrees(ch):.1f} deg "
                          "(the nearest centreline segment runs backwards)", {"point": [x, y], "lane": lane.uid})
    else:
        conn = [l for l in lanes if id(l) in conn_lane_ids]
        if not conn:
            H("direction_point", "intersection:no-connecting-lane")
            return
        # every reported direction is tangent to a connecting lane containing the point, and every such lane is reported
        allt = []
        for l in conn:
            t, _, _ = nearest_tangents(cl(l), x, y)
            allt.append((l, t))
        elem = n.elementAt(v)
        if not isinstance(elem, roads.Intersection):
            H("direction_point", "intersection:element-is-" + type(elem).__name__)
            return
        mine = [(l, t) for l, t in allt if any(m.connectingLane is l for m in elem.maneuvers)]
        bad = [d for d in dirs if not any(ang_diff(d, t) <= EPS for _, ts in mine for t in ts)]
        missing = [l.uid for l, ts in mine if not any(ang_diff(d, t) <= EPS for d in dirs for t in ts)]
        ok = not bad and not missing and len(mine) > 0
        if not mine:
            H("direction_point", "intersection:other-junction")
            return
        H("direction_point", "intersection:tangent" if ok else "intersection:NOT-TANGENT")
        if not ok:
            issue("direction:not-tangent:intersection",
                  f"point ({x!r}, {y!r}) in {elem.uid}: nominalDirectionsAt = {[round(math.degrees(d), 3) for d in dirs]} deg; connecting lanes containing it: "
                  f"{[(l.uid, [round(math.degrees(t), 3) for t in ts]) for l, ts in mine]}; not tangent: {bad}; lanes not reported: {missing}",
                  {"point": [x, y]})


# ------------------------------------------------------------------------------------------ driver side
def rule_labels(ctx):
    """labels of the rules of Model/Roads.lean, parsed from the source (order = the driver's rule indices)"""
    import re
    txt = open(os.path.join(ctx.root, "lean", "ScenicModel", "Model", "Roads.lean")).read()
    body = txt[txt.index("def rules : List Rule := [") + len("def rules : List Rule := ["):]
    body = body[:body.index("\n]")]
    body = re.sub(r"--[^\n]*", "", body)
    items, depth, cur = [], 0, ""
    for ch in body:
        if ch == "[":
            depth += 1
        elif ch == "]":
            depth -= 1
        if ch == "," and depth == 0:
            items.append(cur)
            cur = ""
        else:
            cur += ch
    items.append(cur)
    labels = []
    for it in items:
        it = re.sub(r"\s+", " ", it).strip().replace("Field.", "").replace("Kind.", "")
        if it:
            labels.append(it.lstrip("."))
    return labels


def links_verdict(out):
    """'ok N' -> []; 'fail k@i,j ...' -> [(rule, [elems])]"""
    if out.startswith("ok"):
        return []
    if not out.startswith("fail"):
        return None
    res = []
    for part in out.split()[1:]:
        r, _, ii = part.partition("@")
        res.append((int(r), [int(i) for i in ii.split(",") if i]))
    return res


def negative_controls(rng, toks, k):
    """mutated link tables that must be rejected by the checker (the checker is not vacuous)"""
    out = []
    elem_idx = [i for i, t in enumerate(toks) if "=" in t and i > 0]
    tries = 0
    while len(out) < k and tries < 20 * k and elem_idx:
        tries += 1
        i = rng.choice(elem_idx)
        parts = toks[i].split(";")
        j = rng.randrange(1, len(parts))
        f, _, v = parts[j].partition("=")
        vals = v.split(",")
        kind = rng.choice(["drop", "redirect", "dangling", "flip"])
        new = list(parts)
        if kind == "drop":
            if f in ("succ", "pred", "adjacent", "faster", "slower", "sidewalk", "shoulder", "via", "direct", "incoming", "outgoing", "roads", "connecting", "intersections"):
                continue  # dropping these is not always detectable (optional, one-directional facts)
            vals2 = vals[:-1]
            new[j] = f + "=" + ",".join(vals2) if vals2 else None
        elif kind == "redirect":
            if f in ("succ", "pred", "via", "incoming", "outgoing", "roads", "connecting", "intersections", "sidewalks", "shoulders"):
                continue
            same_kind = [q for q in range(1, len(toks)) if toks[q].split(";")[0][:-1] == toks[int(vals[0])].split(";")[0][:-1] and str(q) not in vals] \
                if int(vals[0]) < len(toks) else []
            if not same_kind:
                continue
            vals2 = list(vals)
            vals2[rng.randrange(len(vals2))] = str(rng.choice(same_kind))
            new[j] = f + "=" + ",".join(vals2)
        elif kind == "dangling":
            vals2 = list(vals)
            vals2[rng.randrange(len(vals2))] = str(len(toks))
            new[j] = f + "=" + ",".join(vals2)
        else:
            if not parts[0].startswith("lsec"):
                continue
            new[0] = parts[0][:-1] + ("B" if parts[0].endswith("F") else "F")
        t2 = list(toks)
        t2[i] = ";".join(p for p in new if p)
        if t2[i] != toks[i]:
            out.append((f"{kind}:{parts[0]}:{f}", t2))
    return out


def option_combos(ctx, rel, size):
    """non-default parser option combinations for one map (seeded)"""
    rng = random.Random(f"{ctx.seed}:{rel}:opts")
    pool = []
    for tol in (0.05, 0.01, 0.1, 0.2):
        for fg in (True, False):
            for fi in (True, False):
                for el in (False, True):
                    pool.append(dict(tolerance=tol, fill_gaps=fg, fill_intersections=fi, elide_short_roads=el))
    pool += [dict(ref_points=10), dict(ref_points=40, tolerance=0.1), dict(tolerance=0.0)]
    rng.shuffle(pool)
    if size > 1_500_000:
        k = B(ctx, 0, 3)
    elif size > 300_000:
        k = B(ctx, 0, 6)
    else:
        k = B(ctx, 1, 8)
    return pool[:k]


def job_key(job):
    o = ",".join(f"{k}={v}" for k, v in sorted(job["options"].items())) or "default"
    m = f"+{job['mutation']['kind']}#{job['mutation']['seed']}" if job["mutation"] else ""
    return f"{os.path.basename(job['rel'])}{m}[{o}]"


def run_jobs(ctx, jobs):
    import multiprocessing as mp
    # import everything once in the parent: the workers are forked and start warm
    R()
    import numpy  # noqa
    import shapely  # noqa
    import scenic.formats.opendrive.xodr_parser  # noqa
    procs = min(B(ctx, 5, 10), max(2, (os.cpu_count() or 4) - 2), max(1, len(jobs)))
    if os.environ.get("VERIF_C20_PROCS"):  # development runs on the shared machine
        procs = max(1, min(procs, int(os.environ["VERIF_C20_PROCS"])))
    mpctx = mp.get_context("fork")
    results = []
    with mpctx.Pool(procs) as pool:
        it = pool.imap_unordered(process_map, jobs)
        deadline = time.time() + B(ctx, 3000, 14000)  # generous: a time-out is an infrastructure failure, never a verdict
        while True:
            try:
                r = it.next(timeout=max(1.0, deadline - time.time()))
            except StopIteration:
                break
            except mp.TimeoutError:
                pool.terminate()
                raise Infra("map workers timed out")
            results.append(r)
    return results


def replay_of(job, **extra):
    d = {"rel": job["rel"], "options": job["options"], "mutation": job["mutation"], "seed": job["seed"],
         "npoints": job.get("npoints", 0), "depth": job.get("depth", 0)}
    d.update(extra)
    return d


def evaluate(ctx, results, labels):
    """feed the exported tables / candidate sets to the Lean driver and compare; -> found a failing input"""
    found = False
    lines, meta = [], []
    adj_seen = {}
    for r in results:
        if r["status"] != "ok":
            continue
        lines.append("C20 links " + " ".join(r["tokens"]))
        meta.append(("links", r, "parsed"))
        if isinstance(r.get("tokens_cached"), list):
            lines.append("C20 links " + " ".join(r["tokens_cached"]))
            meta.append(("links", r, "cached"))
        pts = [q for q in r.get("points", []) if not q["und"] and "model" in q]
        if pts:
            lines.append("C20 rules")  # placeholder line: the model answers were computed in the worker (query2)
            meta.append(("query", r, pts))
        for ids, obs in r.get("adj", {}).items():
            if ids not in adj_seen:
                adj_seen[ids] = len(lines)
                lines.append(f"C20 adj 1 {ids or '-'}")
                meta.append(("adjmodel", r, ids))
                lines.append(f"C20 order {ids or '-'}")
                meta.append(("ordermodel", r, ids))
    # negative controls on a few tables
    negs = []
    oks = [r for r in results if r["status"] == "ok" and len(r["tokens"]) > 5]
    for r in sorted(oks, key=lambda r: len(r["tokens"]))[: B(ctx, 4, 12)]:
        for name, t2 in negative_controls(ctx.rng, r["tokens"], B(ctx, 8, 40)):
            lines.append("C20 links " + " ".join(t2))
            meta.append(("neg", r, name))
    out = ctx.driver(lines) if lines else []
    lookups = ctx.driver(["C20 lookups"])[0].split()
    if ctx.driver(["C20 elemlookups"])[0].split() != ELEM_LOOKUPS:
        raise Infra("the driver's element-lookup table is not the one the harness compares")
    adj_model, order_model = {}, {}
    for (kind, r, arg), o in zip(meta, out):
        if kind == "adjmodel":
            adj_model[arg] = dict(t.split(":", 1) for t in o.split(" ") if ":" in t)
        elif kind == "ordermodel":
            order_model[arg] = o
    for (kind, r, arg), o in zip(meta, out):
        job = r["job"]
        jk = job_key(job)
        if kind == "links":
            ctx.case(("links", jk, arg, hashlib.sha256(" ".join(r["tokens"]).encode()).hexdigest()[:12]),
                     nontrivial=len(r["tokens"]) > 3)
            v = links_verdict(o)
            if v is None:
                raise Infra(f"driver could not parse the link table of {jk}: {o[:100]}")
            ctx.hist("links_verdict", "reciprocal" if not v else "NOT-RECIPROCAL")
            why = r["why"] if arg == "parsed" else r.get("why_cached", {})
            for rule, elems in v:
                label = labels[rule] if rule < len(labels) else f"rule{rule}"
                names = [r["names"][i] if i < len(r["names"]) else f"#{i}" for i in elems]
                disc = ""
                if label.startswith("typed ") and elems:
                    f = label.split(" ")[2]
                    ws = {why.get(f"{i}:{f}") for i in elems} - {None}
                    if ws:
                        disc = ":" + "+".join(sorted(ws))
                key = f"links:{label}{disc}" + ("" if arg == "parsed" else ":cached")
                if ctx.violation(key, f"{jk} ({arg}): link rule {label} fails at {names}",
                                 replay_of(job, kind="links", rule=rule, label=label, which=arg)):
                    found = True
        elif kind in ("adjmodel", "ordermodel"):
            continue
        elif kind == "query":
            pts = arg
            for p in pts:
                a = p["model"]
                model = dict(zip(lookups, a.split(",")))
                ctx.case(("pt", jk, p["p"]), nontrivial=bool(p["exact"] or p["near"]))
                for name in LOOKUPS:
                    if name not in model:
                        continue
                    mv = None if model[name] == "-" else int(model[name])
                    rv = p["real"][name]
                    pass_ = "none" if rv is None else ("exact" if rv in p["exact"] else "tolerant")
                    ctx.hist("lookup_pass", f"{name}:{pass_}")
                    if mv != rv:
                        nm = lambda i: None if i is None else (r["names"][i] if 0 <= i < len(r["names"]) else f"#{i}")
                        ctx.broken("correspondence", f"findPointIn model vs Network.{name}",
                                   f"{jk} at {p['p']}: model {nm(mv)} real {nm(rv)} (exact={[nm(i) for i in p['exact']]} near={[nm(i) for i in p['near']]})")
                        # the model is proved to return the first exact / tolerant match of the documented order, so a
                        # disagreement on independently computed containment facts is a failing input of the real code
                        if ctx.violation(f"lookup:{name}:disagrees-with-spec",
                                         f"{jk}: {name}{tuple(p['p'])} returned {nm(rv)}; first match in the documented order is {nm(mv)} "
                                         f"(contain the point: {[nm(i) for i in p['exact']]}; within tolerance: {[nm(i) for i in p['near']]})",
                                         replay_of(job, kind="lookup", lookup=name, point=p["p"])):
                            found = True
        else:
            ctx.evaluations += 1
            ctx.hist("negative_control", ("rejected:" if o.startswith("fail") else "ACCEPTED:") + arg.split(":")[0])
            if not o.startswith("fail"):
                ctx.hist("negative_control_accepted", arg)
    # everything the workers found directly on the real code
    for r in results:
        job = r["job"]
        jk = job_key(job)
        for name, buckets in r.get("hist", {}).items():
            for b, k in buckets.items():
                ctx.hist(name, b, k)
        ctx.evaluations += r.get("cases", 0)
        if r["status"] == "harness-error":
            raise Infra(f"worker failed on {jk}:\n{r['error']}")
        if r["status"] == "build-failed":
            ctx.hist("build", f"failed:{r['error_class']}:{'default' if not job['options'] else 'non-default'}"
                     + (":mutated" if job["mutation"] else ""))
            if not job["options"] and not job["mutation"]:
                if ctx.violation(f"build-failed:{os.path.basename(job['rel'])}",
                                 f"{jk}: the shipped map no longer builds a network with default options: {r['error']}",
                                 replay_of(job, kind="build")):
                    found = True
            continue
        ctx.hist("build", "ok" + (":mutated" if job["mutation"] else ""))
        for iss in r["issues"]:
            if iss["extra"].get("corr"):
                ctx.broken("correspondence", iss["extra"]["corr"], f"{jk}: {iss['what']}")
            if ctx.violation(iss["key"], f"{jk}: {iss['what']}", replay_of(job, kind="direct", key=iss["key"], **iss["extra"])):
                found = True
        # adjacency / lane order of every road section vs the Lean construction (proved reciprocal for every id set)
        for ids, obs in r.get("adj", {}).items():
            for where, order, per in obs:
                ctx.case(("adj", ids, order, sorted(per.items())), nontrivial=len(per) > 1)
                ctx.hist("adjacency_section", f"{len(per)}-lanes")
        for key, corr, what, ids, where in adjacency_issues(r.get("adj", {}), adj_model, order_model):
            ctx.broken("correspondence", corr, f"{jk}: {what}")
            if ctx.violation(key, f"{jk}: {what}", replay_of(job, kind="adj", ids=ids, section=where)):
                found = True
    return found


def adjacency_issues(adj, adj_model, order_model):
    out = []
    for ids, obs in adj.items():
        for where, order, per in obs:
            bad = [f"lane {i}: real {v}, construction {adj_model.get(ids, {}).get(i)}" for i, v in per.items()
                   if adj_model.get(ids, {}).get(i) != v]
            if bad:
                out.append(("links:adjacency-construction", "adjacency construction vs toScenicRoad",
                            f"road section {where} (lane ids {ids}): _laneToLeft/_laneToRight/_fasterLane/_slowerLane/adjacentLanes "
                            f"(as left/right/faster/slower/adjacent ids) differ from the construction the reciprocity theorems are "
                            f"proved for: {bad[:4]}", ids, where))
            if order_model.get(ids) != order:
                out.append(("links:section-lane-order", "lane order of RoadSection",
                            f"road section {where} (lane ids {ids}): forwardLanes|backwardLanes = {order}, documented order "
                            f"(rightmost first, negative ids forward) = {order_model.get(ids)}", ids, where))
    return out


# ------------------------------------------------------------------------------------------ cache logic
def same_size_edit(data):
    """the map with one blank inside the root tag turned into a tab: same size, still the same OpenDRIVE content"""
    i = data.find(b"<OpenDRIVE")
    j = data.find(b" ", i) if i >= 0 else -1
    if j < 0:
        j = data.find(b" ")
    return data[:j] + b"\t" + data[j + 1:] if j >= 0 else data[:-1] + (b"\n" if data[-1:] != b"\n" else b" ")


def corr_cache(ctx, small_map):
    """real fromPickle / fromFile / deterministicHash vs the Lean cache model, on crafted headers"""
    roads = R()
    from scenic.core.serialization import deterministicHash
    found = False
    rng = ctx.rng
    work = os.path.join(ctx.tmp, "cache")
    os.makedirs(work, exist_ok=True)
    path = os.path.join(work, "m.xodr")
    shutil.copyfile(os.path.join(ctx.repo, small_map), path)
    snet = os.path.join(work, "m" + roads.Network.pickledExt)
    try:
        net = roads.Network.fromFile(path, useCache=False, writeCache=True)
        good = open(snet, "rb").read()
    except BaseException as e:  # noqa  (reported as build-failed / cache:not-written by the map jobs)
        if isinstance(e, KeyboardInterrupt):
            raise
        ctx.notes.append(f"cache correspondence skipped: {small_map} does not build or is not cached ({type(e).__name__}: {str(e)[:80]})")
        return False
    cur = roads.Network._currentFormatVersion()
    hdr_v, hdr_d, hdr_o, payload = good[:4], good[4:68], good[68:76], good[76:]
    data = open(path, "rb").read()
    digest = hashlib.blake2b(data).digest()
    optd = deterministicHash({}, digest_size=8)
    if (hdr_v, hdr_d, hdr_o) != (struct.pack("<I", cur), digest, optd):
        ctx.broken("correspondence", "dumpPickle header", "header written by fromFile is not (version, blake2b(map), deterministicHash(options))")
    lines, py = [], []

    def classify(fn):
        try:
            fn()
            return "ok"
        except pickle.UnpicklingError:
            return "unpickling"
        except roads.Network.DigestMismatchError:
            return "mismatch"
        except BaseException as e:  # noqa
            ctx.hist("frompickle_other_exception", type(e).__name__)
            return "other"

    def optarg(b):
        return "none" if b is None else ("empty" if b == b"" else b.hex())

    # ---- fromPickle on crafted files
    versions = [cur, cur + 1, cur - 1, 0, 2 ** 32 - 1, cur + 256, cur + 65536]
    cases = []
    for v in versions:
        cases.append((struct.pack("<I", v) + hdr_d + hdr_o, True, hdr_d, hdr_o))
    flip = lambda b, i: b[:i] + bytes([b[i] ^ 1]) + b[i + 1:]
    for i in (0, 31, 63):
        cases.append((hdr_v + flip(hdr_d, i) + hdr_o, True, hdr_d, hdr_o))
    for i in (0, 7):
        cases.append((hdr_v + hdr_d + flip(hdr_o, i), True, hdr_d, hdr_o))
    for k in (0, 1, 3, 4, 5, 40, 67, 68, 69, 75, 76):
        cases.append(((hdr_v + hdr_d + hdr_o)[:k], True, hdr_d, hdr_o))
    for od in (None, b"", hdr_d, flip(hdr_d, 5)):
        for oo in (None, b"", hdr_o, flip(hdr_o, 2)):
            cases.append((hdr_v + hdr_d + hdr_o, True, od, oo))
            cases.append((hdr_v + flip(hdr_d, 9) + flip(hdr_o, 1), True, od, oo))
    cases.append((hdr_v + hdr_d + hdr_o, False, hdr_d, hdr_o))  # corrupted payload
    cases.append((hdr_v + hdr_d + hdr_o, False, None, None))
    for _ in range(B(ctx, 30, 300)):
        h = bytearray(hdr_v + hdr_d + hdr_o)
        for _ in range(rng.choice([0, 1, 1, 2])):
            h[rng.randrange(len(h))] = rng.randrange(256)
        h = bytes(h)[: rng.choice([76] * 6 + [rng.randrange(0, 77)])]
        cases.append((h, rng.random() < 0.85, rng.choice([None, b"", hdr_d, hdr_d, flip(hdr_d, rng.randrange(64))]),
                      rng.choice([None, b"", hdr_o, hdr_o, flip(hdr_o, rng.randrange(8))])))
    tmpf = os.path.join(work, "crafted.snet")
    for h, pay_ok, od, oo in cases:
        body = h + (payload if pay_ok else payload[: len(payload) // 2] + b"garbage")
        if len(h) < 76:
            body = h  # short header: nothing follows
        with open(tmpf, "wb") as f:
            f.write(body)
        real = classify(lambda: roads.Network.fromPickle(tmpf, originalDigest=od, optionsDigest=oo))
        lines.append(f"C20 frompickle {h.hex() or '-'} {'ok' if pay_ok else 'bad'} {optarg(od)} {optarg(oo)}")
        py.append(real)
        ctx.hist("frompickle_outcome", real)
        # direct (no model): a file is accepted iff it is complete, its version is current, its digests equal the expected
        # ones (when expected ones are given) and its payload unpickles
        should = len(h) >= 76 and h[:4] == struct.pack("<I", cur) and (not od or h[4:68] == od) and (not oo or h[68:76] == oo) and pay_ok
        if (real == "ok") != bool(should):
            which = "map digest" if od and h[4:68] != od else "options digest" if oo and h[68:76] != oo else "version / length / payload"
            if ctx.violation(f"cache:frompickle:{'accepted-mismatch' if real == 'ok' else 'rejected-match'}",
                             f"fromPickle on a cache file whose header {'does not match' if not should else 'matches'} the expected keys ({which}) "
                             f"-> {real}", {"kind": "frompickle", "map": small_map, "header": h.hex(), "payload_ok": pay_ok,
                                            "orig": None if od is None else od.hex(), "opts": None if oo is None else oo.hex()}):
                found = True
    # ---- fromFile: cached or parsed
    calls = []
    orig_od = roads.Network.__dict__["fromOpenDrive"]

    def counting(cls, *a, **k):
        calls.append(1)
        return net  # parsing stubbed out: only the cache decision is observed here

    def run_fromfile(use_cache, cache_bytes, map_bytes, kwargs, keep_stat=False):
        st = os.stat(path) if keep_stat and os.path.exists(path) else None
        with open(path, "wb") as f:
            f.write(map_bytes)
        if st is not None:  # an in-place rewrite that keeps size-independent metadata (mtime) of the file
            os.utime(path, ns=(st.st_atime_ns, st.st_mtime_ns))
        if cache_bytes is None:
            if os.path.exists(snet):
                os.remove(snet)
        else:
            with open(snet, "wb") as f:
                f.write(cache_bytes)
        del calls[:]
        roads.Network.fromOpenDrive = classmethod(counting)
        try:
            roads.Network.fromFile(path, useCache=use_cache, writeCache=False, **kwargs)
            return "parsed" if calls else "cached"
        except pickle.UnpicklingError:
            return "raised:unpickling"
        except roads.Network.DigestMismatchError:
            return "raised:mismatch"
        except BaseException as e:  # noqa
            ctx.hist("fromfile_other_exception", type(e).__name__)
            return "raised:other"
        finally:
            roads.Network.fromOpenDrive = orig_od

    ff = []
    good_hdr = hdr_v + hdr_d + hdr_o
    other_map = data + b"\n<!-- edited -->\n"

    def cache_for(mapb, kw, version=cur, pay=payload):
        return struct.pack("<I", version) + hashlib.blake2b(mapb).digest() + deterministicHash(kw, digest_size=8) + pay

    kws = [{}, {"tolerance": 0.05}, {"tolerance": 0.051}, {"fill_gaps": False}, {"tolerance": 0.05, "fill_gaps": False}]
    for use_cache in (True, True, True, False):
        for mapb in (data, other_map):
            for kw in kws:
                variants = [None, cache_for(mapb, kw), cache_for(mapb, kw), cache_for(mapb, rng.choice([k for k in kws if k != kw])),
                            cache_for(other_map if mapb is data else data, kw), cache_for(mapb, kw, version=cur + 1),
                            cache_for(mapb, kw, version=cur - 1), cache_for(mapb, kw)[:50], cache_for(mapb, kw)[:76],
                            cache_for(mapb, kw, pay=b"junk"), cache_for(mapb, kw, pay=payload[: len(payload) // 2]),
                            good_hdr[:30] + flip(good_hdr[30:31], 0) + good_hdr[31:] + payload]
                for cache in variants:
                    ff.append((use_cache, cache, mapb, kw))
    rng.shuffle(ff)
    for use_cache, cache, mapb, kw in ff[: B(ctx, 80, 480)]:
        real = run_fromfile(use_cache, cache, mapb, kw)
        d = hashlib.blake2b(mapb).digest()
        o = deterministicHash(kw, digest_size=8)
        if cache is None:
            ch, pay = "none", "ok"
        else:
            ch = cache[:76].hex() or "-"
            pay = "ok" if cache[76:] == payload else "bad"
        lines.append(f"C20 fromfile {'1' if use_cache else '0'} {ch} {pay} {d.hex()} {o.hex()}")
        py.append(real)
        ctx.hist("fromfile_outcome", real)
        # direct oracle: the cache is used iff it exists, useCache, and version / map digest / options digest all match
        should = use_cache and cache is not None and len(cache) >= 76 and cache[:4] == struct.pack("<I", cur) \
            and cache[4:68] == d and cache[68:76] == o and cache[76:] == payload
        if (real == "cached") != bool(should) or real.startswith("raised"):
            why = "map changed" if mapb is not data else "options changed" if cache is not None and cache[68:76] != o else "header"
            if ctx.violation(f"cache:decision:{'stale-used' if real == 'cached' else 'raised' if real.startswith('raised') else 'fresh-ignored'}",
                             f"fromFile(useCache={use_cache}, options={kw}) with a cache whose keys {'match' if should else 'do not match'} ({why}) -> {real}",
                             {"kind": "cache", "use_cache": use_cache, "options": kw, "map_edited": mapb is not data,
                              "cache": None if cache is None else cache[:76].hex(), "payload_ok": cache is not None and cache[76:] == payload,
                              "map": small_map}):
                found = True

    # ---- histories within this process: the map is loaded, then rewritten in place (same size; modification time kept
    # or not), then loaded again with the cache of the *earlier* contents present: the cache key must depend on the
    # contents of the map only, whatever was loaded before from that path
    same_map = same_size_edit(data)
    for a, b2 in ((data, same_map), (same_map, data)):
        for kw in ({}, {"tolerance": 0.05}):
            for keep in (True, False):
                first = run_fromfile(True, cache_for(a, kw), a, kw)
                second = run_fromfile(True, cache_for(a, kw), b2, kw, keep_stat=keep)
                third = run_fromfile(True, cache_for(b2, kw), b2, kw, keep_stat=keep)
                ctx.hist("fromfile_history", f"{first}/{second}/{third}")
                ctx.case({"history": [a is data, keep, sorted(kw.items())]}, nontrivial=True)
                if (first, second, third) != ("cached", "parsed", "cached"):
                    bad = "stale-used" if second == "cached" else "raised" if "raised" in first + second + third else "fresh-ignored"
                    if ctx.violation(f"cache:history:{bad}",
                                     f"load(map A, cache of A) -> {first}; map rewritten in place (same size, mtime {'kept' if keep else 'new'}); "
                                     f"load(map B, cache of A) -> {second} (must be parsed); load(map B, cache of B) -> {third}",
                                     {"kind": "cache-history", "map": small_map, "options": kw, "keep_mtime": keep,
                                      "start_with_original": a is data}):
                        found = True

    # ---- the front of fromFile: spelling of the path (no extension / .xodr / .snet / unknown) x which files exist
    pdir = os.path.join(work, "pathcases")
    os.makedirs(pdir, exist_ok=True)

    def run_frompath(ext, use_cache, map_bytes, cache_bytes, kwargs):
        for fn in os.listdir(pdir):
            os.remove(os.path.join(pdir, fn))
        if map_bytes is not None:
            with open(os.path.join(pdir, "pm.xodr"), "wb") as f:
                f.write(map_bytes)
        if cache_bytes is not None:
            with open(os.path.join(pdir, "pm" + roads.Network.pickledExt), "wb") as f:
                f.write(cache_bytes)
        arg = os.path.join(pdir, "pm" + {"none": "", "map": ".xodr", "pickled": roads.Network.pickledExt, "unknown": ".osm"}[ext])
        del calls[:]
        roads.Network.fromOpenDrive = classmethod(counting)
        try:
            roads.Network.fromFile(arg, useCache=use_cache, writeCache=False, **kwargs)
            return "parsed" if calls else "cached"
        except pickle.UnpicklingError:
            return "raised:unpickling"
        except roads.Network.DigestMismatchError:
            return "raised:mismatch"
        except FileNotFoundError:
            return "raised:notfound"
        except ValueError:
            return "raised:valueerror"
        except BaseException as e:  # noqa
            ctx.hist("frompath_other_exception", type(e).__name__)
            return "raised:other"
        finally:
            roads.Network.fromOpenDrive = orig_od

    pcases = []
    kw0, kw1 = {}, {"tolerance": 0.07}
    for ext in ("none", "map", "pickled", "unknown"):
        for mapb in (None, data, other_map):
            for use_cache in (True, False):
                for kw in (kw0, kw1):
                    m = mapb if mapb is not None else data
                    for cache in (None, cache_for(m, kw), cache_for(m, kw1 if kw is kw0 else kw0), cache_for(other_map if m is data else data, kw),
                                  cache_for(m, kw, version=cur + 1), cache_for(m, kw, pay=payload[: len(payload) // 2]),
                                  cache_for(m, kw)[:40], b""):
                        pcases.append((ext, use_cache, mapb, cache, kw))
    rng.shuffle(pcases)
    for ext, use_cache, mapb, cache, kw in pcases[: B(ctx, 120, 768)]:
        real = run_frompath(ext, use_cache, mapb, cache, kw)
        o = deterministicHash(kw, digest_size=8)
        md = "none" if mapb is None else hashlib.blake2b(mapb).digest().hex()
        if cache is None:
            ch, pay = "none", "ok"
        else:
            ch = cache[:76].hex() or "-"
            pay = "ok" if cache[76:] == payload else "bad"
        lines.append(f"C20 frompath {ext} {'1' if use_cache else '0'} {md} {ch} {pay} {o.hex()}")
        py.append(real)
        ctx.hist("frompath_outcome", f"{ext}:{real}")
        # direct: whenever the map file exists and is the file named (or found for a path without extension), a cache whose
        # keys do not all match is never used
        if ext in ("none", "map") and mapb is not None:
            should = use_cache and cache is not None and len(cache) >= 76 and cache[:4] == struct.pack("<I", cur) \
                and cache[4:68] == hashlib.blake2b(mapb).digest() and cache[68:76] == o and cache[76:] == payload
            if (real == "cached") != bool(should) or real.startswith("raised"):
                if ctx.violation(f"cache:path:{'stale-used' if real == 'cached' else 'raised' if real.startswith('raised') else 'fresh-ignored'}",
                                 f"fromFile(<path with {'no' if ext == 'none' else 'the map'} extension>, useCache={use_cache}, options={kw}) with a cache whose "
                                 f"keys {'match' if should else 'do not match'} -> {real}",
                                 {"kind": "path", "ext": ext, "use_cache": use_cache, "options": kw, "map": small_map,
                                  "map_state": None if mapb is None else ("edited" if mapb is other_map else "original"),
                                  "cache": None if cache is None else cache[:76].hex(), "payload_ok": cache is not None and cache[76:] == payload}):
                    found = True
    with open(path, "wb") as f:
        f.write(data)
    # ---- header written by dumpPickle
    for _ in range(B(ctx, 5, 40)):
        d = bytes(rng.randrange(256) for _ in range(64))
        o = bytes(rng.randrange(256) for _ in range(8))

        class Fake:
            pass
        p2 = os.path.join(work, "hdr.snet")
        roads.Network.dumpPickle(net, p2, d, o)
        lines.append(f"C20 header {d.hex()} {o.hex()}")
        py.append(open(p2, "rb").read()[:76].hex())
    # ---- options digest: preimage from the model, hashed here, vs the real deterministicHash
    def enc_val(v):
        return str(v).encode().hex() or "-" if isinstance(v, (int, float, str)) else "none"

    opt_cases = [{}, {"tolerance": 0.05}, {"tolerance": 0.051}, {"tolerance": 5e-2}, {"fill_gaps": True}, {"fill_gaps": False},
                 {"tolerance": 0.05, "fill_gaps": False, "fill_intersections": True, "elide_short_roads": False, "ref_points": 20},
                 {"ref_points": 20}, {"ref_points": 20.0}, {"ref_points": "20"}, {"a": None}, {"a": (1, 2)}, {"a": [1]},
                 {"b": 1, "a": 2}, {"a": 2, "b": 1}, {"ab": "c"}, {"a": "bc"}, {"a": "b", "c": "d"}, {"a": "b\0Kc\0Vd"},
                 {1: "x", "1": "y"} if False else {"1": "y"}, {"B": 1, "a": 1, "C": 1}, {"tolerance": float("nan")},
                 {"tolerance": -0.0}, {"tolerance": 0}, {"x": True}, {"x": 1}, {"x": "True"}, {"é": "ü"}]
    names = ["tolerance", "fill_gaps", "fill_intersections", "elide_short_roads", "ref_points", "zz", "A"]
    for _ in range(B(ctx, 60, 600)):
        d = {}
        for k in rng.sample(names, rng.randrange(0, 5)):
            d[k] = rng.choice([True, False, 0, 1, 20, 0.05, 0.1, 1e-9, "x", "", None, (1,), 3.0, -1])
        opt_cases.append(d)
    digests = {}
    for d in opt_cases:
        items = list(d.items())
        rng.shuffle(items)
        toks = [f"{str(k).encode().hex() or '-'}={enc_val(v)}" for k, v in items]
        lines.append("C20 opthash " + " ".join(toks))
        real = deterministicHash(dict(items), digest_size=8).hex()
        py.append(("H", real))
        try:
            canon = deterministicHash(dict(sorted(d.items(), key=lambda kv: str(kv[0]))), digest_size=8).hex()
        except Exception:
            canon = real
        if canon != real:  # direct: the same options given in another order must select the same cache
            if ctx.violation("cache:options-digest-order-dependent",
                             f"deterministicHash depends on the order of the options: {dict(items)!r} -> {real}, sorted -> {canon}",
                             {"kind": "opthash-order", "items": [[k, v] for k, v in items if isinstance(v, (int, float, str, bool, type(None)))]}):
                found = True
        digests.setdefault(real, []).append(d)
        ctx.hist("options_case", f"{len(d)}-keys")
    # direct: option sets that build different networks must not share a digest (typed option space of fromOpenDrive)
    typed = []
    for tol in (0.05, 0.051, 0.1, 0, 1, 1e-3):
        for fg in (True, False):
            for rp in (20, 10):
                typed.append({"tolerance": tol, "fill_gaps": fg, "ref_points": rp})
    seen = {}
    for d in typed:
        h = deterministicHash(d, digest_size=8)
        ctx.evaluations += 1
        if h in seen and seen[h] != d:
            if ctx.violation("cache:options-digest-collision", f"different options {seen[h]} and {d} have the same options digest",
                             {"kind": "opthash", "a": seen[h], "b": d}):
                found = True
        seen[h] = d
    out = ctx.driver(lines)
    bad = 0
    for ln, a, b in zip(lines, out, py):
        ctx.case(ln[:300], nontrivial=True)
        if isinstance(b, tuple):
            pre = bytes.fromhex(a) if a != "-" else b""
            a2 = hashlib.blake2b(pre, digest_size=8).hexdigest()
            same = a2 == b[1]
        else:
            same = a == b
        if not same:
            bad += 1
            if bad <= 5:
                ctx.broken("correspondence", "cache model vs roads.py/serialization.py", f"{ln[:160]}: lean={a[:80]} python={b if not isinstance(b, tuple) else b[1]}")
    return found


# ------------------------------------------------------------------------------------------ main
BIG = 800_000  # maps above this size (Town01/02/04/06/07/10HD, Issue295a: 20-60 s of parsing each): one per quick run, rotating with the seed


def make_jobs(ctx):
    """quick: every map below 800 kB and one of the seven bigger maps (rotating with the seed) with default options, one
    non-default option combination for the maps below 300 kB, six mutated maps; thorough: every map, 3-8 option
    combinations each, 48 mutated maps."""
    maps = repo_maps(ctx.repo)
    used, skipped, jobs = [], [], []
    scratch = os.path.join(ctx.tmp, "maps")
    present = [(rel, size) for rel, size in maps if size > 0]
    only = [x for x in os.environ.get("VERIF_C20_MAPS", "").split(",") if x]
    if only:  # experiments only (e.g. mutant runs on a loaded machine): restrict the maps by substring
        present = [(rel, size) for rel, size in present if any(x in rel for x in only)]
        ctx.notes.append(f"VERIF_C20_MAPS={only}: map set restricted by hand")
    skipped = [rel for rel, size in maps if size == 0]
    bigs = [rel for rel, size in present if size >= BIG]
    chosen_big = bigs[ctx.seed % len(bigs)] if bigs else None
    full = B(ctx, 0, 1) == 1
    for rel, size in present:
        if size >= BIG and not full and rel != chosen_big:
            continue
        used.append(rel)
        big = size >= BIG
        jobs.append(dict(repo=ctx.repo, rel=rel, options={}, mutation=None, seed=ctx.seed,
                         npoints=B(ctx, 150 if big else 300, 3500), scratch=os.path.join(scratch, f"j{len(jobs)}"),
                         depth=B(ctx, 250, 10 ** 9)))
        for opts in option_combos(ctx, rel, size):
            jobs.append(dict(repo=ctx.repo, rel=rel, options=opts, mutation=None, seed=ctx.seed,
                             npoints=B(ctx, 100, 1000), scratch=os.path.join(scratch, f"j{len(jobs)}"),
                             depth=B(ctx, 100, 4000)))
    # mutated variants of the smaller maps
    small = [rel for rel, size in present if size < 600_000] or [rel for rel, size in present]
    rng = random.Random(f"{ctx.seed}:mutants")
    kinds = ["drop-lane-links", "perturb-geometry", "perturb-width", "junction-id-zero", "lane-links-at-junctions",
             "drop-connecting-road-links"]
    texts = {}

    def text_of(rel):
        if rel not in texts:
            texts[rel] = load_map_text(ctx.repo, rel, None)
        return texts[rel]

    for k in range(B(ctx, 6, 48)):
        kind = kinds[k % len(kinds)]
        # a map on which the mutation changes something (e.g. one with junctions for the junction mutations)
        for _ in range(8):
            rel = rng.choice(small)
            mseed = rng.randrange(10 ** 6)
            if mutate_xodr(text_of(rel), kind, mseed) != text_of(rel):
                break
        jobs.append(dict(repo=ctx.repo, rel=rel, options={}, mutation={"kind": kind, "seed": mseed},
                         seed=ctx.seed, npoints=B(ctx, 80, 400), scratch=os.path.join(scratch, f"j{len(jobs)}"),
                         depth=B(ctx, 100, 2000)))
    # synthetic chains of roads with interior roads shorter than the tolerance, linked road-to-road on both sides:
    # the only inputs on which elide_short_roads rewrites links through an elided road (no shipped map has one)
    for k in range(B(ctx, 3, 12)):
        cseed = rng.randrange(10 ** 6)
        for opts in ({"elide_short_roads": True}, {}) if k == 0 else ({"elide_short_roads": True},):
            jobs.append(dict(repo=ctx.repo, rel=small[0], options=dict(opts), mutation={"kind": "synthetic-chain", "seed": cseed},
                             seed=ctx.seed, npoints=B(ctx, 40, 200), scratch=os.path.join(scratch, f"j{len(jobs)}"),
                             depth=B(ctx, 50, 500)))
    sizes = dict(maps)
    jobs.sort(key=lambda j: -sizes.get(j["rel"], 0))  # biggest first so the pool is balanced
    return jobs, used, skipped


def run(ctx):
    ctx.rule = ("cases = (map x parser options x parsed/cached) link tables checked by the proved Lean checker; query points "
                "(in lanes, in intersections, in a band of a few tolerances round element boundaries, on shoulders/sidewalks, "
                "far outside, centreline vertices) x 8 lookups compared with the Lean findPointIn on independently computed "
                "containment facts; child/parent polygon pairs; crafted cache headers / option sets; non-trivial = a link table "
                "with more than the network element, a point with at least one element within tolerance, every cache case; "
                "distinct by content hash")
    ctx.assumptions += [
        "geometry (shapely predicates, buffer, STRtree; the OpenDRIVE -> polygon conversion) is explored on the shipped maps, not modelled",
        "a point is skipped (counted as undecided) when some element lies in the band (0.998 tol, tol] or within 1e-9 of its boundary: "
        "point.buffer(tol) is an inscribed polygon, so 'within tolerance' is not decided there",
        "blake2b is collision free on the inputs explored (map digests, option preimages)",
        "pickle/gzip are trusted (the payload of the cache is abstract in the model)",
        "children-in-parent is checked with the code's own construction tolerance (0.5 m); excesses between the network tolerance and 0.5 m are reported in the histogram only",
        "the exporter (tools/props/c20.py export_network) reads the link attributes faithfully (identity of objects, not uids)",
    ]
    ctx.trusted_base += ["tools/translate/roads.py (template extraction)",
                         "tools/props/c20.py (exporter, geometric oracle with shapely distance/intersects, correspondence)"]
    ctx.fingerprint(FINGERPRINTS)
    from translate import roads as troads
    try:
        data = troads.extract()
        ctx.gen("Roads", troads.to_lean(data))
    except TemplateMismatch as e:
        ctx.gen("Roads", troads.to_lean(troads.PINNED))  # never leave the data of an earlier run (e.g. of a mutant) in place
        ctx.escalated.append(f"translator tie lost (roads): {e}")
        ctx.notes.append(f"translator tie lost for roads.py: {e}; relying on the correspondence run at thorough budget")
    pr = ctx.prove(THEOREMS, side_conditions=SIDE)
    if not pr.build_ok:
        # a side condition on the generated data (or a proof) no longer checks.  Failing-input search: run the correspondence
        # against the *reference* model (data of the pinned source = the documented behaviour), so that every point / file on
        # which the current source deviates from it becomes a concrete failing input
        ctx.gen("Roads", troads.to_lean(troads.PINNED))
        rc, log = ctx.lake(["build", "drv_c20"])
        ctx.notes.append("Lean build failed on the data generated from the current source; the correspondence was run against the "
                         "reference model (Gen/Roads.lean = data of the pinned source)" + ("" if rc == 0 else "; the driver could not be rebuilt"))
        if rc != 0:
            ctx.escalated.append("Lean driver does not build")
    if ctx.tier == "thorough" and pr.build_ok:
        ctx.leanchecker(["ScenicModel.Props.C20", "ScenicModel.Props.C20Links", "ScenicModel.Props.C20Lookup",
                         "ScenicModel.Props.C20Cache", "ScenicModel.Props.C20Direction", "ScenicModel.Props.C20Adjacency"])
    found = False
    jobs, used, skipped = make_jobs(ctx)
    ctx.extra["maps_used"] = used
    ctx.extra["maps_skipped_empty"] = skipped
    ctx.notes.append(f"maps used: {len(used)}; skipped because empty in this sandbox: {skipped}; "
                     "the quick tier leaves all but one of the maps above 800 kB to the thorough tier")
    exe = os.path.join(ctx.root, "lean", ".lake", "build", "bin", "drv_c20")
    for j in jobs:
        j["driver"] = exe if (pr.build_ok or os.path.exists(exe)) else None
    results = run_jobs(ctx, jobs)
    ctx.extra["jobs"] = len(jobs)
    ctx.extra["slowest_jobs"] = [[job_key(r["job"]), round(r.get("wall", 0), 1)] for r in sorted(results, key=lambda r: -r.get("wall", 0))[:5]]
    ctx.extra["worst_child_excess_m"] = round(max([r.get("child_worst", 0) for r in results] + [0]), 4)
    if pr.build_ok or os.path.exists(os.path.join(ctx.root, "lean", ".lake", "build", "bin", "drv_c20")):
        labels = rule_labels(ctx)
        nrules = int(ctx.driver(["C20 rules"])[0])
        if nrules != len(labels):
            raise Infra(f"rule labels ({len(labels)}) do not match the driver's rule table ({nrules})")
        found |= evaluate(ctx, results, labels)
        small = next((rel for rel in used if rel.endswith("cubetown.xodr")), used[0] if used else None)
        if small:
            found |= corr_cache(ctx, small)
    else:
        ctx.notes.append("Lean driver unavailable: only the direct oracle ran")
        for r in results:
            for iss in r.get("issues", []):
                if ctx.violation(iss["key"], f"{job_key(r['job'])}: {iss['what']}", replay_of(r["job"], kind="direct", key=iss["key"], **iss["extra"])):
                    found = True
    ctx.resolve_brokens(found)


def replay(ctx, path):
    body = json.load(open(path))
    rep = body.get("replay", body)
    kind = rep.get("kind")
    if kind in ("links", "lookup", "direct", "build", "adj"):
        ctx.driver(["C20 rules"])  # builds the driver if it is missing
        exe = os.path.join(ctx.root, "lean", ".lake", "build", "bin", "drv_c20")
        job = dict(repo=ctx.repo, rel=rep["rel"], options=rep["options"], mutation=rep.get("mutation"), seed=rep.get("seed", 0),
                   npoints=0, scratch=os.path.join(ctx.tmp, "replay"), depth=0, driver=exe)
        if "point" in rep:
            job["points"] = [rep["point"]]
        elif kind == "direct":  # same seed, same budgets -> the same sample / the same child-parent pairs as in the reporting run
            job["npoints"], job["depth"] = rep.get("npoints", 300), rep.get("depth", 10 ** 9)
        r = process_map(job)
        print("status:", r["status"], r.get("error", ""))
        if kind == "build":
            return 1 if r["status"] == "build-failed" else 0
        if r["status"] != "ok":
            return 0
        if kind == "links":
            toks = r["tokens"] if rep.get("which") != "cached" or not isinstance(r.get("tokens_cached"), list) else r["tokens_cached"]
            out = ctx.driver(["C20 links " + " ".join(toks)])[0]
            labels = rule_labels(ctx)
            hit = False
            for rule, elems in links_verdict(out) or []:
                print("rule", rule, labels[rule], "fails at", [r["names"][i] for i in elems if i < len(r["names"])])
                hit |= labels[rule] == rep.get("label")
            return 1 if hit else 0
        if kind == "adj":
            adj = r.get("adj", {})
            keys = list(adj)
            outs = ctx.driver([f"C20 adj 1 {k or '-'}" for k in keys] + [f"C20 order {k or '-'}" for k in keys])
            adj_model = {k: dict(t.split(":", 1) for t in o.split(" ") if ":" in t) for k, o in zip(keys, outs[:len(keys)])}
            order_model = dict(zip(keys, outs[len(keys):]))
            iss = adjacency_issues(adj, adj_model, order_model)
            for key, corr, what, ids, where in iss[:10]:
                print("issue:", key, what)
            return 1 if iss else 0
        if "point" in rep:
            roads = R()
            x, y = rep["point"]
            q = r["points"][0] if r.get("points") else {}
            nm = lambda i: None if i is None else (r["names"][i] if 0 <= i < len(r["names"]) else f"#{i}")
            print("contain the point:", [nm(i) for i in q.get("exact", [])], "within tolerance:", [nm(i) for i in q.get("near", [])],
                  "undecided band:", q.get("und"))
            lookups = ctx.driver(["C20 lookups"])[0].split()
            model = dict(zip(lookups, q["model"].split(","))) if "model" in q else {}
            for name in LOOKUPS:
                mv = model.get(name)
                print(f"{name} -> real {nm(q['real'][name])}; model {nm(None if mv in (None, '-') else int(mv))}")
            print("directions:", {k: (math.degrees(v) if isinstance(v, float) else [math.degrees(a) for a in v]) for k, v in q.get("dirs", {}).items()})
            if kind == "lookup":
                mv = model.get(rep["lookup"])
                if mv is None:
                    return 0
                return 1 if (None if mv == "-" else int(mv)) != q["real"][rep["lookup"]] else 0
        hits = [i for i in r["issues"] if i["key"] == rep.get("key")]
        for iss in hits:
            print("issue:", iss["key"], iss["what"])
        return 1 if hits else 0
    if kind == "path":
        roads = R()
        from scenic.core.serialization import deterministicHash
        work = os.path.join(ctx.tmp, "replay-path")
        os.makedirs(work, exist_ok=True)
        src = os.path.join(work, "src.xodr")
        shutil.copyfile(os.path.join(ctx.repo, rep["map"]), src)
        net = roads.Network.fromFile(src, useCache=False, writeCache=True)
        payload = open(os.path.join(work, "src" + roads.Network.pickledExt), "rb").read()[76:]
        data = open(src, "rb").read()
        mapb = None if rep["map_state"] is None else (data + b"\n<!-- edited -->\n" if rep["map_state"] == "edited" else data)
        pdir = os.path.join(work, "case")
        os.makedirs(pdir, exist_ok=True)
        if mapb is not None:
            open(os.path.join(pdir, "pm.xodr"), "wb").write(mapb)
        if rep["cache"] is not None:
            open(os.path.join(pdir, "pm" + roads.Network.pickledExt), "wb").write(
                bytes.fromhex(rep["cache"]) + (payload if rep["payload_ok"] else b"junk"))
        arg = os.path.join(pdir, "pm" + {"none": "", "map": ".xodr", "pickled": roads.Network.pickledExt, "unknown": ".osm"}[rep["ext"]])
        calls = []
        orig_od = roads.Network.__dict__["fromOpenDrive"]
        roads.Network.fromOpenDrive = classmethod(lambda cls, *a, **k: (calls.append(1), net)[1])
        try:
            roads.Network.fromFile(arg, useCache=rep["use_cache"], writeCache=False, **rep["options"])
            real = "parsed" if calls else "cached"
        except BaseException as e:  # noqa
            real = "raised " + type(e).__name__
        finally:
            roads.Network.fromOpenDrive = orig_od
        cache = None if rep["cache"] is None else bytes.fromhex(rep["cache"])
        cur = roads.Network._currentFormatVersion()
        should = bool(rep["use_cache"] and mapb is not None and cache is not None and len(cache) >= 76 and rep["payload_ok"]
                      and cache[:4] == struct.pack("<I", cur) and cache[4:68] == hashlib.blake2b(mapb).digest()
                      and cache[68:76] == deterministicHash(rep["options"], digest_size=8))
        print(f"fromFile(<{rep['ext']} path>, useCache={rep['use_cache']}, options={rep['options']}) -> {real}; cache keys match: {should}")
        return 1 if (real == "cached") != should or real.startswith("raised") else 0
    if kind == "cache":
        roads = R()
        from scenic.core.serialization import deterministicHash
        work = os.path.join(ctx.tmp, "replay-cache")
        os.makedirs(work, exist_ok=True)
        path = os.path.join(work, "m.xodr")
        shutil.copyfile(os.path.join(ctx.repo, rep["map"]), path)
        snet = os.path.join(work, "m" + roads.Network.pickledExt)
        net = roads.Network.fromFile(path, useCache=False, writeCache=True)
        payload = open(snet, "rb").read()[76:]
        data = open(path, "rb").read()
        mapb = data + b"\n<!-- edited -->\n" if rep["map_edited"] else data
        with open(path, "wb") as f:
            f.write(mapb)
        if rep["cache"] is None:
            os.remove(snet)
        else:
            with open(snet, "wb") as f:
                f.write(bytes.fromhex(rep["cache"]) + (payload if rep["payload_ok"] else b"junk"))
        calls = []
        orig_od = roads.Network.__dict__["fromOpenDrive"]
        roads.Network.fromOpenDrive = classmethod(lambda cls, *a, **k: (calls.append(1), net)[1])
        try:
            roads.Network.fromFile(path, useCache=rep["use_cache"], writeCache=False, **rep["options"])
            real = "parsed" if calls else "cached"
        except BaseException as e:  # noqa
            real = "raised " + type(e).__name__
        finally:
            roads.Network.fromOpenDrive = orig_od
        cache = None if rep["cache"] is None else bytes.fromhex(rep["cache"])
        cur = roads.Network._currentFormatVersion()
        should = bool(rep["use_cache"] and cache is not None and len(cache) >= 76 and rep["payload_ok"]
                      and cache[:4] == struct.pack("<I", cur) and cache[4:68] == hashlib.blake2b(mapb).digest()
                      and cache[68:76] == deterministicHash(rep["options"], digest_size=8))
        print(f"fromFile(useCache={rep['use_cache']}, options={rep['options']}) -> {real}; cache keys match: {should}")
        return 1 if (real == "cached") != should or real.startswith("raised") else 0
    if kind == "cache-history":
        roads = R()
        from scenic.core.serialization import deterministicHash
        work = os.path.join(ctx.tmp, "replay-cache-history")
        os.makedirs(work, exist_ok=True)
        path = os.path.join(work, "m.xodr")
        shutil.copyfile(os.path.join(ctx.repo, rep["map"]), path)
        snet = os.path.join(work, "m" + roads.Network.pickledExt)
        net = roads.Network.fromFile(path, useCache=False, writeCache=True)
        payload = open(snet, "rb").read()[76:]
        data = open(path, "rb").read()
        a, b2 = (data, same_size_edit(data)) if rep["start_with_original"] else (same_size_edit(data), data)
        kw = rep["options"]
        cur = roads.Network._currentFormatVersion()
        calls = []
        orig_od = roads.Network.__dict__["fromOpenDrive"]
        out = []
        for mapb, cached_for, keep in ((a, a, False), (b2, a, rep["keep_mtime"]), (b2, b2, rep["keep_mtime"])):
            st = os.stat(path) if keep else None
            with open(path, "wb") as f:
                f.write(mapb)
            if st is not None:
                os.utime(path, ns=(st.st_atime_ns, st.st_mtime_ns))
            with open(snet, "wb") as f:
                f.write(struct.pack("<I", cur) + hashlib.blake2b(cached_for).digest() + deterministicHash(kw, digest_size=8) + payload)
            del calls[:]
            roads.Network.fromOpenDrive = classmethod(lambda cls, *x, **k: (calls.append(1), net)[1])
            try:
                roads.Network.fromFile(path, useCache=True, writeCache=False, **kw)
                out.append("parsed" if calls else "cached")
            except BaseException as e:  # noqa
                out.append("raised " + type(e).__name__)
            finally:
                roads.Network.fromOpenDrive = orig_od
        print(f"load(A, cache of A) / rewrite in place / load(B, cache of A) / load(B, cache of B) -> {out}; expected ['cached', 'parsed', 'cached']")
        return 0 if out == ["cached", "parsed", "cached"] else 1
    if kind == "frompickle":
        roads = R()
        work = os.path.join(ctx.tmp, "replay-frompickle")
        os.makedirs(work, exist_ok=True)
        src = os.path.join(work, "m.xodr")
        shutil.copyfile(os.path.join(ctx.repo, rep["map"]), src)
        roads.Network.fromFile(src, useCache=False, writeCache=True)
        payload = open(os.path.join(work, "m" + roads.Network.pickledExt), "rb").read()[76:]
        h = bytes.fromhex(rep["header"])
        od = None if rep["orig"] is None else bytes.fromhex(rep["orig"])
        oo = None if rep["opts"] is None else bytes.fromhex(rep["opts"])
        f2 = os.path.join(work, "crafted.snet")
        open(f2, "wb").write(h if len(h) < 76 else h + (payload if rep["payload_ok"] else payload[: len(payload) // 2] + b"garbage"))
        try:
            roads.Network.fromPickle(f2, originalDigest=od, optionsDigest=oo)
            real = "ok"
        except BaseException as e:  # noqa
            real = type(e).__name__
        cur = roads.Network._currentFormatVersion()
        should = bool(len(h) >= 76 and h[:4] == struct.pack("<I", cur) and (not od or h[4:68] == od) and (not oo or h[68:76] == oo)
                      and rep["payload_ok"])
        print(f"fromPickle(header {h[:4].hex()}|{h[4:68].hex()[:16]}…|{h[68:76].hex()}, expected digests given: {bool(od)}/{bool(oo)}) -> {real}; "
              f"keys match: {should}")
        return 1 if (real == "ok") != should else 0
    if kind == "opthash-order":
        from scenic.core.serialization import deterministicHash
        items = [(k, v) for k, v in rep["items"]]
        a = deterministicHash(dict(items), digest_size=8)
        b = deterministicHash(dict(sorted(items, key=lambda kv: str(kv[0]))), digest_size=8)
        print(dict(items), a.hex(), "sorted:", b.hex())
        return 1 if a != b else 0
    if kind == "opthash":
        from scenic.core.serialization import deterministicHash
        a, b = deterministicHash(rep["a"], digest_size=8), deterministicHash(rep["b"], digest_size=8)
        print(rep["a"], a.hex(), rep["b"], b.hex())
        return 1 if a == b else 0
    print(json.dumps(rep, indent=1)[:3000])
    return 0
