"""C03 — positions drawn in/on a region lie in it, reach all of it, and are uniformly distributed.

Proof:  lean/ScenicModel/Props/C03.lean (+ C03Geo.lean): uniformity/membership/support of the point-set,
        union, intersection, difference, point-set-x-region, polyline and polygon samplers on the atomic
        model, membership theorems for the closed-form samplers, soundness of the candidate balls,
        instantiated on data regenerated from regions.py by translate/regionsampling.py.
Tie:    (T) translate/regionsampling.py;
        (C1) exact PMFs of discrete regions and their compositions, obtained from the real samplers by
             enumerating every RNG outcome, against the PMF computed by the Lean model;
        (C2) the closed-form samplers: the recorded random draws of real samples are fed to the Lean maps
             and the points compared; the draw arguments are checked against the theorems' hypotheses;
        (C3) circumcircles of real regions against the Lean formulas.
Search: (S) the property itself on the real code: every sample of every region kind and pairwise composition
        is tested for membership (exact rational oracles where available, three-valued), the samplers must
        not crash, every cell of positive measure must be reachable and a chi-square test against an
        independent reference sampler must not reject uniformity (fixed seeds, p < 1e-6).
"""
import json
import math
import random
import sys
import time
import traceback
from fractions import Fraction

from vlib.ctx import Infra, TemplateMismatch

THEOREMS = [
    "Scenic.C03.pointset_uniform",
    "Scenic.C03.pointset_multiplicity",
    "Scenic.C03.union_uniform",
    "Scenic.C03.union_support",
    "Scenic.C03.union_lowdim_ignored",
    "Scenic.C03.union_without_rejection_not_uniform",
    "Scenic.C03.union_unit_weights_not_uniform",
    "Scenic.C03.union_support_general",
    "Scenic.C03.union_self_test_loses_support",
    "Scenic.C03.grid_operand_exact",
    "Scenic.C03.grid_cell_membership_not_uniform",
    "Scenic.C03.intersection_needs_self_recognition",
    "Scenic.C03.intersection_uniform",
    "Scenic.C03.intersection_prim_uniform",
    "Scenic.C03.difference_uniform",
    "Scenic.C03.difference_prim_uniform",
    "Scenic.C03.pointset_inter_uniform_iff",
    "Scenic.C03.pointset_inter_uniform",
    "Scenic.C03.small_ball_loses_points",
    "Scenic.C03.pointset_inter_guarded_uniform",
    "Scenic.C03.pointset_inter_true_membership",
    "Scenic.C03.pointset_inter_containsPoint_leaks",
    "Scenic.C03.evalInstr_contains",
    "Scenic.C03.composed_true_membership",
    "Scenic.C03.nested_difference_membership",
    "Scenic.C03.composed_footprint_membership_leaks",
    "Scenic.C03.segments_mass",
    "Scenic.C03.segments_uniform",
    "Scenic.C03.segments_overlap_doubled",
    "Scenic.C03.rejection_loop_limit",
    "Scenic.C03.rejection_ratio_bounds",
    "Scenic.C03.polygon_uniform",
    "Scenic.C03.retry_loop_mass",
    "Scenic.C03.polygon_filtered_uniform",
    "Scenic.C03.polygon_unfiltered_leaks",
    "Scenic.C03.outer_rejection_uniform",
    "Scenic.C03.rect_sample_mem",
    "Scenic.C03.rect_sample_surj",
    "Scenic.C03.rect_sample_isometry",
    "Scenic.C03.disc_sample_mem",
    "Scenic.C03.sector_sample_mem",
    "Scenic.C03.segment_sample_mem",
    "Scenic.C03.segment_sample_linear",
    "Scenic.C03.polyline_sample_mem",
    "Scenic.C03.voxel_sample_mem",
    "Scenic.C03.uniformAB_mem",
    "Scenic.C03.poly_candidate_mem",
    "Scenic.C03.z_zero_breaks_membership",
    "Scenic.C03.polygon_true_membership_z",
    "Scenic.C03.polygon_candidate_recognised",
    "Scenic.C03.footprint_membership_ignores_z",
    "Scenic.C03.polyline_recognises_own_samples",
    "Scenic.C03.polyline_exact_test_rejects_rounding",
    "Scenic.C03.triangular_radius_area_uniform",
    "Scenic.C03.uniform_radius_not_area_uniform",
    "Scenic.C03.sector_circumcircle_sound",
    "Scenic.C03.old_sector_formula_unsound",
    "Scenic.C03.disc_circumcircle_sound",
    "Scenic.C03.rect_circumcircle_sound",
    "Scenic.C03.mesh_circumball_sound",
]
SIDE = ["Scenic.C03.gen_sampler_cfg", "Scenic.C03.gen_ball_filter", "Scenic.C03.gen_ball_fallback", "Scenic.C03.gen_z_table",
        "Scenic.C03.gen_sector_circ_ok", "Scenic.C03.gen_circ_table", "Scenic.C03.gen_polygon_filter", "Scenic.C03.gen_membership"]

R = "src/scenic/core/regions.py"
FINGERPRINTS = {
    "Intersection.genericSampler": (R, "IntersectionRegion.genericSampler"),
    "Intersection.uniformPointInner": (R, "IntersectionRegion.uniformPointInner"),
    "Union.genericSampler": (R, "UnionRegion.genericSampler"),
    "Union.uniformPointInner": (R, "UnionRegion.uniformPointInner"),
    "Difference.genericSampler": (R, "DifferenceRegion.genericSampler"),
    "Difference.uniformPointInner": (R, "DifferenceRegion.uniformPointInner"),
    "PointSet.uniformPointInner": (R, "PointSetRegion.uniformPointInner"),
    "PointSet.intersect": (R, "PointSetRegion.intersect"),
    "PointSet.containsPoint": (R, "PointSetRegion.containsPoint"),
    "Grid": (R, "GridRegion"),
    "PointInRegionDistribution": (R, "PointInRegionDistribution"),
    "Region.uniformPointIn": (R, "Region.uniformPointIn"),
    "Region.orient": (R, "Region.orient"),
    "veneer.In": ("src/scenic/syntax/veneer.py", "In"),
    "veneer.On": ("src/scenic/syntax/veneer.py", "On"),
    "Polygonal.uniformPointInner": (R, "PolygonalRegion.uniformPointInner"),
    "Polygonal._samplingData": (R, "PolygonalRegion._samplingData"),
    "Polygonal._trueContainsPoint": (R, "PolygonalRegion._trueContainsPoint"),
    "Polygonal.intersect": (R, "PolygonalRegion.intersect"),
    "Polygonal.union": (R, "PolygonalRegion.union"),
    "Polygonal.difference": (R, "PolygonalRegion.difference"),
    "Circular.uniformPointInner": (R, "CircularRegion.uniformPointInner"),
    "Circular.__init__": (R, "CircularRegion.__init__"),
    "Sector.uniformPointInner": (R, "SectorRegion.uniformPointInner"),
    "Sector._makeCircumcircle": (R, "SectorRegion._makeCircumcircle"),
    "Sector.__init__": (R, "SectorRegion.__init__"),
    "Rectangular.uniformPointInner": (R, "RectangularRegion.uniformPointInner"),
    "Rectangular.__init__": (R, "RectangularRegion.__init__"),
    "Polyline.uniformPointInner": (R, "PolylineRegion.uniformPointInner"),
    "Polyline.__init__": (R, "PolylineRegion.__init__"),
    "Polyline.containsPoint": (R, "PolylineRegion.containsPoint"),
    "Path.uniformPointInner": (R, "PathRegion.uniformPointInner"),
    "Path.__init__": (R, "PathRegion.__init__"),
    "Voxel.uniformPointInner": (R, "VoxelRegion.uniformPointInner"),
    "MeshVolume.uniformPointInner": (R, "MeshVolumeRegion.uniformPointInner"),
    "MeshSurface.uniformPointInner": (R, "MeshSurfaceRegion.uniformPointInner"),
    "Mesh.circumcircle": (R, "MeshRegion.circumcircle"),
    "triangulatePolygon_mapbox": ("src/scenic/core/geometry.py", "triangulatePolygon_mapbox"),
    "averageVectors": ("src/scenic/core/geometry.py", "averageVectors"),
    "Vector.rotatedBy": ("src/scenic/core/vectors.py", "Vector.rotatedBy"),
    "Vector.offsetRotated": ("src/scenic/core/vectors.py", "Vector.offsetRotated"),
}


def F(x):
    """exact rational of a float/int/numpy scalar"""
    return Fraction(float(x)) if not isinstance(x, (int, Fraction)) else Fraction(x)


def fr(x):
    q = F(x)
    return f"{q.numerator}/{q.denominator}"


def snap(x, den=10 ** 6):
    """a float that is (within rounding) a small rational -> that rational (1 - 1/3 -> 2/3)"""
    q = F(x)
    s = q.limit_denominator(den)
    return s if abs(s - q) <= Fraction(1, 10 ** 12) else q


# =========================================================================================== RNG control
class NotDiscrete(Exception):
    """the sampler drew a continuous value: outside the exactly enumerable fragment"""


class _U:
    """value of random.random() under enumeration: only comparisons with a threshold are allowed"""

    def __init__(self, en):
        self.en = en

    def _lt(self, t):
        p = min(max(snap(t), Fraction(0)), Fraction(1))
        return self.en.decide([p, 1 - p]) == 0

    def __lt__(self, t):
        return self._lt(t)

    def __le__(self, t):
        return self._lt(t)

    def __gt__(self, t):
        return not self._lt(t)

    def __ge__(self, t):
        return not self._lt(t)

    def _no(self, *a, **k):
        raise NotDiscrete("arithmetic on random.random()")

    __add__ = __radd__ = __mul__ = __rmul__ = __sub__ = __rsub__ = __truediv__ = __rtruediv__ = __float__ = _no


class Enumerator:
    """depth-first enumeration of every RNG outcome of a callable, with exact probabilities"""

    def __init__(self):
        self.prefix = []
        self.trace = []

    def decide(self, probs):
        opts = [i for i, p in enumerate(probs) if p > 0]
        k = len(self.trace)
        j = self.prefix[k] if k < len(self.prefix) else 0
        self.trace.append((j, opts, probs))
        return opts[j]

    # patched functions
    def randrange(self, a, b=None):
        lo, hi = (0, a) if b is None else (a, b)
        n = hi - lo
        return lo + self.decide([Fraction(1, n)] * n)

    def choice(self, seq):
        return seq[self.decide([Fraction(1, len(seq))] * len(seq))]

    def choices(self, population, weights=None, *, cum_weights=None, k=1):
        population = list(population)
        if k != 1:
            raise NotDiscrete("choices with k != 1")
        if cum_weights is not None:
            cw = [snap(w, 10 ** 9) for w in cum_weights]
            ws = [cw[0]] + [cw[i] - cw[i - 1] for i in range(1, len(cw))]
        elif weights is not None:
            ws = [snap(w, 10 ** 9) for w in weights]
        else:
            ws = [Fraction(1)] * len(population)
        tot = sum(ws)
        if tot <= 0:
            raise ValueError("Total of weights must be greater than zero")
        return [population[self.decide([w / tot for w in ws])]]

    def random(self):
        return _U(self)

    def cont(self, *a, **k):
        raise NotDiscrete("continuous draw")

    def run_all(self, f, max_paths=20000):
        import numpy
        saved = {n: getattr(random, n) for n in ("random", "uniform", "triangular", "choices", "choice", "randrange",
                                                 "randint", "gauss", "normalvariate", "betavariate", "expovariate",
                                                 "sample", "shuffle")}
        np_saved = numpy.random.random_sample
        random.random, random.choices, random.choice, random.randrange = self.random, self.choices, self.choice, self.randrange
        random.randint = lambda a, b: self.randrange(a, b + 1)
        for n in ("uniform", "triangular", "gauss", "normalvariate", "betavariate", "expovariate", "sample", "shuffle"):
            setattr(random, n, self.cont)
        numpy.random.random_sample = self.cont
        out = []
        try:
            self.prefix = []
            while True:
                self.trace = []
                res = f()
                p = Fraction(1)
                for j, opts, probs in self.trace:
                    p *= probs[opts[j]]
                out.append((p, res))
                if len(out) > max_paths:
                    raise NotDiscrete("too many RNG paths")
                pref = [(j, len(opts)) for j, opts, _ in self.trace]
                while pref and pref[-1][0] + 1 >= pref[-1][1]:
                    pref.pop()
                if not pref:
                    return out
                pref[-1] = (pref[-1][0] + 1, pref[-1][1])
                self.prefix = [j for j, _ in pref]
        finally:
            for n, v in saved.items():
                setattr(random, n, v)
            numpy.random.random_sample = np_saved


class Recorder(random.Random):
    """random.Random whose raw uniform draws are logged; installed as the module-level functions of `random`
    so that the stdlib's own uniform/triangular/choices code runs on recorded draws"""

    def __init__(self, seed):
        super().__init__(seed)
        self.log = []
        self.raw = []

    def random(self):
        u = super().random()
        self.raw.append(u)
        return u

    def install(self):
        import numpy
        self._saved = {n: getattr(random, n) for n in ("random", "uniform", "triangular", "choices", "choice", "randrange", "randint")}
        self._np_saved = numpy.random.random_sample
        rec = self

        def wrap(name):
            fn = getattr(rec, name)

            def g(*a, **k):
                n0 = len(rec.raw)
                r = fn(*a, **k)
                rec.log.append((name, a, k, list(rec.raw[n0:]), r))
                return r
            return g
        for n in self._saved:
            setattr(random, n, wrap(n))
        nprng = numpy.random.RandomState(self.getrandbits(32))

        def rs(size=None):
            r = nprng.random_sample(size)
            rec.log.append(("np.random_sample", (size,), {}, [], r))
            return r
        numpy.random.random_sample = rs

    def uninstall(self):
        import numpy
        for n, v in self._saved.items():
            setattr(random, n, v)
        numpy.random.random_sample = self._np_saved


def seed_all(ctx):
    import numpy
    s = ctx.rng.getrandbits(32)
    random.seed(s)
    numpy.random.seed(s)


# =========================================================================================== real code access
def real():
    import scenic  # noqa: F401
    from scenic.core import regions as RG
    return RG


def vec(p):
    from scenic.core.vectors import Vector
    return Vector(*[float(c) for c in p])


def pkey(p):
    return tuple(float(c) for c in p)


# =========================================================================================== (C1) discrete fragment
LATTICE = [(x, y, z) for x in range(4) for y in range(4) for z in (0, 0, 1)]


def gen_pointset(rng, RG, name="ps", flat=False, nmax=7):
    pts = [p for p in LATTICE if (not flat or p[2] == 0)]
    k = rng.randint(2, nmax)
    chosen = list(dict.fromkeys(rng.sample(pts, k)))
    if rng.random() < 0.3:
        chosen = [(x, y) for x, y, z in chosen if z == 0] or [(0, 0)]
    return RG.PointSetRegion(name, chosen)


def gen_grid(rng, RG):
    w, h = rng.randint(2, 4), rng.randint(2, 4)
    g = [[1 if rng.random() < 0.4 else 0 for _ in range(w)] for _ in range(h)]
    if all(all(c == 1 for c in row) for row in g):
        g[0][0] = 0
    ax, ay = rng.choice([(1, 1), (1, 2), (2, 1), (1, 1)])
    return RG.GridRegion("grid", g, ax, ay, rng.randint(0, 2), rng.randint(0, 1))


def gen_opaque(rng, RG, kinds=None):
    """a continuous region used as a containment predicate (and candidate ball) only"""
    from scenic.core.vectors import Vector
    kinds = kinds or ["circle", "sector", "sector_wide", "rect", "box", "spheroid", "polygon", "polyline", "path", "surface"]
    k = rng.choice(kinds)
    cx, cy = rng.choice([1.37, 2.21, 2.63, 0.44]), rng.choice([1.59, 2.13, 0.71, 3.3])
    z = rng.choice([0, 0, 1])
    if k == "circle":
        return k, RG.CircularRegion(Vector(cx, cy, z), rng.choice([0.9, 1.7, 2.45, 3.3]))
    if k == "sector":
        return k, RG.SectorRegion(Vector(cx, cy, z), rng.choice([1.7, 2.45, 3.3, 4.9]), rng.uniform(-3, 3), rng.choice([0.5, 1.0, 1.6, 2.0]))
    if k == "sector_wide":
        return k, RG.SectorRegion(Vector(cx, cy, z), rng.choice([1.7, 2.45, 3.3, 4.9]), rng.uniform(-3, 3), rng.choice([2.2, math.pi, 4.0, 5.5, math.tau]))
    if k == "rect":
        return k, RG.RectangularRegion(Vector(cx, cy, z), rng.uniform(-3, 3), rng.choice([1.3, 2.7, 3.9]), rng.choice([1.1, 2.3, 4.7]))
    if k == "box":
        return k, RG.BoxRegion(dimensions=(rng.choice([1.3, 2.7, 3.9]), rng.choice([1.1, 2.3, 4.7]), rng.choice([0.5, 2.5])), position=Vector(cx, cy, z * 0.6))
    if k == "spheroid":
        return k, RG.SpheroidRegion(dimensions=(rng.choice([2.3, 3.7, 4.9]), rng.choice([2.1, 3.3, 4.7]), rng.choice([1.5, 2.5])), position=Vector(cx, cy, z * 0.6))
    if k == "polygon":
        return k, RG.PolygonalRegion([(cx - 1.6, cy - 1.2), (cx + 1.9, cy - 0.8), (cx + 1.1, cy + 1.7), (cx - 0.9, cy + 1.3)], z=z)
    if k == "polyline":
        return k, RG.PolylineRegion([(0, 0), (2, 0), (2, 3), (4, 3)])
    if k == "path":
        return k, RG.PathRegion(points=[(0, 0, 0), (2, 0, 0), (2, 3, 1), (4, 3, 1)])
    if k == "surface":
        return k, RG.BoxRegion(dimensions=(2, 2, 2), position=Vector(1, 1, 0)).getSurfaceRegion()
    raise ValueError(k)


class Reflect:
    """real region tree -> straight-line program for the Lean model"""

    def __init__(self, RG, lean_inball):
        self.RG = RG
        self.instrs = []
        self.index = {}
        self.universe = {}
        self.lean_inball = lean_inball   # callable (center, radius, points) -> list of bool, decided by the Lean model
        self.borderline = 0
        self.pending = []

    def collect_points(self, reg):
        RG = self.RG
        if isinstance(reg, RG.PointSetRegion):
            for p in reg.points:
                self.universe.setdefault(pkey(p), len(self.universe))
        for sub in getattr(reg, "regions", ()):
            self.collect_points(sub)
        if isinstance(reg, RG.DifferenceRegion):
            self.collect_points(reg.regionA)
            self.collect_points(reg.regionB)

    def ids(self, pts):
        return [self.universe[pkey(p)] for p in pts]

    def members(self, reg, how="true"):
        if how == "true":
            f = reg._trueContainsPoint
        elif how == "pt":
            f = reg.containsPoint
        else:
            f = self.RG.convertToFootprint(reg).containsPoint
        return [i for p, i in self.universe.items() if bool(f(vec(p)))]

    @staticmethod
    def lst(ids):
        return ",".join(map(str, ids)) if ids else "-"

    def emit(self, reg):
        RG = self.RG
        if id(reg) in self.index:
            return self.index[id(reg)]
        if isinstance(reg, RG.PointSetRegion):
            ins = f"P {self.lst(self.ids(reg.points))} {self.lst(self.members(reg))}"
        elif isinstance(reg, RG.IntersectionRegion) and reg.sampler is None:
            ins = "I " + self.lst([self.emit(r) for r in reg.regions])
        elif isinstance(reg, RG.IntersectionRegion):
            ps, o = reg.regions[0], reg.regions[1]
            if not isinstance(ps, RG.PointSetRegion) or len(reg.regions) != 2:
                raise NotDiscrete("unknown specialised intersection sampler")
            a, b = self.emit(ps), self.emit(o)
            if hasattr(o, "circumcircle"):
                center, radius = o.circumcircle
                inb = self.lean_inball(self, ps, center, radius)
                ins = f"B {a} {self.lst([i for i, f in zip(self.ids(ps.points), inb) if f])} {b}"
            else:   # no candidate ball: the model applies the regenerated fallback (all points | AttributeError)
                ins = f"B {a} N {b}"
        elif isinstance(reg, RG.UnionRegion) and reg.sampler is None:
            ins = "U " + self.lst([self.emit(r) for r in reg.regions])
        elif isinstance(reg, RG.DifferenceRegion) and reg.sampler is None:
            ins = f"D {self.emit(reg.regionA)} {self.emit(reg.regionB)}"
        elif isinstance(reg, (RG.IntersectionRegion, RG.UnionRegion, RG.DifferenceRegion)):
            raise NotDiscrete("composite with an unknown sampler")
        else:
            d, s = reg.dimensionality, reg.size
            ds = "N" if d is None or d == float("inf") else str(int(d))
            ss = "N" if s is None or s == float("inf") else fr(s)
            ins = f"O {ds} {ss} {self.lst(self.members(reg))} {self.lst(self.members(reg, 'pt'))} {self.lst(self.members(reg, 'fp'))}"
        self.instrs.append(ins)
        self.index[id(reg)] = len(self.instrs) - 1
        return len(self.instrs) - 1

    def line(self):
        return "C03 prog " + " ; ".join(self.instrs)


def describe(reg, RG):
    if isinstance(reg, RG.PointSetRegion):
        return f"{type(reg).__name__}{[tuple(int(c) if float(c).is_integer() else float(c) for c in p) for p in reg.points]}"
    if isinstance(reg, (RG.IntersectionRegion, RG.UnionRegion)):
        tag = "ball" if getattr(reg, "sampler", None) else ""
        return f"{type(reg).__name__[:5]}{tag}(" + ", ".join(describe(r, RG) for r in reg.regions) + ")"
    if isinstance(reg, RG.DifferenceRegion):
        return f"Diff({describe(reg.regionA, RG)}, {describe(reg.regionB, RG)})"
    return repr(reg)[:90]


def real_pmf(reg, RG, universe):
    """exact PMF of reg.uniformPointInner() by enumerating all RNG outcomes"""
    from scenic.core.distributions import RejectionException

    def once():
        try:
            k = pkey(reg.uniformPointInner())
            if k not in universe:
                raise NotDiscrete("a point outside the finite universe was drawn (numpy/trimesh randomness)")
            return ("pt", k)
        except RejectionException:
            return ("reject",)
        except RG.UndefinedSamplingException:
            return ("undef",)
        except NotDiscrete:
            raise
        except Exception as e:  # any other exception class escaping a sampler
            return ("crash", type(e).__name__, str(e)[:120])
    paths = Enumerator().run_all(once)
    pmf = {}
    for p, res in paths:
        pmf[res] = pmf.get(res, 0) + p
    return pmf, len(paths)


def gen_discrete_case(rng, RG):
    """returns (spec description, builder) ; builder() constructs the real region (may raise)"""
    shape = rng.choice(["ps", "grid", "ps&ps", "ps&ps&ps", "ps|ps", "ps|ps|ps", "ps-ps", "ps&cont", "cont&ps", "ps-cont",
                        "grid&ps", "ps&grid", "grid|ps", "grid-ps", "ps-grid", "I3", "U3", "I(U,ps)", "I(ps,U)", "D(I,ps)",
                        "D(ps,I)", "I(D,ps)", "D(ps,U)", "I(ball,ps)", "D(ball,cont)", "ps|cont", "U(ps,grid,ps)", "I(ps,cont,ps)",
                        "D(U,ps)", "I(ps,U(ps,cont))", "D(ps,I(ps,cont))", "I(ps,D(ps,cont))", "D(ps,D(cont,ps))"])
    P = lambda n="ps", **k: gen_pointset(rng, RG, n, **k)
    G = lambda: gen_grid(rng, RG)
    C = lambda **k: gen_opaque(rng, RG, **k)[1]
    if shape == "ps":
        return shape, P()
    if shape == "grid":
        return shape, G()
    if shape == "ps&ps":
        return shape, P().intersect(P("q"))
    if shape == "ps&ps&ps":
        return shape, P().intersect(P("q")).intersect(P("r"))
    if shape == "ps|ps":
        return shape, P().union(P("q"))
    if shape == "ps|ps|ps":
        return shape, RG.UnionRegion(P(), P("q"), P("r"))
    if shape == "ps-ps":
        return shape, P().difference(P("q"))
    if shape == "ps&cont":
        return shape, P(nmax=12).intersect(C())
    if shape == "cont&ps":
        return shape, C().intersect(P(nmax=12))
    if shape == "ps-cont":
        return shape, P(nmax=10).difference(C())
    if shape == "grid&ps":
        return shape, G().intersect(P(flat=True))
    if shape == "ps&grid":
        return shape, P().intersect(G())
    if shape == "grid|ps":
        return shape, G().union(P(flat=True))
    if shape == "grid-ps":
        return shape, G().difference(P(flat=True))
    if shape == "ps-grid":
        return shape, P().difference(G())
    if shape == "I3":
        return shape, RG.IntersectionRegion(P(), P("q"), P("r"))
    if shape == "U3":
        return shape, RG.UnionRegion(P(), P("q"), G())
    if shape == "I(U,ps)":
        return shape, RG.IntersectionRegion(RG.UnionRegion(P(), P("q")), P("r"))
    if shape == "I(ps,U)":
        return shape, RG.IntersectionRegion(P("r"), RG.UnionRegion(P(), P("q")))
    if shape == "D(I,ps)":
        return shape, RG.DifferenceRegion(RG.IntersectionRegion(P(), P("q")), P("r"))
    if shape == "D(ps,I)":
        return shape, RG.DifferenceRegion(P("r"), RG.IntersectionRegion(P(), P("q")))
    if shape == "I(D,ps)":
        return shape, RG.IntersectionRegion(RG.DifferenceRegion(P(), P("q")), P("r"))
    if shape == "D(ps,U)":
        return shape, RG.DifferenceRegion(P("r"), RG.UnionRegion(P(), P("q")))
    if shape == "I(ball,ps)":
        return shape, RG.IntersectionRegion(P(nmax=12).intersect(C(kinds=["circle", "sector", "sector_wide", "rect", "box", "spheroid"])), P("q", nmax=12))
    if shape == "D(ball,cont)":
        return shape, RG.DifferenceRegion(P(nmax=12).intersect(C(kinds=["circle", "sector", "sector_wide", "rect", "box", "spheroid"])), C())
    if shape == "ps|cont":
        return shape, P().union(C())
    if shape == "U(ps,grid,ps)":
        return shape, RG.UnionRegion(P(flat=True), G(), P("q", flat=True))
    if shape == "I(ps,cont,ps)":
        return shape, RG.IntersectionRegion(P(nmax=12), C(), P("q", nmax=12))
    if shape == "D(U,ps)":
        return shape, RG.DifferenceRegion(RG.UnionRegion(P(), P("q")), P("r"))
    PLANAR = ["circle", "sector", "sector_wide", "rect", "polygon", "box", "spheroid"]
    if shape == "I(ps,U(ps,cont))":
        return shape, RG.IntersectionRegion(P(nmax=12), RG.UnionRegion(P("q", nmax=3), C(kinds=PLANAR)))
    if shape == "D(ps,I(ps,cont))":
        return shape, RG.DifferenceRegion(P(nmax=12), RG.IntersectionRegion(P("q", nmax=12), C(kinds=PLANAR)))
    if shape == "I(ps,D(ps,cont))":
        return shape, RG.IntersectionRegion(P(nmax=12), RG.DifferenceRegion(P("q", nmax=12), C(kinds=PLANAR)))
    if shape == "D(ps,D(cont,ps))":
        return shape, RG.DifferenceRegion(P(nmax=12), RG.DifferenceRegion(C(kinds=PLANAR), P("q", nmax=5)))
    raise ValueError(shape)


def lean_inball_factory(ctx):
    def lean_inball(refl, ps, center, radius):
        """ball membership of the points of ps, decided by the Lean model; points within 1e-9 (relative) of the
        sphere take the answer of the real k-d tree instead (float rounding is not modelled)"""
        pts = [pkey(p) for p in ps.points]
        c = [F(x) for x in center]
        r2 = F(radius) ** 2
        lines, border = [], []
        for p in pts:
            d2 = sum((F(a) - b) ** 2 for a, b in zip(p, c))
            border.append(abs(d2 - r2) <= Fraction(1, 10 ** 9) * (1 + r2))
            lines.append("C03 inball {} {} {} {} {} {} {}".format(*[fr(x) for x in c], fr(r2), *[fr(x) for x in p]))
        res = [o == "1" for o in ctx.driver(lines)] if lines else []
        if any(border):
            realin = set(ps.kdTree.query_ball_point([float(x) for x in center], float(radius)))
            for i, b in enumerate(border):
                if b:
                    refl.borderline += 1
                    res[i] = i in realin
        return res
    return lean_inball


def show_pmf(pmf, universe):
    inv = {v: k for k, v in universe.items()}
    items = sorted((universe[k[1]], v) for k, v in pmf.items() if k[0] == "pt")
    return "pmf" + "".join(f" {i}:{v.numerator}/{v.denominator}" for i, v in items)


def all_leaves(RG, *regs):
    out = []
    for r in regs:
        if r is not None:
            out += leaves(r, RG)
    return out


def classify(RG, default, what, res=None, A=None, B=None, point=None, msg=""):
    """stable key of a failure: the default (operation and types involved), except for the one recorded root cause
    that is not a defect of /repo's own code (trimesh's cross-section of a mesh)"""
    if what == "uniformity" and "intersect:" in default and isinstance(res, RG.PolygonalRegion) \
            and any(isinstance(x, RG.MeshVolumeRegion) for x in (A, B)) and any(isinstance(x, RG.PolygonalRegion) for x in (A, B)):
        vol = A if isinstance(A, RG.MeshVolumeRegion) else B
        pol = B if vol is A else A
        if mesh_slice_incomplete(vol, pol):
            return "mesh-slice-incomplete"
    return default


def set_member(r, RG, p):
    """set-theoretic membership of p in a region tree, from the leaves' `_trueContainsPoint`"""
    if isinstance(r, RG.IntersectionRegion):
        return all(set_member(x, RG, p) for x in r.regions)
    if isinstance(r, RG.UnionRegion):
        return any(set_member(x, RG, p) for x in r.regions)
    if isinstance(r, RG.DifferenceRegion):
        return set_member(r.regionA, RG, p) and not set_member(r.regionB, RG, p)
    return bool(r._trueContainsPoint(vec(p)))


def mesh_slice_incomplete(vol, pol):
    """is the polygon set that trimesh's `section(...).polygons_full` returns for the slice of `vol` at the height of `pol`
    smaller than the true cross-section (estimated with trimesh's own point containment on a grid)?"""
    import numpy
    import shapely
    try:
        sl = vol.mesh.section(plane_origin=(vol.mesh.centroid[0], vol.mesh.centroid[1], float(pol.z)), plane_normal=[0, 0, 1])
        lib = 0.0
        if sl is not None:
            s2, _ = sl.to_2D(to_2D=numpy.eye(4))
            lib = float(sum(p.area for p in s2.polygons_full))
        (x0, y0, _), (x1, y1, _) = vol.mesh.bounds
        n = 60
        xs, ys = numpy.meshgrid(numpy.linspace(x0, x1, n + 2)[1:-1], numpy.linspace(y0, y1, n + 2)[1:-1])
        pts = numpy.column_stack([xs.ravel(), ys.ravel(), numpy.full(xs.size, float(pol.z))])
        true = float(vol.mesh.contains(pts).mean() * (x1 - x0) * (y1 - y0))
        return lib < 0.8 * true - 0.05
    except Exception:
        return False


def triangulation_overshoot(reg):
    """area of the sampling triangles that lies outside the polygon (0 for a correct triangulation)"""
    import shapely
    try:
        tris = [t for t, _ in reg._samplingData[0]]
        total = reg.polygons.area
        over = sum(t.area for t in tris) - total
        return over if over > 1e-7 * (1 + total) else 0.0
    except Exception:
        return 0.0


def crash_key(op, reg, RG, exc):
    def names(r):
        if isinstance(r, (RG.IntersectionRegion, RG.UnionRegion)):
            return "+".join(type(x).__name__ for x in r.regions)
        if isinstance(r, RG.DifferenceRegion):
            return f"{type(r.regionA).__name__}-{type(r.regionB).__name__}"
        return type(r).__name__
    return f"sampler-crash:{exc}:{type(reg).__name__}:{names(reg)}"


def corr_discrete(ctx, RG):
    rng = ctx.rng
    n = ctx.budget(260, 2500)
    t_start = time.time()
    lean_inball = lean_inball_factory(ctx)
    cases = []
    found = False
    fixed_cases = regression_cases(RG)
    for ci in range(n + len(fixed_cases)):
        if time.time() - t_start > 400:
            ctx.notes.append(f"C1 stopped after {ci} of {n + len(fixed_cases)} generated cases (time box)")
            break
        try:
            if ci < len(fixed_cases):
                shape, reg = fixed_cases[ci]
            else:
                shape, reg = gen_discrete_case(rng, RG)
        except Exception as e:
            ctx.hist("discrete_shape", f"build-refused:{type(e).__name__}")
            continue
        if isinstance(reg, RG.EmptyRegion):
            ctx.hist("discrete_shape", f"{shape}:empty")
            continue
        refl = Reflect(RG, lean_inball)
        try:
            refl.collect_points(reg)
            refl.emit(reg)
            pmf, npaths = real_pmf(reg, RG, refl.universe)
        except NotDiscrete as e:
            ctx.hist("discrete_shape", f"{shape}:not-discrete")
            continue
        if refl.borderline:
            ctx.hist("ball_points_on_sphere(real kd-tree answer used)", refl.borderline)
        ctx.hist("discrete_shape", f"{shape}:{type(reg).__name__}")
        ctx.hist("rng_paths", min(npaths, 64) if npaths < 64 else "64+")
        crashes = [k for k in pmf if k[0] == "crash"]
        for k in crashes:
            found |= report_crash(ctx, RG, reg, k[1], k[2], describe(reg, RG))
        undef = pmf.get(("undef",), 0)
        if undef not in (0, 1):
            ctx.broken("correspondence", "UndefinedSamplingException is not structural", describe(reg, RG))
        expected = "undef" if undef == 1 else show_pmf(pmf, refl.universe)
        cases.append((refl.line(), expected, shape, describe(reg, RG), refl.universe, pmf, reg, refl.borderline))
    lean = ctx.driver([c[0] for c in cases]) if cases else []
    bad = 0
    for (line, expected, shape, desc, universe, pmf, reg, borderline), got in zip(cases, lean):
        npts = sum(1 for k in pmf if k[0] == "pt")
        nontrivial = npts >= 2 or (npts >= 1 and pmf.get(("reject",), 0) > 0)
        ctx.case(("pmf", line), nontrivial=nontrivial)
        ctx.hist("pmf_support", min(npts, 12))
        ctx.hist("pmf_reject_mass", "0" if pmf.get(("reject",), 0) == 0 else "1" if pmf.get(("reject",), 0) == 1 else "(0,1)")
        if any(k[0] == "crash" for k in pmf):
            continue
        if got != expected:
            bad += 1
            if bad <= 4:
                ctx.broken("correspondence", "sampler model vs regions.py (exact PMF)",
                           f"{desc}: lean={got[:200]} python={expected[:200]} program={line[:300]}")
        # the property itself on the enumerated PMF (direct oracle, no model): uniform on the true composed set
        # points within 1e-9 (relative) of the candidate sphere are excluded from the support clause (explicit margin:
        # whether the k-d tree reports them is decided by float rounding of hypot)
        found |= direct_discrete(ctx, RG, reg, pmf, universe, desc, support=not borderline)
    return found


def true_members(reg, RG, universe):
    """set-theoretic membership of every universe point in the composed set, from the leaves' own containment"""
    def mem(r, p):
        if isinstance(r, RG.IntersectionRegion):
            return all(mem(x, p) for x in r.regions)
        if isinstance(r, RG.UnionRegion):
            return any(mem(x, p) for x in r.regions)
        if isinstance(r, RG.DifferenceRegion):
            return mem(r.regionA, p) and not mem(r.regionB, p)
        return bool(r._trueContainsPoint(vec(p)))

    def producible(r, p):
        """points the region can produce at all: a union with operands of several dimensions only produces the top one"""
        return True
    return {p for p in universe if mem(reg, p)}


def leaves(reg, RG):
    if isinstance(reg, (RG.IntersectionRegion, RG.UnionRegion)):
        return [l for r in reg.regions for l in leaves(r, RG)]
    if isinstance(reg, RG.DifferenceRegion):
        return leaves(reg.regionA, RG) + leaves(reg.regionB, RG)
    return [reg]


def direct_discrete(ctx, RG, reg, pmf, universe, desc, support=True):
    """membership, support and uniformity of an exactly enumerated sampler, checked directly"""
    if pmf.get(("undef",), 0) == 1:
        if isinstance(reg, RG.IntersectionRegion) and all(isinstance(r, RG.PointSetRegion) for r in reg.regions):
            return bool(ctx.violation(f"undefined-sampling:IntersectionRegion:{'+'.join(type(r).__name__ for r in reg.regions)}",
                                      f"{desc} raises UndefinedSamplingException although every operand can be sampled",
                                      {"kind": "discrete", "desc": desc, "build": rebuild_spec(reg, RG)}))
        return False
    lv = leaves(reg, RG)
    if not all(isinstance(l, RG.PointSetRegion) for l in lv if l.dimensionality == 0 or isinstance(l, RG.PointSetRegion)):
        return False
    pts = {k[1]: v for k, v in pmf.items() if k[0] == "pt"}
    truth = true_members(reg, RG, universe)
    # a union whose top-dimensional operands are continuous never reaches here (not discrete)
    dup = any(len({pkey(p) for p in l.points}) != len(l.points) for l in lv if isinstance(l, RG.PointSetRegion))
    rep = {"kind": "discrete", "desc": desc, "build": rebuild_spec(reg, RG)}
    found = False
    outside = [p for p in pts if p not in truth]
    tag = ":".join(sorted({type(l).__name__ for l in lv}))
    if outside:
        found |= bool(ctx.violation(classify(RG, f"discrete-membership:{type(reg).__name__}:{tag}", "membership", res=reg, point=outside[0]),
                                    f"{desc} returned {outside[0]} which is not in the composed set", rep))
    missing = [p for p in truth if p not in pts]
    if missing and not support:
        ctx.hist("discrete_support_skipped(point on the candidate sphere)", 1)
        missing = []
        return found
    if missing:
        found |= bool(ctx.violation(f"discrete-support:{type(reg).__name__}:{tag}",
                                    f"{desc} never returns {missing[0]} although it lies in the composed set "
                                    f"({len(missing)} of {len(truth)} points unreachable)", rep))
    if not dup and len(set(pts.values())) > 1 and not outside and not missing:
        lo, hi = min(pts.values()), max(pts.values())
        found |= bool(ctx.violation(classify(RG, f"discrete-uniformity:{type(reg).__name__}:{tag}", "uniformity", res=reg),
                                    f"{desc} is not uniform on its {len(pts)} points: probabilities range from {lo} to {hi}", rep))
    return found


def rebuild_spec(reg, RG):
    """JSON-able reconstruction recipe for replay"""
    from scenic.core.vectors import Vector
    if isinstance(reg, RG.GridRegion):
        return {"t": "grid", "grid": reg.grid.tolist(), "A": [reg.Ax, reg.Ay], "B": [reg.Bx, reg.By]}
    if isinstance(reg, RG.PointSetRegion):
        return {"t": "ps", "pts": [[float(c) for c in p] for p in reg.points]}
    if isinstance(reg, RG.IntersectionRegion):
        return {"t": "I", "ball": reg.sampler is not None, "args": [rebuild_spec(r, RG) for r in reg.regions]}
    if isinstance(reg, RG.UnionRegion):
        return {"t": "U", "args": [rebuild_spec(r, RG) for r in reg.regions]}
    if isinstance(reg, RG.DifferenceRegion):
        return {"t": "D", "args": [rebuild_spec(reg.regionA, RG), rebuild_spec(reg.regionB, RG)]}
    if isinstance(reg, RG.SectorRegion):
        return {"t": "sector", "c": list(map(float, reg.center)), "r": float(reg.radius), "h": float(reg.heading), "a": float(reg.angle)}
    if isinstance(reg, RG.CircularRegion):
        return {"t": "circle", "c": list(map(float, reg.center)), "r": float(reg.radius)}
    if isinstance(reg, RG.RectangularRegion):
        return {"t": "rect", "c": list(map(float, reg.position)), "h": float(reg.heading), "w": float(reg.width), "l": float(reg.length)}
    if isinstance(reg, RG.PolygonalRegion):
        import shapely
        return {"t": "polygon", "wkt": shapely.to_wkt(reg.polygons, rounding_precision=-1), "z": float(reg.z)}
    if isinstance(reg, RG.PolylineRegion):
        import shapely
        return {"t": "polyline", "wkt": shapely.to_wkt(reg.lineString, rounding_precision=-1)}
    if isinstance(reg, RG.PathRegion):
        return {"t": "path", "polylines": [[list(map(float, reg.vert_to_vec[a])), list(map(float, reg.vert_to_vec[b]))] for a, b in reg.edges]}
    if isinstance(reg, (RG.BoxRegion, RG.SpheroidRegion)):
        return {"t": "box" if isinstance(reg, RG.BoxRegion) else "spheroid", "dims": list(map(float, reg.dimensions)),
                "pos": list(map(float, reg.position)), "rot": None if reg.rotation is None else [float(reg.rotation.yaw), float(reg.rotation.pitch), float(reg.rotation.roll)]}
    if isinstance(reg, RG.MeshRegion):
        return {"t": "mesh", "surface": isinstance(reg, RG.MeshSurfaceRegion), "vertices": reg.mesh.vertices.tolist(), "faces": reg.mesh.faces.tolist()}
    if isinstance(reg, RG.VoxelRegion):
        return {"t": "voxel", "dense": reg.voxelGrid.encoding.dense.astype(int).tolist(), "transform": reg.voxelGrid.transform.tolist()}
    return {"t": "unknown", "repr": repr(reg)[:200]}


def build_from_spec(s, RG):
    import numpy
    import shapely
    import trimesh
    from scenic.core.vectors import Orientation, Vector
    t = s["t"]
    if t == "grid":
        return RG.GridRegion("grid", s["grid"], s["A"][0], s["A"][1], s["B"][0], s["B"][1])
    if t == "ps":
        return RG.PointSetRegion("ps", s["pts"])
    if t == "I":
        args = [build_from_spec(a, RG) for a in s["args"]]
        if s.get("ball"):
            return args[0].intersect(args[1])
        return RG.IntersectionRegion(*args)
    if t == "U":
        return RG.UnionRegion(*[build_from_spec(a, RG) for a in s["args"]])
    if t == "D":
        return RG.DifferenceRegion(*[build_from_spec(a, RG) for a in s["args"]])
    if t == "sector":
        return RG.SectorRegion(Vector(*s["c"]), s["r"], s["h"], s["a"])
    if t == "circle":
        return RG.CircularRegion(Vector(*s["c"]), s["r"])
    if t == "rect":
        return RG.RectangularRegion(Vector(*s["c"]), s["h"], s["w"], s["l"])
    if t == "polygon":
        return RG.PolygonalRegion(polygon=shapely.from_wkt(s["wkt"]), z=s["z"])
    if t == "polyline":
        return RG.PolylineRegion(polyline=shapely.from_wkt(s["wkt"]))
    if t == "path":
        return RG.PathRegion(polylines=s["polylines"])
    if t in ("box", "spheroid"):
        cls = RG.BoxRegion if t == "box" else RG.SpheroidRegion
        rot = None if s["rot"] is None else Orientation.fromEuler(*s["rot"])
        return cls(dimensions=tuple(s["dims"]), position=Vector(*s["pos"]), rotation=rot)
    if t == "mesh":
        m = trimesh.Trimesh(vertices=numpy.array(s["vertices"]), faces=numpy.array(s["faces"]), process=False)
        cls = RG.MeshSurfaceRegion if s["surface"] else RG.MeshVolumeRegion
        return cls(m, centerMesh=False)
    if t == "voxel":
        vg = trimesh.voxel.VoxelGrid(trimesh.voxel.encoding.DenseEncoding(numpy.array(s["dense"], dtype=bool)), transform=numpy.array(s["transform"]))
        return RG.VoxelRegion(vg)
    raise ValueError(f"cannot rebuild {t}")


def report_crash(ctx, RG, reg, exc, msg, desc):
    key = classify(RG, crash_key("sample", reg, RG, exc), "crash", res=reg, msg=msg)
    return bool(ctx.violation(key, f"sampling {desc} raised {exc}: {msg}",
                              {"kind": "crash", "desc": desc, "build": rebuild_spec(reg, RG)}))


def regression_cases(RG):
    """fixed cases that every run replays (regressions of repaired defects, theorem witnesses)"""
    from scenic.core.vectors import Vector
    out = []
    grid = [(x * 0.5, y * 0.5, 0) for x in range(-5, 6) for y in range(-5, 6)]
    ps = RG.PointSetRegion("grid121", grid)
    # point set ∩ half-disc sector: all 46 points of the half disc must be reachable (commit 80ee053e)
    out.append(("regress:ps&halfdisc", ps.intersect(RG.SectorRegion(Vector(0, 0, 0), 2, 0, math.pi))))
    out.append(("regress:ps&sector60", ps.intersect(RG.SectorRegion(Vector(0, 0, 0), 2.4, 0.7, math.pi / 3))))
    out.append(("regress:ps&sector120", ps.intersect(RG.SectorRegion(Vector(0.1, -0.2, 0), 2.4, -2.0, 2 * math.pi / 3))))
    out.append(("regress:ps&sector200", ps.intersect(RG.SectorRegion(Vector(0.1, -0.2, 0), 2.2, 1.0, 3.5))))
    out.append(("regress:ps&rect", ps.intersect(RG.RectangularRegion(Vector(0.3, 0.1, 0), 0.6, 3.1, 1.7))))
    out.append(("regress:ps&circle", ps.intersect(RG.CircularRegion(Vector(0.3, 0.1, 0), 1.3))))
    out.append(("regress:ps&ps", RG.PointSetRegion("a", [(0, 0), (1, 0), (2, 0)]).intersect(RG.PointSetRegion("b", [(1, 0), (2, 0), (3, 0)]))))
    # inputs of the defects repaired by 12542374, 1511e557, 3b39d4d8/fecea6a1, a74c56e1 (found by this check in round 1)
    g = RG.GridRegion("grid", [[0, 1, 0], [0, 0, 1]], 1, 1, 0, 0)
    out.append(("regress:ps|grid(free cell)", RG.UnionRegion(RG.PointSetRegion("a", [(0.25, 0.1, 0), (5, 5, 0), (2, 0, 0)]), g)))
    out.append(("regress:grid|ps(z)", RG.UnionRegion(g, RG.PointSetRegion("a", [(0, 0, 1), (0, 0, 0), (7, 7, 0)]))))
    sq = RG.PolygonalRegion([(-1, -1), (2.5, -1), (2.5, 2.5), (-1, 2.5)], z=1)
    out.append(("regress:ps&polygon(z=1)", RG.PointSetRegion("a", [(0, 0, 0), (0, 0, 1), (1, 1, 1), (2, 2, 0), (9, 9, 1)]).intersect(sq)))
    out.append(("regress:ps&rect(z=1)", RG.PointSetRegion("a", [(0, 0, 0), (0, 0, 1), (1, 1, 1), (2, 2, 0), (9, 9, 1)]).intersect(
        RG.RectangularRegion(Vector(0.5, 0.5, 1), 0.3, 4, 4))))
    pl = RG.PolylineRegion([(0, 0), (2, 0), (2, 3)])
    out.append(("regress:ps&polyline", RG.PointSetRegion("a", [(1, 0, 0), (2, 1, 0), (2, 1, 1), (3, 3, 0)]).intersect(pl)))
    out.append(("regress:ps&path", RG.PointSetRegion("a", [(1, 0, 0), (2, 1.5, 0.5), (2, 1, 1), (3, 3, 0)]).intersect(
        RG.PathRegion(points=[(0, 0, 0), (2, 0, 0), (2, 3, 1)]))))
    # coordinator's seed-1 alarm on the tree before the repairs: the footprint polygon of a 5.5 rad sector was not the sector,
    # so the nested generic intersection rejected (2,2,0) and (1,3,0)
    wide = RG.PointSetRegion("ps", [(2, 2, 0), (1, 3, 0), (3, 2, 0), (0, 3, 0), (1, 0, 0), (2, 0, 0)]).intersect(
        RG.SectorRegion(Vector(0.44, 2.13, 0), 3.3, 2.964490376247597, 5.5))
    out.append(("regress:I(ps&sector5.5,ps)", RG.IntersectionRegion(wide, RG.PointSetRegion("q", [(2, 2, 0), (1, 3, 0), (5, 5, 0)]))))
    out.append(("regress:D(ps&sector5.5,ps)", RG.DifferenceRegion(wide, RG.PointSetRegion("q", [(3, 2, 0), (5, 5, 0)]))))
    # composed regions as operands (9c3fab32): `_trueContainsPoint` of Intersection/Union/DifferenceRegion is structural,
    # not the z-blind footprint test; planar leaves at z=1, candidate points at z=0 under them
    nested = RG.PointSetRegion("ps", [(2, 0, 0), (1, 1, 0), (1, 3, 0), (2, 2, 0), (3, 1, 1), (1, 0, 0), (3, 2, 0), (2, 3, 1)]).intersect(
        RG.SectorRegion(Vector(2.21, 0.71, 1), 2.45, -1.99, 5.5))
    out.append(("regress:I(ps&sector(z=1),ps)", RG.IntersectionRegion(nested, RG.PointSetRegion("q", [(3, 2, 0), (3, 3, 1)]))))
    sq1 = RG.PolygonalRegion([(-1, -1), (2.5, -1), (2.5, 2.5), (-1, 2.5)], z=1)
    psq = lambda n: RG.PointSetRegion(n, [(0, 0, 0), (0, 0, 1), (1, 1, 1), (1, 1, 0), (2, 2, 0), (9, 9, 1)])
    out.append(("regress:I(ps,U(ps,polygon z=1))", RG.IntersectionRegion(psq("a"), RG.UnionRegion(RG.PointSetRegion("b", [(9, 9, 1)]), sq1))))
    out.append(("regress:D(ps,I(ps,polygon z=1))", RG.DifferenceRegion(psq("a"), RG.IntersectionRegion(psq("b"), sq1))))
    out.append(("regress:D(ps,D(polygon z=1,ps))", RG.DifferenceRegion(psq("a"), RG.DifferenceRegion(sq1, RG.PointSetRegion("b", [(1, 1, 1)])))))
    out.append(("regress:I(ps,D(ps,rect z=1))", RG.IntersectionRegion(psq("a"), RG.DifferenceRegion(psq("b"), RG.RectangularRegion(Vector(0.5, 0.5, 1), 0.3, 4, 4)))))
    out.append(("witness:union-overlap", RG.UnionRegion(RG.PointSetRegion("a", [(1, 0), (2, 0), (3, 0)]), RG.PointSetRegion("b", [(3, 0), (4, 0)]))))
    return out


# =========================================================================================== (C2) closed-form samplers
def make_continuous(rng, RG, kind):
    """random instance of a continuous region class with its parameters (used by C2, C3 and S)"""
    import numpy
    import shapely
    import trimesh
    from scenic.core.vectors import Orientation, Vector
    cx, cy, cz = rng.uniform(-3, 3), rng.uniform(-3, 3), rng.choice([0, 0, 1.5, -2.25, rng.uniform(-3, 3)])
    if kind == "rect":
        return RG.RectangularRegion(Vector(cx, cy, cz), rng.choice([0, math.pi / 2, rng.uniform(-7, 7)]), rng.uniform(0.2, 6), rng.uniform(0.2, 6))
    if kind == "circle":
        return RG.CircularRegion(Vector(cx, cy, cz), rng.uniform(0.1, 5))
    if kind == "sector":
        ang = rng.choice([rng.uniform(0.05, math.tau), math.pi, 2 * math.pi / 3, math.tau, 0.3, 4.0])
        return RG.SectorRegion(Vector(cx, cy, cz), rng.uniform(0.1, 5), rng.uniform(-7, 7), ang)
    if kind == "polyline":
        n = rng.randint(2, 6)
        pts = [(rng.uniform(-4, 4), rng.uniform(-4, 4)) for _ in range(n)]
        if rng.random() < 0.3:
            pts = [(round(x), round(y)) for x, y in pts]
            pts = [p for i, p in enumerate(pts) if i == 0 or p != pts[i - 1]]
            if len(pts) < 2:
                pts = [(0, 0), (1, 2)]
        ls = shapely.geometry.LineString(pts)
        if rng.random() < 0.3:
            ls = shapely.geometry.MultiLineString([pts, [(5, 5), (6.5, 7.25)]])
        return RG.PolylineRegion(polyline=ls)
    if kind == "path":
        n = rng.randint(2, 5)
        pl = [[(rng.uniform(-4, 4), rng.uniform(-4, 4), rng.uniform(-2, 2)) for _ in range(n)]]
        if rng.random() < 0.4:
            pl.append([(5, 5, 1), (6, 7, -1), (8, 7, 0.5)])
        return RG.PathRegion(polylines=pl)
    if kind == "polygon_earcut":   # a valid polygon (two holes touching at a vertex) that mapbox_earcut mis-triangulates
        return RG.PolygonalRegion(polygon=shapely.from_wkt(EARCUT_WKT), z=1.25)
    if kind in ("polygon", "polygon_holes", "multipolygon"):
        def blob(ox, oy, r, k):
            angs = sorted(rng.uniform(0, math.tau) for _ in range(k))
            return [(ox + r * rng.uniform(0.5, 1) * math.cos(a), oy + r * rng.uniform(0.5, 1) * math.sin(a)) for a in angs]
        if kind == "polygon":
            poly = shapely.geometry.Polygon(blob(cx, cy, 3, rng.randint(3, 9)))
        elif kind == "polygon_holes":
            poly = shapely.geometry.Polygon([(cx - 3, cy - 3), (cx + 3, cy - 3), (cx + 3.5, cy + 3), (cx - 3, cy + 2.5)],
                                            holes=[blob(cx - 1.2, cy - 1, 0.9, 5), blob(cx + 1.3, cy + 0.8, 0.8, 4)])
        else:
            poly = shapely.geometry.MultiPolygon([shapely.geometry.Polygon(blob(cx, cy, 2, 6)),
                                                  shapely.geometry.Polygon(blob(cx + 6, cy + 1, 1.2, 5)),
                                                  shapely.geometry.Polygon([(cx - 8, cy), (cx - 6, cy), (cx - 6, cy + 0.5), (cx - 8, cy + 0.5)])])
        poly = shapely.make_valid(poly)
        if not isinstance(poly, (shapely.geometry.Polygon, shapely.geometry.MultiPolygon)) or poly.is_empty:
            poly = shapely.geometry.Polygon([(cx, cy), (cx + 2, cy), (cx + 1, cy + 2)])
        return RG.PolygonalRegion(polygon=poly, z=cz)
    if kind == "voxel":
        dense = numpy.zeros((3, 3, 2), dtype=bool)
        for _ in range(rng.randint(2, 9)):
            dense[rng.randrange(3), rng.randrange(3), rng.randrange(2)] = True
        pitch = rng.choice([0.5, 1.0, 1.25])
        tf = numpy.eye(4)
        tf[0, 0] = tf[1, 1] = tf[2, 2] = pitch
        tf[:3, 3] = [cx, cy, cz]
        return RG.VoxelRegion(trimesh.voxel.VoxelGrid(trimesh.voxel.encoding.DenseEncoding(dense), transform=tf))
    rot = None if rng.random() < 0.4 else Orientation.fromEuler(rng.uniform(-3, 3), rng.choice([0, rng.uniform(-1, 1)]), rng.choice([0, rng.uniform(-1, 1)]))
    dims = (rng.uniform(0.5, 5), rng.uniform(0.5, 5), rng.uniform(0.5, 4))
    if kind == "box":
        return RG.BoxRegion(dimensions=dims, position=Vector(cx, cy, cz), rotation=rot)
    if kind == "spheroid":
        return RG.SpheroidRegion(dimensions=dims, position=Vector(cx, cy, cz), rotation=rot)
    if kind == "mesh":  # non-convex watertight volume: an L-shaped prism
        poly = shapely.geometry.Polygon([(0, 0), (3, 0), (3, 1), (1, 1), (1, 2.5), (0, 2.5)])
        m = trimesh.creation.extrude_polygon(poly, height=rng.uniform(0.5, 2))
        return RG.MeshVolumeRegion(m, position=Vector(cx, cy, cz), rotation=rot)
    if kind == "surface":
        poly = shapely.geometry.Polygon([(0, 0), (3, 0), (3, 1), (1, 1), (1, 2.5), (0, 2.5)])
        m = trimesh.creation.extrude_polygon(poly, height=rng.uniform(0.5, 2))
        return RG.MeshSurfaceRegion(m, position=Vector(cx, cy, cz), rotation=rot)
    if kind == "view":
        va = rng.choice([(math.tau, math.pi), (1.2, 0.8), (math.tau, 1.0), (3.5, 2.0), (1.0, math.pi)])
        return RG.ViewRegion(rng.uniform(1, 6), va, position=Vector(cx, cy, cz), rotation=rot)
    raise ValueError(kind)


EARCUT_WKT = ("POLYGON ((-2.5893847405823998 4.119476412186808, 3.9106152594176002 4.619476412186808, 3.4106152594176002 -1.380523587813192, "
              "-2.5893847405823998 -1.380523587813192, -2.5893847405823998 4.119476412186808), (-0.0120770686069911 0.9831914095142753, "
              "-0.3177662896836068 0.7934772535883798, -0.2820992850992041 0.7220505570928578, -0.0120770686069911 0.9831914095142753), "
              "(-1.121935563891597 -0.0901624696252656, -0.2990952056577628 0.1651838879791554, -0.0808953027663539 0.319119726560946, "
              "-0.2820992850992041 0.7220505570928578, -1.121935563891597 -0.0901624696252656), (1.0781137672132692 2.3774503550423662, "
              "1.315276225129819 2.157167030855478, 2.0506637058513606 1.7472411712255496, 2.398150047471197 2.641023465680683, "
              "1.0781137672132692 2.3774503550423662))")


def close(a, b, tol=1e-9):
    return abs(float(a) - float(b)) <= tol * (1 + abs(float(b)))


def corr_closed_forms(ctx, RG):
    """(C2) feed the recorded draws of real samples to the Lean maps and compare the points; check the draw
    arguments against the hypotheses of the membership theorems"""
    import numpy
    rng = ctx.rng
    nreg, nsamp = ctx.budget(5, 40), ctx.budget(20, 120)
    lines, meta = [], []
    bad = [0]

    def broken(name, detail):
        bad[0] += 1
        if bad[0] <= 5:
            ctx.broken("correspondence", name, detail)

    for kind in ("rect", "circle", "sector", "polyline", "path", "polygon", "polygon_holes", "multipolygon", "voxel"):
        for _ in range(nreg):
            try:
                reg = make_continuous(rng, RG, kind)
            except Exception as e:
                ctx.hist("closed_form_region", f"{kind}:build-refused:{type(e).__name__}")
                continue
            ctx.hist("closed_form_region", kind)
            rec = Recorder(rng.getrandbits(32))
            rec.install()
            try:
                if isinstance(reg, RG.PolygonalRegion) and type(reg) is RG.PolygonalRegion:
                    check_triangulation(ctx, RG, reg, broken)
                for _ in range(nsamp):
                    rec.log.clear()
                    p = reg.uniformPointInner()
                    calls = list(rec.log)
                    ln = closed_form_line(RG, reg, kind, calls, p, broken)
                    if ln is not None:
                        lines.append(ln)
                        meta.append((kind, repr(reg)[:120], pkey(p)))
            finally:
                rec.uninstall()
    out = ctx.driver(lines) if lines else []
    for ln, (kind, desc, p), got in zip(lines, meta, out):
        ctx.case(("closed", ln), nontrivial=True)
        try:
            q = [Fraction(x) for x in got.split()]
            ok = len(q) == 3 and all(close(a, b) for a, b in zip(q, p))
        except Exception:
            ok = False
        if not ok:
            broken(f"closed-form sampler map ({kind})", f"{desc}: lean={got[:150]} python={p} line={ln[:200]}")
    ctx.hist("closed_form_samples_compared", len(lines), len(lines))
    return False


def check_triangulation(ctx, RG, reg, broken):
    """hypotheses of `polygon_uniform`: the triangles partition the polygon and the weights are their areas"""
    import shapely
    tris_bounds, cum = reg._samplingData
    tris = [t for t, _ in tris_bounds]
    areas = [t.area for t in tris]
    acc = 0.0
    for a, c in zip(areas, cum):
        acc += a
        if not close(acc, c, 1e-9):
            broken("polygon cumulative weights are the triangle areas", repr(reg)[:100])
            return
    total = reg.polygons.area
    union = shapely.union_all(tris)
    if reg.polygons.difference(union).area > 1e-7 * (1 + total):
        broken("triangles cover the polygon", repr(reg)[:100])
    if triangulation_overshoot(reg) > 0:
        ctx.hist("polygon_triangles", "overshoot(holes touching?)")
    for (t, b) in tris_bounds:
        if tuple(b) != tuple(t.bounds):
            broken("triangle bounds", repr(reg)[:100])
    ctx.hist("polygon_triangles", min(len(tris), 20))


def closed_form_line(RG, reg, kind, calls, p, broken):
    names = [c[0] for c in calls]
    desc = repr(reg)[:100]

    def pat(*expected):
        if names != list(expected):
            broken(f"draw pattern of {type(reg).__name__}.uniformPointInner", f"{desc}: expected {expected}, got {names}")
            return False
        return True

    def pat_any_order(*expected):
        """independent draws may be made in any order"""
        if sorted(names) != sorted(expected):
            broken(f"draw pattern of {type(reg).__name__}.uniformPointInner", f"{desc}: expected {expected} (any order), got {names}")
            return False
        return True
    if kind == "rect":
        if not pat("uniform", "uniform"):
            return None
        if reg.hw == reg.hl:
            return None   # the two draws cannot be told apart
        if tuple(calls[0][1]) == (-reg.hl, reg.hl):
            calls = [calls[1], calls[0]]
        (_, a1, _, _, rx), (_, a2, _, _, ry) = calls
        if tuple(a1) != (-reg.hw, reg.hw) or tuple(a2) != (-reg.hl, reg.hl):
            broken("rectangle draw ranges are [-hw,hw] x [-hl,hl]", f"{desc}: {a1} {a2}")
        if not (-reg.hw <= rx <= reg.hw and -reg.hl <= ry <= reg.hl):
            broken("rectangle draws within range", desc)
        if reg.hw != reg.width / 2 or reg.hl != reg.length / 2:
            broken("hw = width/2, hl = length/2", desc)
        c, s_ = math.cos(reg.heading), math.sin(reg.heading)
        return "C03 rect " + " ".join(fr(x) for x in (*reg.position, c, s_, rx, ry))
    if kind in ("circle", "sector"):
        if not pat_any_order("triangular", "uniform"):
            return None
        calls = sorted(calls, key=lambda c: c[0])
        (_, a1, k1, raw1, r), (_, a2, _, _, t) = calls
        Rr = float(reg.radius)
        if tuple(a1) != (0, Rr, Rr) or k1:
            broken("radius drawn with triangular(0, R, R)", f"{desc}: {a1}")
        if len(raw1) != 1 or not close(r * r, Rr * Rr * raw1[0], 1e-9) or not (0 <= r <= Rr):
            broken("triangular(0,R,R) = R*sqrt(u)", f"{desc}: r={r} u={raw1}")
        if kind == "circle":
            if tuple(a2) != (-math.pi, math.pi):
                broken("disc angle drawn from [-pi, pi]", f"{desc}: {a2}")
            return "C03 disc " + " ".join(fr(x) for x in (*reg.center, r, math.cos(t), math.sin(t)))
        ha = reg.angle / 2.0
        if tuple(a2) != (-ha, ha):
            broken("sector offset drawn from [-angle/2, angle/2]", f"{desc}: {a2}")
        if not (-ha <= t <= ha) or (ha <= math.pi and math.cos(t) < math.cos(ha) - 1e-12):
            broken("sector offset within the half angle", desc)
        hd = reg.heading + math.pi / 2
        return "C03 sector " + " ".join(fr(x) for x in (*reg.center, math.cos(hd), math.sin(hd), r, math.cos(t), math.sin(t)))
    if kind == "polyline":
        if not pat("choices", "random"):
            return None
        (_, a1, k1, _, res), (_, _, _, _, t) = calls
        (A, B) = res[0]
        segs = list(reg.segments)
        if list(a1[0]) != segs or set(k1) != {"cum_weights"}:
            broken("polyline segment choice over self.segments with cum_weights", desc)
            return None
        acc = 0.0
        for (P_, Q_), cw in zip(segs, k1["cum_weights"]):
            acc += math.hypot(P_[0] - Q_[0], P_[1] - Q_[1])
            if not close(acc, cw, 1e-12):
                broken("polyline weights are the segment lengths", desc)
                return None
        if not 0 <= t <= 1:
            broken("interpolation weight in [0,1]", desc)
        return "C03 pline " + " ".join(fr(x) for x in (A[0], A[1], B[0], B[1], t))
    if kind == "path":
        if not pat("choices", "uniform"):
            return None
        (_, a1, k1, _, res), (_, a2, _, _, t) = calls
        if a1 or set(k1) != {"population", "weights", "k"} or k1["k"] != 1 or list(k1["population"]) != list(reg.edges) or tuple(a2) != (0, 1):
            broken("path edge choice over self.edges by weights, t from uniform(0,1)", desc)
            return None
        for (v1, v2), w in zip(reg.edges, k1["weights"]):
            c1, c2 = reg.vert_to_vec[v1], reg.vert_to_vec[v2]
            if not close(math.dist(tuple(c1), tuple(c2)), w, 1e-12):
                broken("path weights are the edge lengths", desc)
                return None
        v1, v2 = res[0]
        c1, c2 = reg.vert_to_vec[v1], reg.vert_to_vec[v2]
        return "C03 seg " + " ".join(fr(x) for x in (*c1, *c2, t))
    if kind in ("polygon", "polygon_holes", "multipolygon"):
        # one or more rounds of [choices, (uniform, uniform)+]; the last round produced the returned point
        starts = [i for i, nm in enumerate(names) if nm == "choices"]
        if not starts or starts[0] != 0 or any(nm not in ("choices", "uniform") for nm in names):
            broken("draw pattern of PolygonalRegion.uniformPointInner", f"{desc}: {names[:6]}")
            return None
        tb, cum = reg._samplingData
        rawx = rawy = None
        for gi, st in enumerate(starts):
            grp = calls[st:(starts[gi + 1] if gi + 1 < len(starts) else len(calls))]
            if len(grp) < 3 or len(grp) % 2 != 1:
                broken("draw pattern of PolygonalRegion.uniformPointInner", f"{desc}: {names[:8]}")
                return None
            (_, a1, k1, _, res) = grp[0]
            tri, bounds = res[0]
            minx, miny, maxx, maxy = bounds
            if set(k1) != {"cum_weights"} or tuple(k1["cum_weights"]) != tuple(cum) or len(a1[0]) != len(tb):
                broken("polygon triangle choice by cumulative areas", desc)
            pts = list(tri.exterior.coords)[:3]
            for i in range(1, len(grp), 2):
                (_, ax, _, rawx, x), (_, ay, _, rawy, y) = grp[i], grp[i + 1]
                if tuple(ax) != (minx, maxx) or tuple(ay) != (miny, maxy):
                    broken("polygon candidates drawn from the triangle's bounding box", desc)
                    return None
                inside = tri_side(pts, x, y)
                last = i + 2 >= len(grp)
                if inside is not None and inside != last:
                    broken("bounding-box rejection loop exits exactly on a point of the triangle", f"{desc}: ({x},{y}) inside={inside} exit={last}")
        return "C03 polyc " + " ".join(fr(x) for x in (minx, miny, maxx, maxy, reg.z, rawx[0], rawy[0]))
    if kind == "voxel":
        if not pat("np.random_sample", "randrange"):
            return None
        (_, a1, _, _, u), (_, a2, _, _, idx) = calls
        if tuple(a1) != (3,) or tuple(a2) != (len(reg.voxel_points),):
            broken("voxel draws: random_sample(3), randrange(len(points))", desc)
        base = reg.voxel_points[idx]
        return "C03 voxel " + " ".join(fr(x) for x in (*base, *reg.scale, *u))
    return None


def tri_side(pts, x, y):
    """exact point-in-triangle (closed); None when within rounding of an edge"""
    (x1, y1), (x2, y2), (x3, y3) = [(F(a), F(b)) for a, b in (q[:2] for q in pts)]
    X, Y = F(x), F(y)
    d = [(x2 - x1) * (Y - y1) - (y2 - y1) * (X - x1), (x3 - x2) * (Y - y2) - (y3 - y2) * (X - x2), (x1 - x3) * (Y - y3) - (y1 - y3) * (X - x3)]
    scale = max(abs(x2 - x1), abs(y2 - y1), abs(x3 - x1), abs(y3 - y1), Fraction(1, 10 ** 6))
    if any(abs(v) <= Fraction(1, 10 ** 9) * scale * scale for v in d):
        return None
    return all(v > 0 for v in d) or all(v < 0 for v in d)


# =========================================================================================== (C3) circumcircles
def corr_circumcircles(ctx, RG):
    from scenic.core.vectors import Vector
    rng = ctx.rng
    n = ctx.budget(60, 600)
    lines, checks = [], []
    angles = [math.pi, 2 * math.pi / 3, math.tau, 0.01, 1.0, 2.0, 2.09, 2.1, 3.0, 4.0, 5.0, 6.0, 6.28]
    for i in range(n):
        ang = angles[i] if i < len(angles) else rng.uniform(0.01, math.tau)
        reg = RG.SectorRegion(Vector(rng.uniform(-3, 3), rng.uniform(-3, 3), rng.choice([0, 1.5])), rng.uniform(0.1, 5), rng.uniform(-7, 7), ang)
        c = math.cos(reg.angle / 2)
        if abs(c - 0.5) < 1e-9:
            ctx.hist("circumcircle", "sector:at-threshold(skipped)")
            continue
        lines.append(f"C03 sectorcirc {fr(reg.radius)} {fr(c)}")
        checks.append(("sector", reg))
        ctx.hist("circumcircle", "sector:narrow" if c > 0.5 else "sector:wide")
    for i in range(ctx.budget(10, 60)):
        reg = make_continuous(rng, RG, "circle")
        lines.append(f"C03 radsq circle {fr(reg.radius)} 0 0 0")
        checks.append(("circle", reg))
        reg = make_continuous(rng, RG, "rect")
        lines.append(f"C03 radsq rect 0 {fr(reg.hw)} {fr(reg.hl)} 0")
        checks.append(("rect", reg))
        reg = make_continuous(rng, RG, rng.choice(["box", "spheroid", "mesh"]))
        ex = reg.mesh.extents
        lines.append(f"C03 radsq mesh 0 {fr(ex[0] / 2)} {fr(ex[1] / 2)} {fr(ex[2] / 2)}")
        checks.append(("mesh", reg))
        ctx.hist("circumcircle", "circle+rect+mesh")
    out = ctx.driver(lines)
    bad = 0
    found = False
    for ln, (kind, reg), got in zip(lines, checks, out):
        ctx.case(("circ", ln))
        center, radius = reg.circumcircle
        ok = True
        try:
            if kind == "sector":
                r, d = [Fraction(x) for x in got.split()]
                hx, hy = -math.sin(reg.heading), math.cos(reg.heading)
                exp_c = (reg.center.x + float(d) * hx, reg.center.y + float(d) * hy, reg.center.z)
                ok = close(r, radius) and all(close(a, b, 1e-9) for a, b in zip(exp_c, center))
            else:
                ok = close(Fraction(got), float(radius) ** 2)
                exp_c = tuple(reg.center) if kind == "circle" else tuple(reg.position) if kind == "rect" else tuple(reg.mesh.bounding_box.center_mass)
                ok = ok and all(close(a, b, 1e-9) for a, b in zip(exp_c, center))
        except Exception:
            ok = False
        if not ok:
            bad += 1
            if bad <= 3:
                ctx.broken("correspondence", f"circumcircle model vs regions.py ({kind})", f"{reg!r}: lean={got} python=({tuple(center)}, {radius})"[:400])
        # direct: the ball must contain the region (vertices of its polygon / mesh)
        found |= direct_circumcircle(ctx, RG, reg, kind)
    return found


def direct_circumcircle(ctx, RG, reg, kind):
    import numpy
    center, radius = reg.circumcircle
    if kind == "mesh":
        pts = numpy.asarray(reg.mesh.vertices)
        c = numpy.asarray(center)
    else:
        import shapely
        pts = shapely.get_coordinates(reg.polygons)
        c = numpy.asarray(center)[:2]
    far = numpy.linalg.norm(pts - c, axis=1).max()
    if far > radius * (1 + 1e-9) + 1e-9:
        return bool(ctx.violation(f"circumcircle-unsound:{type(reg).__name__}",
                                  f"{reg!r}: circumcircle radius {radius} but a vertex lies at distance {far} from its centre",
                                  {"kind": "circumcircle", "build": rebuild_spec(reg, RG)}))
    return False


# =========================================================================================== (S) direct oracle
BAND = 1e-7     # relative width of the undecided band around a boundary (exact margin: inside it the oracle abstains)


def tv_and(vals):
    vals = list(vals)
    if any(v is False for v in vals):
        return False
    return None if any(v is None for v in vals) else True


def tv_or(vals):
    vals = list(vals)
    if any(v is True for v in vals):
        return True
    return None if any(v is None for v in vals) else False


def tv_not(v):
    return None if v is None else (not v)


class Leaf:
    """independent description of a primitive region: three-valued exact membership of a point, vectorised
    float membership (for reference samples), own uniform proposal sampler, dimension and measure"""

    def __init__(self, reg, RG):
        import numpy
        self.reg, self.RG = reg, RG
        self.np = numpy
        self.kind = type(reg).__name__
        self.dim = reg.dimensionality
        if isinstance(reg, RG.PolygonalRegion):
            import shapely
            self.rings = []
            for poly in reg.polygons.geoms:
                for ring in [poly.exterior] + list(poly.interiors):
                    self.rings.append([(F(c[0]), F(c[1])) for c in ring.coords[:-1]])
            self.fl_edges = numpy.array([[a[0], a[1], b[0], b[1]] for r in self.rings for a, b in zip(r, r[1:] + r[:1])], dtype=float)
            self.scale = float(max(1.0, abs(numpy.array(reg.polygons.bounds)).max()))
        if isinstance(reg, RG.MeshRegion):
            self.rot = reg.mesh  # mesh already in world coordinates

    # ---- exact, three-valued, one point
    def exact(self, p):
        RG, reg = self.RG, self.reg
        x, y, z = (F(c) for c in p)
        if isinstance(reg, RG.GridRegion) or isinstance(reg, RG.PointSetRegion):
            # a grid is the point set of its free-cell centres (GridRegion._trueContainsPoint since 12542374), not its cells
            return any(pkey(q) == pkey(p) for q in reg.points)
        if isinstance(reg, RG.CircularRegion) or isinstance(reg, RG.SectorRegion):
            if z != F(reg.center.z):
                return False
            dx, dy = x - F(reg.center.x), y - F(reg.center.y)
            d2, R2 = dx * dx + dy * dy, F(reg.radius) ** 2
            # the polygon used by shapely-based compositions is inscribed: apothem R*cos(pi/(4*resolution))
            inner = R2 * F(math.cos(math.pi / (4 * reg.resolution)) ** 2 - 1e-6)
            if d2 > R2 * (1 + F(BAND)):
                return False
            rad = True if d2 <= inner else None
            if isinstance(reg, RG.CircularRegion):
                return rad
            if reg.angle >= math.tau - 0.001:
                return rad
            if d2 == 0:
                return None
            ang = math.atan2(float(dy), float(dx)) - (reg.heading + math.pi / 2)
            ang = (ang + math.pi) % math.tau - math.pi
            ha = reg.angle / 2
            tol = 1e-6 + math.pi / (4 * reg.resolution) * 0  # angular boundary is a straight edge in both representations
            if abs(ang) > ha + 1e-9 and abs(abs(ang) - ha) > 1e-6:
                return False
            if abs(abs(ang) - ha) <= 1e-6:
                return None
            return rad
        if isinstance(reg, RG.RectangularRegion):
            if z != F(reg.position.z):
                return False
            c, s_ = F(math.cos(reg.heading)), F(math.sin(reg.heading))
            dx, dy = x - F(reg.position.x), y - F(reg.position.y)
            u, v = c * dx + s_ * dy, c * dy - s_ * dx
            hw, hl = F(reg.hw), F(reg.hl)
            band = F(BAND) * (1 + hw + hl)
            if abs(u) > hw + band or abs(v) > hl + band:
                return False
            if abs(u) < hw - band and abs(v) < hl - band:
                return True
            return None
        if isinstance(reg, RG.PolygonalRegion):
            if z != F(reg.z):
                return False
            return self.polygon_exact(x, y)
        if isinstance(reg, (RG.PolylineRegion, RG.PathRegion)):
            if isinstance(reg, RG.PolylineRegion):
                segs = [((F(a[0]), F(a[1]), F(0)), (F(b[0]), F(b[1]), F(0))) for a, b in reg.segments]
            else:
                segs = [(tuple(F(c) for c in reg.vert_to_vec[a]), tuple(F(c) for c in reg.vert_to_vec[b])) for a, b in reg.edges]
            best = None
            for a, b in segs:
                d = seg_dist2((x, y, z), a, b)
                best = d if best is None or d < best else best
            sc = 1 + max(abs(float(c)) for a, b in segs for c in a + b)
            if best <= F(1e-9 * sc) ** 2:
                return True
            if best > F(1e-5 * sc) ** 2:
                return False
            return None
        if isinstance(reg, RG.VoxelRegion):
            res = False
            for vp in reg.voxel_points:
                inside, near = True, True
                for c, b, sc in zip((x, y, z), vp, reg.scale):
                    d = abs(c - F(b))
                    h = F(sc) / 2
                    if d > h * (1 - F(BAND)):
                        inside = False
                    if d > h * (1 + F(BAND)):
                        near = False
                if inside:
                    return True
                if near:
                    res = None
            return res
        if isinstance(reg, RG.MeshRegion):
            lo, hi = reg.mesh.bounds
            ext = float(max(hi - lo))
            for c, l, h in zip(p, lo, hi):
                if c < l - BAND * (1 + ext) or c > h + BAND * (1 + ext):
                    return False
            if isinstance(reg, RG.SpheroidRegion) and self.spheroid_q(self.np.array([p], dtype=float))[0] > 1 + 1e-9:
                return False
            if isinstance(reg, RG.MeshSurfaceRegion):
                d = float(reg.distanceTo(vec(p)))
                return True if d <= 1e-6 * (1 + ext) else (False if d > 1e-3 * (1 + ext) else None)
            # volumes: trimesh is the only oracle; abstain near the surface
            import trimesh
            d = abs(float(trimesh.proximity.ProximityQuery(reg.mesh).signed_distance([list(map(float, p))])[0]))
            if d <= 1e-6 * (1 + ext):
                return None
            return bool(reg.containsPoint(vec(p)))
        return None

    def polygon_exact(self, x, y):
        inside = False
        band2 = F(BAND * self.scale) ** 2
        for ring in self.rings:
            n = len(ring)
            for i in range(n):
                (x1, y1), (x2, y2) = ring[i], ring[(i + 1) % n]
                if seg_dist2((x, y, F(0)), (x1, y1, F(0)), (x2, y2, F(0))) <= band2:
                    return None
                if (y1 > y) != (y2 > y):
                    xi = x1 + (y - y1) * (x2 - x1) / (y2 - y1)
                    if x < xi:
                        inside = not inside
        return inside

    def spheroid_q(self, pts):
        reg = self.reg
        local = pts - self.np.array(list(reg.position), dtype=float)
        if reg.rotation is not None:
            local = reg.rotation.getRotation().inv().apply(local)
        half = self.np.array(list(reg.dimensions), dtype=float) / 2
        return ((local / half) ** 2).sum(axis=1)

    # ---- float, vectorised (reference samples only)
    def mask(self, pts):
        numpy, RG, reg = self.np, self.RG, self.reg
        pts = numpy.asarray(pts, dtype=float)
        if isinstance(reg, RG.PointSetRegion):      # grids included: the point set of the free-cell centres
            d, _ = reg.kdTree.query(pts)
            return d <= reg.tolerance
        if isinstance(reg, RG.CircularRegion) or isinstance(reg, RG.SectorRegion):
            dx, dy = pts[:, 0] - reg.center.x, pts[:, 1] - reg.center.y
            m = (dx * dx + dy * dy <= reg.radius ** 2) & (pts[:, 2] == reg.center.z)
            if isinstance(reg, RG.SectorRegion) and reg.angle < math.tau - 0.001:
                ang = numpy.arctan2(dy, dx) - (reg.heading + math.pi / 2)
                ang = (ang + math.pi) % math.tau - math.pi
                m &= numpy.abs(ang) <= reg.angle / 2
            return m
        if isinstance(reg, RG.RectangularRegion):
            c, s_ = math.cos(reg.heading), math.sin(reg.heading)
            dx, dy = pts[:, 0] - reg.position.x, pts[:, 1] - reg.position.y
            return (numpy.abs(c * dx + s_ * dy) <= reg.hw) & (numpy.abs(c * dy - s_ * dx) <= reg.hl) & (pts[:, 2] == reg.position.z)
        if isinstance(reg, RG.PolygonalRegion):
            import shapely
            return shapely.contains_xy(reg.polygons, pts[:, 0], pts[:, 1]) & (pts[:, 2] == reg.z)
        if isinstance(reg, (RG.PolylineRegion, RG.PathRegion)):
            segs = self.segments()
            a, b = segs[:, :3], segs[:, 3:]
            out = numpy.zeros(len(pts), dtype=bool)
            for i, p in enumerate(pts):
                ab = b - a
                t = numpy.clip(((p - a) * ab).sum(axis=1) / (ab * ab).sum(axis=1), 0, 1)
                out[i] = numpy.linalg.norm(a + t[:, None] * ab - p, axis=1).min() <= 1e-7
            return out
        if isinstance(reg, RG.VoxelRegion):
            out = numpy.zeros(len(pts), dtype=bool)
            for vp in reg.voxel_points:
                out |= (numpy.abs(pts - vp) <= reg.scale / 2).all(axis=1)
            return out
        if isinstance(reg, RG.SpheroidRegion):
            return self.spheroid_q(pts) <= 1.0
        if isinstance(reg, RG.BoxRegion):
            local = pts - numpy.array(list(reg.position), dtype=float)
            if reg.rotation is not None:
                local = reg.rotation.getRotation().inv().apply(local)
            return (numpy.abs(local) <= numpy.array(list(reg.dimensions), dtype=float) / 2).all(axis=1)
        if isinstance(reg, RG.MeshSurfaceRegion):
            import trimesh
            _, d, _ = trimesh.proximity.closest_point(reg.mesh, pts)
            return d <= 1e-7
        if isinstance(reg, RG.MeshVolumeRegion):
            return reg.mesh.contains(pts)
        raise NotImplementedError(self.kind)

    def slow(self):
        RG, reg = self.RG, self.reg
        return isinstance(reg, RG.MeshVolumeRegion) and not isinstance(reg, (RG.BoxRegion, RG.SpheroidRegion)) and len(reg.mesh.faces) > 300

    def segments(self):
        numpy, RG, reg = self.np, self.RG, self.reg
        if isinstance(reg, RG.PolylineRegion):
            return numpy.array([[a[0], a[1], 0.0, b[0], b[1], 0.0] for a, b in reg.segments], dtype=float)
        return numpy.array([list(reg.vert_to_vec[a]) + list(reg.vert_to_vec[b]) for a, b in reg.edges], dtype=float)

    def aabb(self):
        numpy, RG, reg = self.np, self.RG, self.reg
        lo, hi = reg.AABB
        lo, hi = list(map(float, lo)), list(map(float, hi))
        if len(lo) == 2:
            lo, hi = lo + [0.0], hi + [0.0]
        return numpy.array(lo), numpy.array(hi)

    def measure(self):
        RG, reg = self.RG, self.reg
        if isinstance(reg, RG.PolygonalRegion):
            if isinstance(reg, RG.CircularRegion):
                return math.pi * reg.radius ** 2
            if isinstance(reg, RG.SectorRegion):
                return min(reg.angle, math.tau) / 2 * reg.radius ** 2
            return reg.polygons.area
        if isinstance(reg, (RG.PolylineRegion, RG.PathRegion)):
            s = self.segments()
            return float(self.np.linalg.norm(s[:, 3:] - s[:, :3], axis=1).sum())
        if isinstance(reg, RG.MeshSurfaceRegion):
            return float(reg.mesh.area)
        if isinstance(reg, RG.PointSetRegion):
            return len(reg.points)
        return None

    def propose(self, nrng, n):
        """n points uniform on the leaf w.r.t. its own measure, by an implementation independent of regions.py"""
        numpy, RG, reg = self.np, self.RG, self.reg
        if isinstance(reg, RG.PointSetRegion):
            return numpy.asarray(reg.points, dtype=float)[nrng.integers(0, len(reg.points), n)]
        if isinstance(reg, (RG.PolylineRegion, RG.PathRegion)):
            s = self.segments()
            L = numpy.linalg.norm(s[:, 3:] - s[:, :3], axis=1)
            i = nrng.choice(len(s), size=n, p=L / L.sum())
            t = nrng.random(n)[:, None]
            return s[i, :3] + t * (s[i, 3:] - s[i, :3])
        if isinstance(reg, RG.MeshSurfaceRegion):
            tri = numpy.asarray(reg.mesh.triangles)
            A = numpy.asarray(reg.mesh.area_faces)
            i = nrng.choice(len(tri), size=n, p=A / A.sum())
            r1, r2 = numpy.sqrt(nrng.random(n))[:, None], nrng.random(n)[:, None]
            return (1 - r1) * tri[i, 0] + r1 * (1 - r2) * tri[i, 1] + r1 * r2 * tri[i, 2]
        lo, hi = self.aabb()
        out = []
        got, tries = 0, 0
        batch = max(n // 2, 200) if self.slow() else max(2 * n, 2000)
        while got < n and tries < 60:
            cand = lo + nrng.random((batch, 3)) * (hi - lo)
            if isinstance(reg, RG.PolygonalRegion):
                cand[:, 2] = reg.z
            m = self.mask(cand)
            out.append(cand[m])
            got += int(m.sum())
            tries += 1
        pts = numpy.concatenate(out) if out else numpy.zeros((0, 3))
        return pts[:n]


def seg_dist2(p, a, b):
    """exact squared distance from p to the closed segment ab (3-D, Fractions)"""
    ab = [bb - aa for aa, bb in zip(a, b)]
    ap = [pp - aa for aa, pp in zip(a, p)]
    den = sum(c * c for c in ab)
    t = Fraction(0) if den == 0 else max(Fraction(0), min(Fraction(1), sum(u * v for u, v in zip(ap, ab)) / den))
    return sum((pp - (aa + t * cc)) ** 2 for pp, aa, cc in zip(p, a, ab))


class Comp:
    """a composition node over Leafs mirroring set semantics (not the library's containsPoint)"""

    def __init__(self, op, args):
        self.op, self.args = op, args

    def slow(self):
        return any(a.slow() for a in self.args)

    @property
    def dim(self):
        ds = [a.dim for a in self.args]
        if any(d is None for d in ds):
            return None
        return min(ds) if self.op == "inter" else max(ds) if self.op == "union" else ds[0]

    def exact(self, p):
        if self.op == "inter":
            return tv_and(a.exact(p) for a in self.args)
        if self.op == "union":
            return tv_or(a.exact(p) for a in self.args)
        return tv_and([self.args[0].exact(p), tv_not(self.args[1].exact(p))])

    def mask(self, pts):
        ms = [a.mask(pts) for a in self.args]
        if self.op == "inter":
            out = ms[0]
            for m in ms[1:]:
                out = out & m
            return out
        if self.op == "union":
            out = ms[0]
            for m in ms[1:]:
                out = out | m
            return out
        return ms[0] & ~ms[1]

    def aabb(self):
        import numpy
        bs = [a.aabb() for a in (self.args if self.op != "diff" else self.args[:1])]
        return numpy.min([b[0] for b in bs], axis=0), numpy.max([b[1] for b in bs], axis=0)

    def measure(self):
        return None

    def propose(self, nrng, n):
        """reference sampler for the composed set (uniform w.r.t. its natural measure), independent of regions.py"""
        import numpy
        d = self.dim
        if d is None:
            raise NotImplementedError("dimension unknown")
        if self.op == "inter":
            src = [a for a in self.args if a.dim == d][0]
        elif self.op == "diff":
            src = self.args[0]
        else:
            tops = [a for a in self.args if a.dim == d]
            if d == 3:
                # bounding-box rejection over the top-dimensional operands only (lower-dimensional ones are null sets)
                if len(tops) < len(self.args):
                    sub = Comp("union", tops) if len(tops) > 1 else tops[0]
                    return sub.propose(nrng, n)
                src = None
            elif len(tops) == 1:
                src = tops[0]
            else:
                ms = [a.measure() for a in tops]
                if any(m is None for m in ms):
                    raise NotImplementedError("union of regions without a known measure")
                # overlaps of same-dimensional tops must be null sets for the mixture to be uniform
                planar = all(isinstance(a, Leaf) and isinstance(a.reg, a.RG.PolygonalRegion) for a in tops)
                if planar and len({float(a.reg.z) for a in tops}) < len(tops):
                    raise NotImplementedError("coplanar union (handled by the library through shapely)")
                if d == 0:
                    raise NotImplementedError("discrete unions are handled exactly")
                # mixture by measure, thinned by 1/multiplicity so that overlapping operands (e.g. two paths sharing a
                # polyline) are not counted twice: uniform w.r.t. the measure of the composed set
                out, got, tries = [], 0, 0
                while got < n and tries < 20:
                    k = 2 * n
                    counts = nrng.multinomial(k, numpy.array(ms) / sum(ms))
                    cand = numpy.concatenate([a.propose(nrng, int(c)) for a, c in zip(tops, counts) if c])
                    mult = numpy.sum([a.mask(cand) for a in tops], axis=0)
                    keep = nrng.random(len(cand)) < 1.0 / numpy.maximum(mult, 1)
                    sel = cand[keep]
                    nrng.shuffle(sel)
                    out.append(sel)
                    got += len(sel)
                    tries += 1
                return numpy.concatenate(out)[:n]
        out, got, tries = [], 0, 0
        lo, hi = self.aabb()
        while got < n and tries < 40:
            k = max(n // 2, 200) if self.slow() else max(2 * n, 2000)
            cand = src.propose(nrng, k) if src is not None else lo + nrng.random((k, 3)) * (hi - lo)
            if len(cand) == 0:
                break
            m = self.mask(cand)
            out.append(cand[m])
            got += int(m.sum())
            tries += 1
        pts = numpy.concatenate(out) if out else numpy.zeros((0, 3))
        return pts[:n]


def mirror(reg, RG, cache=None):
    """library region -> independent Leaf/Comp description (None if some part is not understood)"""
    if isinstance(reg, RG.IntersectionRegion):
        return Comp("inter", [mirror(r, RG) for r in reg.regions])
    if isinstance(reg, RG.UnionRegion):
        return Comp("union", [mirror(r, RG) for r in reg.regions])
    if isinstance(reg, RG.DifferenceRegion):
        return Comp("diff", [mirror(reg.regionA, RG), mirror(reg.regionB, RG)])
    return Leaf(reg, RG)


S_KINDS = ["box", "spheroid", "mesh", "surface", "polygon_holes", "multipolygon", "circle", "sector", "rect",
           "polyline", "path", "pointset", "grid", "voxel", "view"]


def make_any(rng, RG, kind):
    if kind == "pointset":
        return RG.PointSetRegion("ps", [(rng.uniform(-3, 3), rng.uniform(-3, 3), rng.choice([0, 0, 1.5])) for _ in range(rng.randint(3, 40))])
    if kind == "grid":
        return gen_grid(rng, RG)
    return make_continuous(rng, RG, kind)


def chi2_two_sample(a, b):
    """two-sample chi-square on count vectors a (n samples) and b (m reference points); returns (stat, df, p)"""
    import numpy
    from scipy.stats import chi2
    a, b = numpy.asarray(a, dtype=float), numpy.asarray(b, dtype=float)
    n, m = a.sum(), b.sum()
    # merge sparse cells (expected sample count < 8) into one
    exp = n * (a + b) / (n + m)
    small = exp < 8
    if small.any() and (~small).any():
        a = numpy.append(a[~small], a[small].sum())
        b = numpy.append(b[~small], b[small].sum())
    keep = (a + b) > 0
    a, b = a[keep], b[keep]
    if len(a) < 2:
        return 0.0, 0, 1.0
    k1, k2 = math.sqrt(m / n), math.sqrt(n / m)
    stat = float((((k1 * a - k2 * b) ** 2) / (a + b)).sum())
    df = len(a) - 1
    return stat, df, float(chi2.sf(stat, df))


def cells_of(pts, lo, hi, dim):
    import numpy
    pts = numpy.asarray(pts, dtype=float)
    ext = numpy.where(hi - lo > 1e-12, hi - lo, 1.0)
    nb = numpy.array([4, 4, 3] if dim == 3 else [5, 5, 2])
    idx = numpy.clip(((pts - lo) / ext * nb).astype(int), 0, nb - 1)
    return idx[:, 0] * nb[1] * nb[2] + idx[:, 1] * nb[2] + idx[:, 2], int(nb.prod())


def sample_region(reg, RG, n, max_attempts):
    """n samples of reg.uniformPointInner() (rejections retried): returns (points, n_reject, outcome)"""
    from scenic.core.distributions import RejectionException
    pts, rej = [], 0
    for _ in range(max_attempts):
        if len(pts) >= n:
            break
        try:
            pts.append(pkey(reg.uniformPointInner()))
        except RejectionException:
            rej += 1
        except RG.UndefinedSamplingException:
            return pts, rej, "undefined-sampling"
        except Exception as e:
            return pts, rej, ("crash", type(e).__name__, str(e)[:160], traceback.format_exc()[-600:])
    return pts, rej, "ok"


def check_region(ctx, RG, reg, desc, rep, n, tag):
    """the property on one real region: no crash, membership of every sample, support and uniformity"""
    import numpy
    found = False
    t0 = time.time()
    pts, rej, outcome = sample_region(reg, RG, n, 6 * n)
    ctx.evaluations += len(pts) + rej
    if isinstance(outcome, tuple):
        ctx.hist("S_outcome", f"crash:{outcome[1]}")
        return report_crash2(ctx, RG, reg, outcome, desc, rep)
    if outcome != "ok":
        ctx.hist("S_outcome", outcome)
        return False
    if len(pts) < max(20, n // 10):
        ctx.hist("S_outcome", "mostly-rejected" if pts else "always-rejected")
        if not pts:
            # full-support clause: a composed set of positive measure must be reachable
            return check_unreachable(ctx, RG, reg, desc, rep, tag)
    ctx.case(("S", desc, tuple(pts[:3])), nontrivial=len(set(pts)) >= 2)
    try:
        mir = mirror(reg, RG)
    except Exception as e:
        ctx.hist("S_outcome", f"no-mirror:{type(e).__name__}")
        return False
    # ---- membership (exact, three-valued)
    und = 0
    for p in pts:
        v = mir.exact(p)
        if v is None:
            und += 1
        elif v is False:
            why = explain(mir, p)
            key = classify(RG, f"membership:{tag}", "membership", res=reg, point=p)
            ctx.hist("S_outcome", "membership-violation")
            return bool(ctx.violation(key, f"{desc} returned {p}, which is not in the region ({why})", dict(rep, point=list(p))))
    ctx.hist("S_membership", "decided", len(pts) - und)
    ctx.hist("S_membership", "undecided(boundary band)", und)
    if tag == type(reg).__name__ and not isinstance(reg, (RG.IntersectionRegion, RG.UnionRegion, RG.DifferenceRegion)):
        found |= self_recognition(ctx, RG, reg, pts, desc, rep)
    # ---- support + uniformity against an independent reference sampler
    if len(pts) >= 150 and mir.dim not in (None, 0):
        try:
            nrng = numpy.random.default_rng(ctx.rng.getrandbits(32))
            ref = mir.propose(nrng, (3 if mir.slow() else 6) * len(pts))
        except NotImplementedError as e:
            ctx.hist("S_uniformity", f"no-reference:{str(e)[:40]}")
            ref = None
        if ref is not None and len(ref) >= 2 * len(pts):
            lo = numpy.minimum(numpy.min(ref, axis=0), numpy.min(numpy.array(pts), axis=0))
            hi = numpy.maximum(numpy.max(ref, axis=0), numpy.max(numpy.array(pts), axis=0))
            ca, k = cells_of(pts, lo, hi, mir.dim)
            cb, _ = cells_of(ref, lo, hi, mir.dim)
            a = numpy.bincount(ca, minlength=k)
            b = numpy.bincount(cb, minlength=k)
            stat, df, pval = chi2_two_sample(a, b)
            exp = len(pts) * b / max(1, b.sum())
            holes = [int(i) for i in numpy.nonzero((exp >= 25) & (a == 0))[0]]
            ctx.hist("S_uniformity", "tested")
            ctx.extra.setdefault("chi2_tests", []).append(
                {"region": desc[:140], "n": len(pts), "ref": int(len(ref)), "df": df, "stat": round(stat, 2), "p": float(f"{pval:.3g}"),
                 "cells": a.tolist() if len(ctx.extra.get("chi2_tests", [])) < 6 else "…"})
            if holes:
                found |= bool(ctx.violation(classify(RG, f"support-hole:{tag}", "uniformity", res=reg),
                                            f"{desc}: cell(s) {holes[:5]} of the region hold {[round(float(exp[i]), 1) for i in holes[:5]]} expected samples "
                                            f"but received none in {len(pts)} draws", dict(rep, n=len(pts))))
            elif pval < 1e-6:
                found |= bool(ctx.violation(classify(RG, f"non-uniform:{tag}", "uniformity", res=reg),
                                            f"{desc}: chi-square against an independent uniform reference rejects uniformity "
                                            f"(stat={stat:.1f}, df={df}, p={pval:.2g}; sample cells {a.tolist()}, reference cells {b.tolist()})",
                                            dict(rep, n=len(pts))))
        elif ref is not None:
            ctx.hist("S_uniformity", "reference-too-small")
    ctx.hist("S_outcome", "ok")
    return found


def self_recognition(ctx, RG, reg, pts, desc, rep):
    """hypothesis `contains = atoms` of the union / intersection theorems: a region's `_trueContainsPoint` accepts its own
    samples.  If it does not, the generic intersection with a superset rejects every draw (searched on the real code)."""
    sub = pts[:120]
    try:
        miss = [p for p in sub if not bool(reg._trueContainsPoint(vec(p)))]
    except Exception as e:
        ctx.hist("S_self_recognition", f"error:{type(e).__name__}")
        return False
    ctx.hist("S_self_recognition", "recognised", len(sub) - len(miss))
    if len(miss) <= max(2, len(sub) // 20):     # a few boundary samples may be lost to rounding
        if miss:
            ctx.hist("S_self_recognition", "boundary-misses", len(miss))
        return False
    ctx.broken("correspondence", "a region recognises its own samples (hypothesis of the union/intersection theorems)",
               f"{desc}: _trueContainsPoint rejects {len(miss)} of {len(sub)} of its own samples, e.g. {miss[0]}")
    # failing-input search: the generic intersection with a box that contains the whole region must be reachable
    try:
        import numpy
        P = numpy.array(pts)
        lo, hi = P.min(axis=0) - 1.0, P.max(axis=0) + 1.0
        from scenic.core.vectors import Vector
        big = RG.BoxRegion(dimensions=tuple(float(x) for x in (hi - lo)), position=Vector(*[float(x) for x in (lo + hi) / 2]))
        inter = RG.IntersectionRegion(reg, big)
        got, rej, outcome = sample_region(inter, RG, 30, 200)
        if outcome == "ok" and len(got) < 10:
            return bool(ctx.violation(f"unreachable:generic-intersection-with-superset:{type(reg).__name__}",
                                      f"IntersectionRegion({desc}, <box containing it>): {rej} of {rej + len(got)} draws were rejected because "
                                      f"the region's _trueContainsPoint rejects its own samples (e.g. {miss[0]})",
                                      dict(rep, kind="self-superset", box=[list(map(float, lo)), list(map(float, hi))])))
    except Exception as e:
        ctx.hist("S_self_recognition", f"search-error:{type(e).__name__}")
    return False


def explain(mir, p):
    if isinstance(mir, Leaf):
        return f"{mir.kind}: {mir.exact(p)}"
    return mir.op + "(" + ", ".join(explain(a, p) for a in mir.args) + ")"


def check_unreachable(ctx, RG, reg, desc, rep, tag):
    """the sampler always rejected: violation if the composed set has positive measure (reference finds points)"""
    import numpy
    try:
        mir = mirror(reg, RG)
        if mir.dim in (None, 0):
            return False
        nrng = numpy.random.default_rng(ctx.rng.getrandbits(32))
        ref = mir.propose(nrng, 400)
    except Exception:
        return False
    if len(ref) >= 200:
        return bool(ctx.violation(classify(RG, f"unreachable:{tag}", "unreachable", res=reg),
                                  f"{desc}: every draw was rejected although the composed set has positive measure "
                                  f"(an independent sampler found {len(ref)} points in it, e.g. {ref[0].tolist()})", rep))
    return False


def report_crash2(ctx, RG, reg, outcome, desc, rep):
    _, exc, msg, tb = outcome
    key = classify(RG, crash_key("sample", reg, RG, exc), "crash", res=reg, msg=msg)
    return bool(ctx.violation(key, f"sampling {desc} raised {exc}: {msg}", dict(rep, traceback=tb)))


def comp_tag(op, a, b, res):
    return f"{op}:{type(a).__name__}:{type(b).__name__}->{type(res).__name__}"


# regression corpus of (S): ordered pairs whose specialised handlers carried a repaired defect or a witness of the theorems;
# (kind A, kind B, operation, z of the planar operands or None = drawn).  They run first and outside the time box.
S_MUST = [("polygon_holes", "polyline", "intersect", 1.5), ("polygon_holes", "polyline", "difference", 1.5),
          ("polyline", "polygon_holes", "difference", 1.5), ("polyline", "polygon_holes", "intersect", 1.5),
          ("multipolygon", "polyline", "intersect", 1.5), ("polygon_holes", "polyline", "intersect", 0),
          ("pointset", "polyline", "intersect", None), ("pointset", "rect", "intersect", 1.5), ("pointset", "multipolygon", "intersect", 1.5),
          ("polyline", "polyline", "union", None), ("polygon_holes", "multipolygon", "union", None), ("path", "path", "union", None),
          ("rect", "circle", "union", None), ("circle", "sector", "difference", None), ("sector", "circle", "difference", None),
          ("pointset", "mesh", "intersect", None), ("mesh", "pointset", "intersect", None),
          ("polyline", "box", "union", None), ("box", "voxel", "union", None), ("polyline", "voxel", "intersect", None),
          ("surface", "polygon_holes", "union", None), ("polyline", "surface", "intersect", None), ("path", "box", "intersect", None),
          ("box", "spheroid", "union", None), ("polygon_holes", "box", "intersect", None)]


def run_pair(ctx, RG, rng, ka, kb, op, z, n):
    """build A.op(B) and check it; returns (accepted, found)"""
    try:
        A, B = make_pair(rng, RG, ka, kb, z)
        res = getattr(A, op)(B)
    except Exception as e:
        ctx.hist("S_composition", f"{op}:{ka}:{kb}:not-accepted:{type(e).__name__}")
        return False, False
    desc = f"{describe(A, RG)}.{op}({describe(B, RG)})"[:300]
    rep = {"kind": "composition", "op": op, "a": rebuild_spec(A, RG), "b": rebuild_spec(B, RG), "n": n}
    if isinstance(res, RG.EmptyRegion):
        ctx.hist("S_composition", f"{op}:empty")
        return True, check_empty(ctx, RG, A, B, op, desc, rep)
    ctx.hist("S_composition", f"{op}->{type(res).__name__}")
    return True, check_composition(ctx, RG, A, B, op, res, desc, rep, n)


def check_empty(ctx, RG, A, B, op, desc, rep):
    """A.op(B) = nowhere: the composed set must have no measure (an independent sampler finds no point of it)"""
    import numpy
    truth = Comp({"intersect": "inter", "union": "union", "difference": "diff"}[op], [mirror(A, RG), mirror(B, RG)])
    try:
        if truth.dim in (None, 0):
            return False
        ref = truth.propose(numpy.random.default_rng(ctx.rng.getrandbits(32)), 400)
    except Exception:
        return False
    if len(ref) >= 200:
        return bool(ctx.violation(f"unreachable:{op}:{type(A).__name__}:{type(B).__name__}->EmptyRegion",
                                  f"{desc} is the empty region although the composed set has positive measure "
                                  f"(an independent sampler found {len(ref)} points in it, e.g. {ref[0].tolist()})", rep))
    return False


def direct_oracle(ctx, RG):
    rng = ctx.rng
    n = ctx.budget(400, 800)
    found = False
    # ---- regression corpus and theorem witnesses first: never cut off by the time box
    t0 = time.time()
    for (ka, kb, op, z) in S_MUST:
        ok, f = run_pair(ctx, RG, rng, ka, kb, op, z, n)
        found |= f
    ctx.extra["S_must_pairs"] = len(S_MUST)
    ctx.extra.setdefault("phase_seconds", {})["S must-pairs"] = round(time.time() - t0, 1)
    # ---- every kind on its own
    for kind in S_KINDS + ["polygon", "polygon_earcut"]:
        for rep_i in range(ctx.budget(1, 4)):
            try:
                reg = make_any(rng, RG, kind)
            except Exception as e:
                ctx.hist("S_kind", f"{kind}:build-refused:{type(e).__name__}")
                continue
            ctx.hist("S_kind", kind)
            nn = 4 * n if kind == "polygon_earcut" else n
            rep = {"kind": "region", "build": rebuild_spec(reg, RG), "n": nn}
            found |= check_region(ctx, RG, reg, repr(reg)[:160], rep, nn, f"{type(reg).__name__}")
    # ---- random ordered pairs x {intersect, union, difference}: time-boxed (a cut-off is reported as a note, never as a failure)
    deadline = time.time() + ctx.budget(60, 700)
    triples = [(a, b, op) for a in S_KINDS for b in S_KINDS for op in ("intersect", "union", "difference")]
    rng.shuffle(triples)
    limit = ctx.budget(10, len(triples))
    done = 0
    for (ka, kb, op) in triples:
        if done >= limit or time.time() > deadline:
            break
        ok, f = run_pair(ctx, RG, rng, ka, kb, op, None, n)
        found |= f
        done += ok
    if done < limit:
        ctx.notes.append(f"S stopped after {done} of {limit} random compositions (time box); the regression pairs and the kinds were all explored")
    ctx.extra["S_compositions_checked"] = done + len(S_MUST)
    ctx.extra["S_compositions_total"] = len(triples)
    return found


def make_pair(rng, RG, ka, kb, z):
    """two operands; polylines/paths are built without their default orientation field: a union with an oriented
    operand rejects, by PiecewiseVectorField's documented behaviour, every point outside the oriented operand"""
    def one(kind):
        r = make_any(rng, RG, kind)
        if isinstance(r, RG.PolylineRegion):
            r = RG.PolylineRegion(polyline=r.lineString, orientation=None)
        elif isinstance(r, RG.PathRegion):
            r = RG.PathRegion(polylines=[[tuple(r.vert_to_vec[a]), tuple(r.vert_to_vec[b])] for a, b in r.edges], orientation=None)
        elif z is not None and type(r) is RG.PolygonalRegion:
            r = RG.PolygonalRegion(polygon=r.polygons, z=z)     # regression pairs fix the height of the polygon
        return r
    return one(ka), one(kb)


def check_composition(ctx, RG, A, B, op, res, desc, rep, n):
    """the result of A.op(B) must sample inside the set-theoretic composition of A and B"""
    tag = comp_tag(op, A, B, res)
    found = False
    pts, rej, outcome = sample_region(res, RG, n, 6 * n)
    ctx.evaluations += len(pts) + rej
    if isinstance(outcome, tuple):
        ctx.hist("S_outcome", f"crash:{outcome[1]}")
        return report_crash2(ctx, RG, res, outcome, desc, rep)
    if outcome != "ok":
        ctx.hist("S_outcome", outcome)
        return False
    import numpy
    truth = Comp({"intersect": "inter", "union": "union", "difference": "diff"}[op], [mirror(A, RG), mirror(B, RG)])
    if not pts:
        ctx.hist("S_outcome", "always-rejected")
        try:
            if truth.dim not in (None, 0):
                ref = truth.propose(numpy.random.default_rng(ctx.rng.getrandbits(32)), 400)
                if len(ref) >= 200:
                    return bool(ctx.violation(classify(RG, f"unreachable:{tag}", "unreachable", res=res, A=A, B=B),
                                              f"{desc}: every one of {rej} draws was rejected although the composed set has positive measure "
                                              f"(an independent sampler found points in it, e.g. {ref[0].tolist()})", rep))
        except NotImplementedError:
            pass
        return False
    ctx.case(("S2", desc, tuple(pts[:3])), nontrivial=len(set(pts)) >= 2)
    und = 0
    for p in pts:
        v = truth.exact(p)
        if v is None:
            und += 1
        elif v is False:
            ctx.hist("S_outcome", "membership-violation")
            return bool(ctx.violation(classify(RG, f"membership:{tag}", "membership", res=res, A=A, B=B, point=p),
                                      f"{desc} returned {p}, which is not in the composed set ({explain(truth, p)})",
                                      dict(rep, point=list(p))))
    ctx.hist("S_membership", "decided", len(pts) - und)
    ctx.hist("S_membership", "undecided(boundary band)", und)
    if len(pts) >= 150 and truth.dim not in (None, 0):
        try:
            ref = truth.propose(numpy.random.default_rng(ctx.rng.getrandbits(32)), (3 if truth.slow() else 6) * len(pts))
        except NotImplementedError as e:
            ctx.hist("S_uniformity", f"no-reference:{str(e)[:40]}")
            ref = None
        if ref is not None and len(ref) >= 2 * len(pts):
            P = numpy.array(pts)
            lo, hi = numpy.minimum(ref.min(axis=0), P.min(axis=0)), numpy.maximum(ref.max(axis=0), P.max(axis=0))
            ca, k = cells_of(P, lo, hi, truth.dim)
            cb, _ = cells_of(ref, lo, hi, truth.dim)
            a, b = numpy.bincount(ca, minlength=k), numpy.bincount(cb, minlength=k)
            stat, df, pval = chi2_two_sample(a, b)
            exp = len(pts) * b / max(1, b.sum())
            holes = [int(i) for i in numpy.nonzero((exp >= 25) & (a == 0))[0]]
            ctx.hist("S_uniformity", "tested")
            ctx.extra.setdefault("chi2_tests", []).append(
                {"region": desc[:140], "n": len(pts), "ref": int(len(ref)), "df": df, "stat": round(stat, 2), "p": float(f"{pval:.3g}")})
            if holes:
                found |= bool(ctx.violation(classify(RG, f"support-hole:{tag}", "uniformity", res=res, A=A, B=B),
                                            f"{desc}: cell(s) {holes[:5]} of the composed set hold {[round(float(exp[i]), 1) for i in holes[:5]]} expected samples "
                                            f"but received none in {len(pts)} draws", rep))
            elif pval < 1e-6:
                found |= bool(ctx.violation(classify(RG, f"non-uniform:{tag}", "uniformity", res=res, A=A, B=B),
                                            f"{desc}: chi-square against an independent uniform reference on the composed set rejects uniformity "
                                            f"(stat={stat:.1f}, df={df}, p={pval:.2g}; sample cells {a.tolist()}, reference cells {b.tolist()})", rep))
        elif ref is not None:
            ctx.hist("S_uniformity", "reference-too-small")
    ctx.hist("S_outcome", "ok")
    return found


# =========================================================================================== (C4) language level
LANG_REGIONS = [
    ("polygon z=1.5", "PolygonalRegion([(0, 0), (4, 0), (4, 3), (1.5, 1), (0, 3)], z=1.5)"),
    ("circle z=-2", "CircularRegion((1, 2, -2), 2.5)"),
    ("sector wide", "SectorRegion(Vector(0, 0, 0.5), 3, 0.7, 4.0)"),
    ("rect", "RectangularRegion((1, -1, 2.25), 0.4, 3, 5)"),
    ("box", "BoxRegion(dimensions=(2, 3, 1.5), position=(1, 1, 4))"),
    ("path", "PathRegion(points=[(0, 0, 0), (2, 0, 1), (2, 3, 1)])"),
    ("pointset", "PointSetRegion('ps', [(0, 0, 0), (1, 2, 3), (4, 5, 6), (-1, -1, 2)])"),
    ("union", "RectangularRegion((0, 0, 0), 0, 2, 2).union(CircularRegion((5, 5, 1), 1))"),
]


def lang_program(expr, spec):
    return (f"reg = {expr}\nparam reg = reg\n"
            f"ego = new Object {spec} reg, with allowCollisions True, with requireVisible False, with shape BoxShape(dimensions=(1, 1, 1))\n")


def lang_draw(prog, n, seed):
    """positions of the object placed `in`/`on` the region by the real compiler + sampler; returns (region, points drawn)"""
    import numpy
    import scenic
    random.seed(seed)
    numpy.random.seed(seed)
    sc = scenic.scenarioFromString(prog, mode2D=False)
    out, reg = [], None
    for _ in range(n):
        scene, _ = sc.generate(maxIterations=200, verbosity=0)
        ego = scene.egoObject
        reg = scene.params["reg"]
        off = (float(ego.contactTolerance) / 2 + float(ego.height) / 2) if " on " in prog else 0.0
        out.append((float(ego.position.x), float(ego.position.y), float(ego.position.z) - off))
    return reg, out


def corr_language(ctx, RG):
    """(C4) the glue between the specifiers and the samplers: `new Object in R` / `on R` place the object at (an offset of) a
    point that the region's sampler drew; `Region.uniformPointIn(R).z` agrees with the drawn z"""
    found = False
    n = ctx.budget(12, 60)
    for name, expr in LANG_REGIONS:
        for spec in ("in", "on"):
            if spec == "on" and name in ("pointset", "path", "box", "union"):
                continue
            prog = lang_program(expr, spec)
            seed = ctx.rng.getrandbits(32)
            try:
                reg, pts = lang_draw(prog, n, seed)
            except Exception as e:
                ctx.hist("language_level", f"{spec}:{name}:not-run:{type(e).__name__}")
                continue
            ctx.hist("language_level", f"{spec}:{name}")
            mir = mirror(reg, RG)
            for p in pts:
                ctx.case(("lang", name, spec, p), nontrivial=True)
                # `on`: the base of the object touches the region (z offset removed above, up to rounding)
                q = p if spec == "in" else (p[0], p[1], round(p[2], 9) if abs(p[2] - round(p[2], 9)) < 1e-12 else p[2])
                v = mir.exact(q) if spec == "in" else mir.exact(tuple(nearest_z(reg, RG, q)))
                if v is False:
                    found |= bool(ctx.violation(f"language-level:{spec}:{type(reg).__name__}",
                                                f"`new Object {spec} {expr}` was placed at {p} (offset removed), which is not in the region",
                                                {"kind": "language", "program": prog, "seed": seed, "n": n, "spec": spec}))
                    break
    # PointInRegionDistribution.z (constant folding of the z coordinate) against the z of the samples
    from scenic.core.distributions import Samplable
    for kind in ("polygon_holes", "circle", "rect", "polyline", "grid", "path", "box"):
        reg = make_any(ctx.rng, RG, kind)
        d = RG.Region.uniformPointIn(reg)
        try:
            zexpr = d.z
            for _ in range(4):
                smp = Samplable.sampleAll([d] + ([zexpr] if isinstance(zexpr, Samplable) else []))
                zval = smp[zexpr] if isinstance(zexpr, Samplable) else zexpr
                ctx.case(("lang-z", kind, pkey(smp[d])))
                if float(zval) != float(smp[d].z):
                    found |= bool(ctx.violation(f"language-level:z-of-point-in:{type(reg).__name__}",
                                                f"(point in {reg!r}).z evaluates to {zval} but the sampled point is {tuple(smp[d])}",
                                                {"kind": "region", "build": rebuild_spec(reg, RG), "n": 20}))
                    break
            ctx.hist("language_level", f"z-of-point-in:{kind}")
        except Exception as e:
            ctx.hist("language_level", f"z-of-point-in:{kind}:not-run:{type(e).__name__}")
    return found


def nearest_z(reg, RG, q):
    """`on`: snap the recovered z to the region's height when it is within rounding of it (planar regions)"""
    z = getattr(reg, "z", None)
    if z is not None and abs(float(z) - q[2]) < 1e-9:
        return (q[0], q[1], float(z))
    return q


def replay_language(rep):
    RG = real()
    reg, pts = lang_draw(rep["program"], int(rep.get("n", 12)), int(rep["seed"]))
    mir = mirror(reg, RG)
    print(rep["program"])
    bad = [p for p in pts if mir.exact(tuple(nearest_z(reg, RG, p))) is False]
    print(f"{len(bad)} of {len(pts)} placements are outside the region", bad[:3])
    return 0


# =========================================================================================== main
def run(ctx):
    ctx.rule = ("cases = (C1) generated discrete region compositions (point sets, grids, their unions/intersections/"
                "differences, nested, and with continuous regions as predicates/candidate balls), each with its exact PMF "
                "enumerated from the real sampler; (C2) recorded real samples of the closed-form samplers; (C3) circumcircles; "
                "(S) region kinds and ordered pairwise compositions sampled on the real code. Non-trivial = a PMF with at "
                "least two outcomes or a proper rejection mass; a sample batch with at least two distinct points; distinct by content hash")
    ctx.assumptions += [
        "CPython's random module is idealised as exact distributions (random() uniform on [0,1), choices/randrange exact); "
        "float thresholds such as 1 - 1/3 are snapped to the nearby small rational",
        "continuous regions are abstracted as finite sets of equal-measure atoms in the uniformity theorems; "
        "continuous uniformity on the real code is validated statistically (chi-square, fixed seeds), not proved",
        "trimesh's volume/surface samplers, shapely predicates and mapbox_earcut triangulation are trusted oracles "
        "(their outputs are checked for membership / partition of the polygon, not modelled)",
        "cos/sin enter the closed-form theorems only through c^2+s^2=1 and monotonicity of cos on [0, pi]",
    ]
    ctx.trusted_base += ["tools/translate/regionsampling.py (template extraction)",
                         "tools/props/c03.py (RNG-branch enumerator, recorders, exact-rational membership oracles, chi-square harness)"]
    ctx.fingerprint(FINGERPRINTS)
    from translate import regionsampling
    try:
        ctx.gen("RegionSampling", regionsampling.to_lean(regionsampling.extract()))
    except TemplateMismatch as e:
        ctx.escalated.append(f"translator tie lost (regionsampling): {e}")
        ctx.notes.append(f"translator tie lost: {e}; relying on the correspondence at thorough budget")
    t0 = time.time()
    pr = ctx.prove(THEOREMS, side_conditions=SIDE)
    ctx.extra.setdefault("phase_seconds", {})["prove"] = round(time.time() - t0, 1)
    if ctx.tier == "thorough" and pr.build_ok:
        ctx.leanchecker(["ScenicModel.Props.C03", "ScenicModel.Props.C03Geo"])
    RG = real()
    seed_all(ctx)
    found = False
    driver_ok = pr.build_ok
    if not driver_ok:
        # the regenerated data may only break the proofs: the driver (Model + Gen) can still be built and run
        rc, log = ctx.lake(["build", "drv_c03"])
        driver_ok = rc == 0
    def phase(name, f, *a):
        t = time.time()
        r = f(ctx, RG, *a)
        ctx.extra["phase_seconds"][name] = round(time.time() - t, 1)
        return bool(r)
    if driver_ok:
        found |= phase("C1 discrete PMFs", corr_discrete)
        found |= phase("C2 closed forms", corr_closed_forms)
        found |= phase("C3 circumcircles", corr_circumcircles)
    found |= phase("C4 language level", corr_language)
    found |= phase("S direct oracle", direct_oracle)
    ctx.resolve_brokens(found)


def replay(ctx, path):
    """re-execute a recorded failing input against /repo and print what happens"""
    import numpy
    body = json.load(open(path))
    rep = body.get("replay", body)
    RG = real()
    kind = rep.get("kind")
    print("key:", body.get("key"))
    print("what:", str(body.get("what"))[:600])
    seed = int(rep.get("seed", 0))
    random.seed(seed)
    numpy.random.seed(seed)
    if kind == "self-superset":
        from scenic.core.vectors import Vector
        reg = build_from_spec(rep["build"], RG)
        lo, hi = rep["box"]
        big = RG.BoxRegion(dimensions=tuple(h - l for l, h in zip(lo, hi)), position=Vector(*[(l + h) / 2 for l, h in zip(lo, hi)]))
        pts, rej, outcome = sample_region(RG.IntersectionRegion(reg, big), RG, 30, 200)
        own = [pkey(reg.uniformPointInner()) for _ in range(50)]
        print(f"IntersectionRegion({describe(reg, RG)[:200]}, box): drew {len(pts)} points, {rej} rejections, outcome {outcome}")
        print(f"own samples recognised by _trueContainsPoint: {sum(bool(reg._trueContainsPoint(vec(p))) for p in own)} of {len(own)}")
        return 0
    if kind == "language":
        return replay_language(rep)
    if kind in ("discrete", "crash", "region", "circumcircle"):
        reg = build_from_spec(rep["build"], RG)
        print("region:", describe(reg, RG)[:400])
        if kind == "circumcircle":
            print("circumcircle:", reg.circumcircle)
            return 0
        if kind == "discrete":
            refl = Reflect(RG, None)
            refl.collect_points(reg)
            try:
                pmf, npaths = real_pmf(reg, RG, refl.universe)
                for k, v in sorted(pmf.items(), key=str):
                    print("  P[", k, "] =", v)
                truth = true_members(reg, RG, refl.universe)
                print("  composed set:", sorted(truth))
            except NotDiscrete as e:
                print("not discrete:", e)
            return 0
        A = B = None
        res, op = reg, None
    elif kind == "composition":
        A, B = build_from_spec(rep["a"], RG), build_from_spec(rep["b"], RG)
        op = rep["op"]
        res = getattr(A, op)(B)
        print(f"{describe(A, RG)[:200]} .{op}( {describe(B, RG)[:200]} ) -> {type(res).__name__}")
    else:
        print(json.dumps(rep, indent=1)[:3000])
        return 0
    n = int(rep.get("n", 400))
    pts, rej, outcome = sample_region(res, RG, n, 6 * n)
    print(f"drew {len(pts)} points, {rej} rejections, outcome: {outcome if not isinstance(outcome, tuple) else outcome[:3]}")
    if isinstance(outcome, tuple):
        print(outcome[3])
        return 0
    truth = mirror(res, RG) if op is None else Comp({"intersect": "inter", "union": "union", "difference": "diff"}[op], [mirror(A, RG), mirror(B, RG)])
    if "point" in rep:
        p = tuple(rep["point"])
        print("recorded point", p, "-> exact membership:", explain(truth, p))
        for nm, r in (("A", A), ("B", B), ("result", res)):
            if r is not None:
                try:
                    print(f"  {nm}._trueContainsPoint = {bool(r._trueContainsPoint(vec(p)))}  containsPoint = {bool(r.containsPoint(vec(p)))}")
                except Exception as e:
                    print(f"  {nm}: {type(e).__name__}: {e}")
    bad = [p for p in pts if truth.exact(p) is False]
    print(f"{len(bad)} of {len(pts)} fresh samples are outside the composed set", (bad[:3] if bad else ""))
    return 0
