"""C18 — encoded scenes and simulations decode and replay to the same thing.

Proof:  lean/ScenicModel/Props/C18*.lean  (codec round trips, truncation refusal, divergence symmetry,
        sample-DAG round trip), instantiated on data regenerated from /repo by translate/intcodec.py
        and translate/divergence.py.
Tie:    (T) the two translators; (C) Lean driver vs the real codecs on boundary-dense inputs,
        truncations and corruptions; plus the direct property oracle on the real code
        (scene / replay round trips, every truncation, single-byte corruptions, header mismatches,
        divergence of either sign).
"""
import io
import json
import math
import random
import struct
import sys
import time
from fractions import Fraction

from vlib.ctx import TemplateMismatch

THEOREMS = [
    "Scenic.Codec.int_roundtrip",
    "Scenic.Codec.int_truncation_refused",
    "Scenic.Codec.writeInt_none_iff",
    "Scenic.Codec.writeInt_bytesOK",
    "Scenic.Codec.readInt_mono",
    "Scenic.Codec.bool_roundtrip",
    "Scenic.Codec.bytes_roundtrip",
    "Scenic.Codec.bytes_truncation_refused",
    "Scenic.Codec.strict_prefix_refused",
    "Scenic.C18.int_roundtrip",
    "Scenic.C18.int_truncation_refused",
    "Scenic.C18.bool_roundtrip",
    "Scenic.C18.bytes_roundtrip",
    "Scenic.C18.bytes_truncation_refused",
    "Scenic.C18.scalar_divergence_symmetric",
    "Scenic.C18.signed_difference_misses_negative",
    "Scenic.Sample.value_roundtrip",
    "Scenic.Sample.sample_roundtrip",
    "Scenic.Sample.sample_truncation_refused",
    "Scenic.Sample.scene_header_refuses_mismatch",
    "Scenic.Sample.scene_roundtrip",
    "Scenic.C18.sample_roundtrip",
    "Scenic.C18.sample_truncation_refused",
    "Scenic.C18.vector_divergence_iff",
    "Scenic.C18.vector_divergence_symmetric",
    "Scenic.ReplayStream.header_roundtrip",
    "Scenic.ReplayStream.header_refuses_version",
    "Scenic.ReplayStream.header_truncation_refused",
    "Scenic.ReplayStream.checkProps_spec",
    "Scenic.ReplayStream.checkProps_truncation_refused",
    "Scenic.ReplayStream.draw_truncation_refused",
    "Scenic.ReplayStream.update_truncation_refused",
    "Scenic.ReplayStream.replay_reproduces",
    "Scenic.ReplayStream.simulate_replay_reproduces",
    # round 4: stream / scene layer on the constants generated from the source (Gen/StreamCfg.lean)
    "Scenic.C18.replay_header_roundtrip",
    "Scenic.C18.replay_header_refuses_other_version",
    "Scenic.C18.simulate_replay_reproduces",
    "Scenic.C18.scene_roundtrip",
    "Scenic.C18.scene_header_truncation_refused",
]
SIDE = ["Scenic.C18.gen_table_wf", "Scenic.C18.gen_reads_checked", "Scenic.C18.gen_divergence_abs",
        "Scenic.C18.gen_stream_wf", "Scenic.C18.gen_stream_checked"]

FINGERPRINTS = {
    "writeInt": ("src/scenic/core/serialization.py", "writeInt"),
    "readInt": ("src/scenic/core/serialization.py", "readInt"),
    "readBytes": ("src/scenic/core/serialization.py", "readBytes"),
    "writeBytes": ("src/scenic/core/serialization.py", "writeBytes"),
    "_readExactly": ("src/scenic/core/serialization.py", "_readExactly"),
    "Serializer": ("src/scenic/core/serialization.py", "Serializer"),
    "valuesHaveDiverged": ("src/scenic/core/simulators.py", "Simulation.valuesHaveDiverged"),
    "updateObjects": ("src/scenic/core/simulators.py", "Simulation.updateObjects"),
    "Mux.serialize": ("src/scenic/core/distributions.py", "MultiplexerDistribution"),
    "Distribution.serializeValue": ("src/scenic/core/distributions.py", "Distribution.serializeValue"),
    "Distribution.deserializeValue": ("src/scenic/core/distributions.py", "Distribution.deserializeValue"),
    "Samplable.serializeValue": ("src/scenic/core/distributions.py", "Samplable.serializeValue"),
    "Samplable.deserializeValue": ("src/scenic/core/distributions.py", "Samplable.deserializeValue"),
    "Vector.encodeTo": ("src/scenic/core/vectors.py", "Vector.encodeTo"),
    "Vector.decodeFrom": ("src/scenic/core/vectors.py", "Vector.decodeFrom"),
    "Orientation.encodeTo": ("src/scenic/core/vectors.py", "Orientation.encodeTo"),
    "Orientation.decodeFrom": ("src/scenic/core/vectors.py", "Orientation.decodeFrom"),
    "Distribution.__new__": ("src/scenic/core/distributions.py", "Distribution.__new__"),
    "initializeReplay": ("src/scenic/core/simulators.py", "Simulation.initializeReplay"),
    "replayCanContinue": ("src/scenic/core/simulators.py", "Simulation.replayCanContinue"),
    "detectReplayEnd": ("src/scenic/core/simulators.py", "Simulation.detectReplayEnd"),
    "recordSampledValue": ("src/scenic/core/simulators.py", "Simulation.recordSampledValue"),
    "replaySampledValue": ("src/scenic/core/simulators.py", "Simulation.replaySampledValue"),
    "sceneToBytes": ("src/scenic/core/scenarios.py", "Scenario.sceneToBytes"),
    "sceneFromBytes": ("src/scenic/core/scenarios.py", "Scenario.sceneFromBytes"),
    "simulationToBytes": ("src/scenic/core/scenarios.py", "Scenario.simulationToBytes"),
    "simulationFromBytes": ("src/scenic/core/scenarios.py", "Scenario.simulationFromBytes"),
    "_makeSceneFromSample": ("src/scenic/core/scenarios.py", "Scenario._makeSceneFromSample"),
    "CompileOptions": ("src/scenic/syntax/translator.py", "CompileOptions"),
    "deterministicHash": ("src/scenic/core/serialization.py", "deterministicHash"),
    "sceneFormatVersion": ("src/scenic/core/serialization.py", "Serializer.sceneFormatVersion"),
    "replayFormatVersion": ("src/scenic/core/serialization.py", "Serializer.replayFormatVersion"),
    "writeScene": ("src/scenic/core/serialization.py", "Serializer.writeScene"),
    "readScene": ("src/scenic/core/serialization.py", "Serializer.readScene"),
    "writeReplayHeader": ("src/scenic/core/serialization.py", "Serializer.writeReplayHeader"),
    "readReplayHeader": ("src/scenic/core/serialization.py", "Serializer.readReplayHeader"),
    "ReplayMode": ("src/scenic/core/simulators.py", "ReplayMode"),
}


def bud(ctx, quick, thorough):
    """thorough tier: the thorough budget; quick tier on a changed source (fingerprint / lost translator tie):
    four times the quick budget (capped by the thorough one); otherwise the quick budget."""
    if ctx.tier == "thorough":
        return thorough
    if ctx.escalated:
        return min(thorough, 4 * quick)
    return quick


def hexs(b):
    return b.hex() if b else "-"


# --------------------------------------------------------------------------- real-code wrappers
def real():
    import scenic  # noqa
    from scenic.core import serialization as S
    return S


def py_wint(S, z):
    st = io.BytesIO()
    try:
        S.Serializer.codecs[int][0](z, st)
        return "ok " + hexs(st.getvalue())
    except S.SerializationError:
        return "err"
    except Exception as e:  # any other exception class is a disagreement with the model
        return "crash:" + type(e).__name__


def py_read(S, ty, data, show):
    ser = S.Serializer(data)
    try:
        v = ser.readValue(ty)
        rest = ser.stream.read()
        return "ok " + show(v) + " " + hexs(rest)
    except S.SerializationError:
        return "err"
    except Exception as e:
        return "crash:" + type(e).__name__


def py_wbytes(S, b):
    st = io.BytesIO()
    try:
        S.Serializer.codecs[bytes][0](b, st)
        return "ok " + hexs(st.getvalue())
    except S.SerializationError:
        return "err"
    except Exception as e:
        return "crash:" + type(e).__name__


# --------------------------------------------------------------------------- generators
def boundary_ints(rng, table, n_random):
    zs = set()
    consts = [0, 252, 253, 254, 255, 256, 32767, 32768, -32768, -32769, 2147483647, 2147483648,
              -2147483648, -2147483649, 65535, 65536, 127, 128, -1, -128, -129, -252, -253]
    if table:
        consts += [table[k] for k in ("wSmallLo", "wSmallHi", "wLo2", "wHi2", "wLo4", "wHi4", "rSmallHi")]
    for c in consts:
        for d in (-2, -1, 0, 1, 2):
            zs.add(c + d)
    for k in list(range(1, 40)) + [63, 64, 127, 128, 200, 254, 255, 256, 257]:
        for d in (-1, 0, 1):
            zs.add(2 ** (8 * k - 1) + d)
            zs.add(-(2 ** (8 * k - 1)) + d)
            zs.add(2 ** (8 * k) + d)
            zs.add(-(2 ** (8 * k)) + d)
    for digits in (599, 600, 601, 613, 614, 615, 620):
        zs.add(10 ** digits)
        zs.add(-(10 ** digits))
    for _ in range(n_random):
        bits = rng.choice([3, 7, 8, 9, 15, 16, 17, 31, 32, 33, 40, 64, 100, 500, 2030, 2039, 2040, 2041, 2050])
        z = rng.getrandbits(bits)
        zs.add(z if rng.random() < 0.5 else -z)
    return sorted(zs)


def classify_int(z):
    if 0 <= z <= 252:
        return "small"
    if -32768 <= z <= 32767:
        return "2byte"
    if -2 ** 31 <= z < 2 ** 31:
        return "4byte"
    return "big" if z.bit_length() < 2030 else "huge"


# --------------------------------------------------------------------------- correspondence: codecs
def corr_codecs(ctx, table):
    S = real()
    rng = ctx.rng
    zs = boundary_ints(rng, table, bud(ctx, 300, 6000))
    lines, py = [], []
    for z in zs:
        lines.append(f"C18 wint {z}")
        py.append(py_wint(S, z))
        ctx.hist("int_class", classify_int(z))
    # reader inputs: valid encodings (+suffix), all strict prefixes, single-byte corruptions, random bytes
    reads = set()
    encs = []
    for z, p in zip(zs, py):
        if p.startswith("ok "):
            b = bytes.fromhex(p[3:])
            encs.append((z, b))
    show_int = lambda v: str(v)
    for z, b in encs:
        if len(b) <= 12 or rng.random() < 0.15:
            reads.add(b)
            reads.add(b + bytes([rng.randrange(256)]))
            for k in range(len(b)):
                reads.add(b[:k])
            for _ in range(bud(ctx, 2, 6)):
                k = rng.randrange(len(b))
                c = bytearray(b)
                c[k] = rng.randrange(256)
                reads.add(bytes(c))
    for _ in range(bud(ctx, 300, 5000)):
        n = rng.choice([0, 1, 2, 3, 4, 5, 6, 9, 20])
        first = rng.choice([0, 1, 251, 252, 253, 254, 255, rng.randrange(256)])
        reads.add(bytes([first] + [rng.randrange(256) for _ in range(n)]) if n or rng.random() < 0.9 else b"")
    reads = sorted(reads)
    for b in reads:
        lines.append(f"C18 rint {hexs(b)}")
        py.append(py_read(S, int, b, show_int))
        ctx.hist("rint_len", min(len(b), 10))
    # bytes / str codec
    blobs = [b"", b"a", bytes(range(10)), bytes(252), bytes(253), bytes(300), bytes(70000)]
    for _ in range(bud(ctx, 40, 400)):
        blobs.append(bytes(rng.randrange(256) for _ in range(rng.choice([0, 1, 5, 251, 252, 253, 254, 300]))))
    bread = set()
    for v in blobs:
        lines.append(f"C18 wbytes {hexs(v)}")
        r = py_wbytes(S, v)
        py.append(r)
        if r.startswith("ok ") and len(v) <= 300:
            e = bytes.fromhex(r[3:]) if r[3:] != "-" else b""
            bread.add(e)
            bread.add(e + b"\x07")
            for k in (0, 1, 2, len(e) // 2, len(e) - 1):
                if 0 <= k < len(e):
                    bread.add(e[:k])
    for k in (-1, -2, -300):  # negative length prefixes (corruption)
        st = io.BytesIO()
        S.writeInt(k, st)
        bread.add(st.getvalue() + b"abc")
    for b in sorted(bread):
        lines.append(f"C18 rbytes {hexs(b)}")
        py.append(py_read(S, bytes, b, lambda v: hexs(v)))
    for b in (b"\x00", b"\x01", b"\x05", b"", b"\xfd\x00", b"\xfd\x00\x00", b"\xfd\x01\x00x"):
        lines.append(f"C18 rbool {hexs(b)}")
        py.append(py_read(S, bool, b, lambda v: "1" if v else "0"))
    lean = ctx.driver(lines)
    bad = 0
    for ln, a, b in zip(lines, lean, py):
        ctx.case(ln, nontrivial=not ln.startswith("C18 wint 1 "))
        ctx.hist("outcome", ("err" if b == "err" else "crash" if b.startswith("crash") else "ok"))
        if a != b:
            bad += 1
            if bad <= 5:
                ctx.broken("correspondence", "codec model vs serialization.py", f"{ln}: lean={a[:120]} python={b[:120]}")
    return encs


# --------------------------------------------------------------------------- direct oracle: codecs
def direct_codecs(ctx, encs):
    """decode(encode z) == z with exact suffix; every strict prefix refused (real code only)."""
    S = real()
    found = False
    zs = [z for z, _ in encs]
    for z in zs:
        st = io.BytesIO()
        try:
            S.writeInt(z, st)
        except S.SerializationError:
            continue
        b = st.getvalue()
        ser = S.Serializer(b + b"\x2a")
        try:
            v = ser.readValue(int)
            rest = ser.stream.read()
        except Exception as e:
            v, rest = f"{type(e).__name__}", None
        if v != z or rest != b"\x2a":
            ctx.violation(f"int-roundtrip:{classify_int(z)}", f"readInt(writeInt({z})) gave {v!r} rest={rest!r}",
                          {"kind": "int_roundtrip", "z": str(z)})
            found = True
            break
        for k in range(len(b)) if len(b) <= 10 else (0, 1, 2, len(b) - 1):
            try:
                S.Serializer(b[:k]).readValue(int)
                ctx.violation(f"int-truncation:{classify_int(z)}",
                              f"truncated encoding of {z} ({k} of {len(b)} bytes) was accepted",
                              {"kind": "int_truncation", "z": str(z), "k": k})
                found = True
                break
            except S.SerializationError:
                pass
            except Exception as e:
                ctx.violation(f"int-truncation-crash:{type(e).__name__}",
                              f"truncated encoding of {z} raised {type(e).__name__}",
                              {"kind": "int_truncation", "z": str(z), "k": k})
                found = True
                break
        if found:
            break
    return found


# --------------------------------------------------------------------------- direct oracle: value codecs
def value_cases(rng, n):
    from scenic.core.vectors import Orientation, Vector
    specials = [0.0, -0.0, 1.5, -2.25, float("inf"), float("-inf"), float("nan"), 5e-324, 1.7976931348623157e308,
                struct.unpack("<d", bytes([1, 0, 0, 0, 0, 0, 0xF8, 0x7F]))[0]]
    fl = lambda: rng.choice(specials) if rng.random() < 0.5 else rng.uniform(-1e3, 1e3)
    out = []
    for _ in range(n):
        out.append((float, fl()))
        out.append((Vector, Vector(fl(), fl(), fl())))
        out.append((Orientation, Orientation.fromEuler(rng.uniform(-3, 3), rng.uniform(-1.5, 1.5), rng.uniform(-3, 3))))
        out.append((str, "".join(rng.choice("ab\u00e9\u4e2d\U0001F600 \x00") for _ in range(rng.choice([0, 1, 5, 252, 253, 300])))))
        out.append((bytes, bytes(rng.randrange(256) for _ in range(rng.choice([0, 1, 2, 251, 252, 253, 400])))))
        out.append((bool, rng.random() < 0.5))
        out.append((type(None), None))
        out.append((int, rng.choice([0, 252, 253, -1, 32767, 32768, -32769, 2 ** 31, -2 ** 31 - 1, 2 ** 70])))
    return out


def value_check(S, ty, v):
    """-> None or (what, k): round trip through Serializer.writeValue/readValue with a suffix, and every strict
    prefix refused with SerializationError (real code only)."""
    w = S.Serializer()
    w.writeValue(v, ty)
    b = w.getBytes()
    r = S.Serializer(b + b"*")
    try:
        back = r.readValue(ty)
        rest = r.stream.read()
    except Exception as e:
        return f"decoding raised {type(e).__name__}", None
    if canon_value(back) != canon_value(v) or type(back) is not type(v) or rest != b"*":
        return f"decoded {back!r} rest {rest!r}", None
    for k in range(len(b)) if len(b) <= 40 else (0, 1, 2, len(b) // 2, len(b) - 1):
        try:
            S.Serializer(b[:k]).readValue(ty)
            return f"prefix of {k} of {len(b)} bytes accepted", k
        except S.SerializationError:
            pass
        except Exception as e:
            return f"prefix of {k} bytes raised {type(e).__name__}", k
    return None


def direct_values(ctx):
    S = real()
    found = False
    for ty, v in value_cases(ctx.rng, bud(ctx, 40, 600)):
        ctx.case(("value", ty.__name__, canon_value(v)), nontrivial=ty is not type(None))
        ctx.hist("value_type", ty.__name__)
        bad = value_check(S, ty, v)
        if bad:
            what, k = bad
            enc = canon_value(v) if not isinstance(v, (str, bytes)) else (v.encode() if isinstance(v, str) else v).hex()
            ctx.violation(f"value-codec:{ty.__name__}", f"{ty.__name__} value {v!r}: {what}",
                          {"kind": "value", "type": ty.__name__, "enc": enc})
            found = True
            break
    return found


# --------------------------------------------------------------------------- divergence
def corr_divergence(ctx):
    from scenic.core.simulators import DummySimulator, Simulation
    from scenic.core.vectors import Vector

    class Probe:
        divergenceTolerance = 0.0
    lines, py, cases = [], [], []
    rng = ctx.rng
    vals = [0, 1, -1, 0.5, -0.5, 3, 10, -10, 2.25, 100, 1e-3, 0.125]
    tols = [0, 0.5, 1, 0.125, 2]
    for _ in range(bud(ctx, 300, 4000)):
        tol, e, a = rng.choice(tols), rng.choice(vals), rng.choice(vals)
        if rng.random() < 0.5:
            a = e + rng.choice([-1, 1]) * tol * rng.choice([0.5, 1, 2, 1.5])
        cases.append(("s", tol, float(e), float(a)))
    for _ in range(bud(ctx, 100, 1000)):
        tol = rng.choice(tols)
        e = [float(rng.choice(vals)) for _ in range(3)]
        a = [x + rng.choice([0, 0, tol, -tol, 2 * tol, -2 * tol, 0.5 * tol]) for x in e]
        cases.append(("v", tol, e, a))
    fr = lambda x: "{}/{}".format(*Fraction(x).as_integer_ratio())
    found = False
    for c in cases:
        p = Probe()
        p.divergenceTolerance = c[1]
        if c[0] == "s":
            exact = abs(Fraction(c[3]) - Fraction(c[2]))
            # the code subtracts floats: skip cases within rounding of the threshold (explicit exact margin)
            if abs(exact - Fraction(c[1])) < Fraction(1, 10 ** 9) * max(1, abs(Fraction(c[2])), abs(Fraction(c[3]))):
                ctx.hist("divergence_case", "skipped:at-threshold")
                continue
            lines.append(f"C18 sdiv {fr(c[1])} {fr(c[2])} {fr(c[3])}")
            r = Simulation.valuesHaveDiverged(p, None, "x", c[2], c[3])
            truth = exact > Fraction(c[1])
        else:
            lines.append("C18 vdiv {} {} {}".format(fr(c[1]), " ".join(map(fr, c[3])), " ".join(map(fr, c[2]))))
            r = Simulation.valuesHaveDiverged(p, None, "x", Vector(*c[2]), Vector(*c[3]))
            d2 = sum((Fraction(x) - Fraction(y)) ** 2 for x, y in zip(c[3], c[2]))
            truth = d2 > Fraction(c[1]) ** 2
            # floating-point norm: skip cases within rounding of the threshold
            if abs(float(d2) - c[1] ** 2) < 1e-9 * max(1.0, c[1] ** 2):
                lines.pop()
                continue
        py.append("1" if r else "0")
        ctx.hist("divergence_case", f"{c[0]}:{'diverged' if truth else 'same'}")
        if bool(r) != bool(truth):
            sign = "negative" if c[0] == "s" and c[3] < c[2] else "positive"
            ctx.violation(f"divergence-missed:{c[0]}:{sign}",
                          f"valuesHaveDiverged(expected={c[2]}, actual={c[3]}, tol={c[1]}) = {r}, should be {truth}",
                          {"kind": "divergence", "case": list(c)})
            found = True
    lean = ctx.driver(lines)
    bad = 0
    for ln, a, b in zip(lines, lean, py):
        ctx.case(ln)
        if a != b:
            bad += 1
            if bad <= 3:
                ctx.broken("correspondence", "divergence model vs valuesHaveDiverged", f"{ln}: lean={a} python={b}")
    return found


# --------------------------------------------------------------------------- scenes
VALUE_EXPRS = [
    "Range({a}, {b})", "DiscreteRange({i}, {j})", "Uniform({i}, {b}, 'x', {a})", "Normal({a}, 1)",
    "TruncatedNormal({a}, 1, {a}-1, {a}+2)", "Options({{{i}: 1, {j}: 2, 300: 1}})",
    "Uniform(Range({a}, {b}), DiscreteRange({i}, {j}), {k})", "Range({a}, {b}) + DiscreteRange(0, {j})",
    "Uniform(70000, -40000, 5000000000, {i})", "Discrete({{'s': 1, 't': 3}})",
    "Uniform(Uniform({i}, {j}), Range({a}, {b}))", "({a}, Range({a}, {b}), DiscreteRange({i}, {j}))",
    "Range({a}, {b}) @ Range({a}, {b})", "Uniform(True, False)",
    "[Range(0, 1), Uniform(1, 2, 3)]", "Uniform((1, 2), (3, 4))",
    "Options({{Range({a}, {b}): 1, DiscreteRange({i}, {j}): 3, Uniform({k}, Range(0, 1)): 2}})",
    "abs(Range(-{b}, {b})) * Uniform(1, -1)",
]


def gen_program(rng, with_sim=False):
    a = rng.choice([0, -1, 0.5, 2])
    b = a + rng.choice([1, 2.5, 10])
    i = rng.choice([0, -5, 250, 300, -40000, 32760])
    j = i + rng.choice([1, 3, 10])
    k = rng.choice([7, -3, 1000, 100000])
    fm = dict(a=a, b=b, i=i, j=j, k=k)
    lines = []
    nparams = rng.randint(1, 5)
    names = []
    for n in range(nparams):
        e = rng.choice(VALUE_EXPRS).format(**fm)
        lines.append(f"v{n} = {e}")
        names.append(f"v{n}")
    if names and rng.random() < 0.5:
        lines.append(f"w = {rng.choice(names)}")  # shared reference
        names.append("w")
    for n, nm in enumerate(names):
        if rng.random() < 0.8:
            lines.append(f"param p{n} = {nm}")
    lines.append("param q = (DiscreteRange(0, 3), Range(0, 1))")
    nobj = rng.randint(1, 3)
    for n in range(nobj):
        tgt = "ego" if n == 0 else f"o{n}"
        pos = f"(Range({10*n}, {10*n+3}), Range(-2, 2), {rng.choice(['0', 'Range(0, 1)'])})"
        where = "at " + pos
        if rng.random() < 0.3:   # a Vector-valued primitive distribution (point in a region)
            where = rng.choice([f"in CircularRegion(({10*n}, 0), 2)", f"in RectangularRegion(({10*n}, 0), 0.3, 3, 2)"])
        extra = rng.choice(["", ", facing Range(-1, 1)", ", with width Range(1, 2)", ", with foo Uniform(1, 'a', 2.5)",
                            ", facing (Range(0,1), Range(0,1), Range(0,1))"])
        beh = ""
        if with_sim:
            beh = ", with behavior B()" if n == 0 or rng.random() < 0.5 else ""
        lines.append(f"{tgt} = new Object {where}{extra}{beh}, with allowCollisions True")
        if rng.random() < 0.3:
            lines.append(f"mutate {tgt}")
    if rng.random() < 0.4:
        lines.append("require v0 is v0")
    pre = []
    if with_sim:
        pre = [
            "behavior B():",
            "    while True:",
            f"        x = Range({a}, {b})",
            f"        n = DiscreteRange({i}, {j})",
            "        c = Uniform('l', 'r', 7)",
            "        u = Uniform(Range(0, 1), DiscreteRange(5, 9))",
            "        take x, n, c, u",
            "        if Uniform(True, False, False):",
            "            wait",
        ]
        lines.append("record ego.position as pos")
        lines.append("record final ego.position.x as fx")
        lines.append(f"terminate when ego.position.x > {rng.choice([20, 40, 1000])}")
    return "\n".join(pre + lines) + "\n"


def seed_all(seed):
    import numpy
    random.seed(seed)
    numpy.random.seed(seed % (2 ** 32))


def canon_value(v):
    import numpy
    from scenic.core.vectors import Orientation, Vector
    if isinstance(v, (bool, int, str, type(None))):
        return repr(v)
    if isinstance(v, float):
        return struct.pack("<d", v).hex()
    if isinstance(v, Vector):
        return "V(" + ",".join(canon_value(float(c)) for c in v) + ")"
    if isinstance(v, Orientation):
        return "O(" + ",".join(canon_value(float(c)) for c in v.q) + ")"
    if isinstance(v, (tuple, list)):
        return "[" + ",".join(canon_value(x) for x in v) + "]"
    if isinstance(v, dict):
        return "{" + ",".join(f"{k}:{canon_value(x)}" for k, x in sorted(v.items(), key=lambda t: str(t[0]))) + "}"
    if isinstance(v, (numpy.floating, numpy.integer)):
        return canon_value(v.item())
    return f"<{type(v).__name__}>"


SKIP_PROPS = {"behavior", "shape", "regionContainedIn", "mutator", "lastActions"}


def canon_scene(scene):
    out = []
    for o in scene.objects:
        props = {p: canon_value(getattr(o, p)) for p in sorted(o.properties) if p not in SKIP_PROPS}
        out.append(props)
    params = {k: canon_value(v) for k, v in sorted(scene.params.items()) if not k.startswith("_")}
    return {"objects": out, "params": params}


def mux_selector(o):
    """The selector of a MultiplexerDistribution, read from the instance dictionary (attribute access on a
    Distribution builds an AttributeDistribution through __getattr__, so never use getattr here)."""
    d = o.__dict__
    for name in ("_index", "index"):
        if name in d:
            return d[name]
    return d["_dependencies"][0]


def extract_graph(scenario, sample):
    """The real dependency graph of a compiled scenario in the model's vocabulary (see Model/Sample.lean):
    -> (node specs, roots, value specs, objs) or None when a value type is outside the model."""
    from scenic.core.distributions import Distribution, MultiplexerDistribution, needsSampling
    from scenic.core.vectors import Orientation, Vector
    tycode = {float: "f", int: "i", bool: "b", str: "y", bytes: "y", Vector: "v", Orientation: "o", type(None): "n"}
    ids, nodes, objs = {}, [], []

    def enc(ty, v):
        c = tycode[ty]
        if c == "f":
            return "f" + struct.pack("<d", v).hex()
        if c == "i":
            return f"i{int(v)}"
        if c == "b":
            return "b1" if v else "b0"
        if c == "y":
            return "y" + hexs(v.encode() if isinstance(v, str) else v)
        if c == "v":
            return "v" + struct.pack("<ddd", *v.coordinates).hex()
        if c == "o":
            return "o" + struct.pack("<dddd", *v.q).hex()
        return "n"

    class Unsupported(Exception):
        pass

    def visit(o):
        if id(o) in ids:
            return ids[id(o)]
        val = "-"
        if not needsSampling(o):
            spec = "c"
        elif isinstance(o, MultiplexerDistribution):
            i = visit(mux_selector(o))
            opts = [visit(x) for x in o.options]
            spec = f"m:{i}:{','.join(map(str, opts))}"
        elif isinstance(o, Distribution) and not o._deterministic:
            ty = o._valueType
            if ty not in tycode:
                raise Unsupported(str(ty))
            spec = "p:" + tycode[ty]
            val = enc(ty, sample[o])
        else:
            deps = [visit(d) for d in o._conditioned._dependencies]
            spec = "d:" + ",".join(map(str, deps))
        if val == "-" and needsSampling(o):
            v = sample[o]
            if type(v) is int:
                val = f"i{v}"
        ids[id(o)] = len(nodes)
        nodes.append(spec)
        objs.append(o)
        vals.append(val)
        return ids[id(o)]

    vals = []
    try:
        roots = [visit(o) for o in scenario.dependencies]
    except Unsupported:
        return None
    return nodes, roots, vals, objs


def corr_sample(ctx, sc, scene, data):
    """Model writer/reader vs the real encoder/decoder on the real dependency graph of the scenario."""
    from scenic.core.serialization import Serializer
    g = extract_graph(sc, scene.sample)
    if g is None:
        ctx.hist("sample_corr", "unsupported-type")
        return
    nodes, roots, vals, objs = g
    body = data[10:]
    N, R, V = ";".join(nodes), ",".join(map(str, roots)), ";".join(vals)
    lines = [f"C18 wsample {N} {R} {V}", f"C18 rsample {N} {R} {V} {hexs(body + b'*')}"]
    cuts = sorted({0, 1, len(body) // 2, len(body) - 1} & set(range(len(body))))
    for k in cuts:
        lines.append(f"C18 rsample {N} {R} {V} {hexs(body[:k])}")
    out = ctx.driver(lines)
    kinds = {n[0] for n in nodes}
    ctx.hist("sample_graph_nodes", min(len(nodes) // 10 * 10, 100))
    for kd in kinds:
        ctx.hist("sample_graph_kinds", kd)
    ctx.case(("sample-corr", N, R, V))
    if out[0] != "ok " + hexs(body):
        ctx.broken("correspondence", "sample writer model vs Serializer.writeSample",
                   f"nodes={N} roots={R}: lean={out[0][:200]} python=ok {hexs(body)[:200]}")
        return
    # reader: same rest, same set of keys, same primitive values
    ser = Serializer(data)
    ser.stream.read(10)
    values = ser.readSample(sc.dependencies)
    idx = {id(o): i for i, o in enumerate(objs)}
    real_keys = sorted(idx[k] for k in values.storage if k in idx)
    parts = out[1].split(" ")
    ok = parts[0] == "ok" and parts[1] == "2a"
    lean_env = dict(e.split("=", 1) for e in parts[2].split(";")) if ok and len(parts) > 2 and parts[2] else {}
    if not ok or sorted(map(int, lean_env)) != real_keys:
        ctx.broken("correspondence", "sample reader model vs Serializer.readSample",
                   f"nodes={N}: lean={out[1][:200]} real_keys={real_keys}")
        return
    for i, spec in enumerate(nodes):
        if spec.startswith("p:") and str(i) in lean_env and lean_env[str(i)] != vals[i]:
            ctx.broken("correspondence", "sample reader model values", f"node {i}: lean={lean_env[str(i)]} real={vals[i]}")
            return
    for k, o in zip(cuts, out[2:]):
        if o != "err":
            # the real decoder must refuse every strict prefix (checked directly elsewhere); the model must too
            ctx.broken("correspondence", "sample reader model on truncated input", f"prefix {k}: lean={o[:100]}")
            return
    ctx.hist("sample_corr", "agree")


def direct_scenes(ctx):
    import scenic
    from scenic.core.serialization import SerializationError
    rng = ctx.rng
    nprog = bud(ctx, 25, 400)
    found = False
    for pi in range(nprog):
        code = gen_program(rng)
        seed = rng.getrandbits(32)
        try:
            seed_all(seed)
            sc = scenic.scenarioFromString(code)
        except Exception as e:
            ctx.hist("scene_program", "generator-invalid:" + type(e).__name__)
            continue
        ctx.hist("scene_program", "compiled")
        for si in range(bud(ctx, 2, 4)):
            try:
                scene, _ = sc.generate(maxIterations=200)
            except Exception as e:
                ctx.hist("scene_program", "generate-failed:" + type(e).__name__)
                break
            try:
                data = sc.sceneToBytes(scene)
            except Exception as e:
                if ctx.violation(f"scene-encode-{type(e).__name__}",
                                 f"sceneToBytes failed on a generated scene: {type(e).__name__}: {str(e)[:200]} "
                                 f"(cause: {e.__cause__!r})", {"kind": "scene_encode", "program": code, "seed": seed, "si": si}):
                    found = True
                break
            ctx.case(("scene", code, data.hex()))
            ctx.hist("scene_bytes", min(len(data) // 20 * 20, 200))
            rep = {"kind": "scene", "program": code, "data": data.hex(), "seed": seed, "si": si}
            if ctx.proof is not None and ctx.proof.build_ok:
                corr_sample(ctx, sc, scene, data)
            try:
                back = sc.sceneFromBytes(data)
                same = canon_scene(back) == canon_scene(scene)
            except Exception as e:
                same = f"{type(e).__name__}: {e}"
            if same is not True:
                key = "scene-roundtrip" + (":mutate" if "mutate" in code else "")
                if ctx.violation(key, f"decoded scene differs from the original ({same})", rep):
                    found = True
                    break
            # every truncation point
            for k in range(len(data)):
                try:
                    sc.sceneFromBytes(data[:k])
                    ctx.violation("scene-truncation-accepted",
                                  f"scene truncated to {k} of {len(data)} bytes was decoded without error",
                                  dict(rep, k=k))
                    found = True
                    break
                except SerializationError:
                    pass
                except Exception as e:
                    ctx.violation(f"scene-truncation-{type(e).__name__}",
                                  f"scene truncated to {k} bytes raised {type(e).__name__}: {e}", dict(rep, k=k))
                    found = True
                    break
            # single-byte corruptions
            alts = range(256) if ctx.tier == "thorough" and pi % 10 == 0 else None
            for k in range(len(data)):
                for v in (alts or {0, 1, 0xFC, 0xFD, 0xFE, 0xFF, rng.randrange(256)}):
                    if v == data[k]:
                        continue
                    d = bytearray(data)
                    d[k] = v
                    ctx.evaluations += 1
                    try:
                        sc.sceneFromBytes(bytes(d))
                        ctx.hist("corruption", "decoded")
                    except SerializationError:
                        ctx.hist("corruption", "SerializationError")
                    except Exception as e:
                        ctx.violation(f"scene-corruption-{type(e).__name__}",
                                      f"corrupted scene (byte {k} := {v}) raised {type(e).__name__}: {str(e)[:100]}",
                                      dict(rep, k=k, v=v))
                        found = True
                        break
                if found:
                    break
            if found:
                break
        if found:
            break
        # header: different program / different options
        if pi % 5 == 0:
            try:
                other = scenic.scenarioFromString(code + "param zz = 1\n")
                for name, o, kw in (("other-program", other, {}),):
                    try:
                        o.sceneFromBytes(data)
                        ctx.violation("header-" + name, "scene decoded by a different program", dict(rep, header="program"))
                        found = True
                    except SerializationError:
                        ctx.hist("header", name + ":refused")
                for label, kw in (("options", dict(mode2D=True)), ("params", dict(params={"zz_override": 2})),
                                  ("params2", dict(params={"q": 1}))):
                    sc2 = scenic.scenarioFromString(code, **kw)
                    try:
                        sc2.sceneFromBytes(data)
                        ctx.violation("header-other-options", f"scene decoded under different compile options {kw}",
                                      dict(rep, header=label))
                        found = True
                    except SerializationError:
                        ctx.hist("header", f"other-{label}:refused")
                va, vb = rng.choice([(1, 2), (0, 1), (2.5, 2.0), ("a", "b"), (1, -1)])
                hrep = {"kind": "header", "what": "header-param-values", "program": code, "seed": seed, "va": va, "vb": vb}
                bad, msg = header_check(hrep)
                ctx.hist("header", "param-values:" + ("ACCEPTED" if bad else "refused"))
                if bad:
                    ctx.violation("header-other-options", msg, hrep)
                    found = True
            except Exception as e:
                ctx.hist("header", "skipped:" + type(e).__name__)
    return found


# --------------------------------------------------------------------------- simulations
def make_sim_classes():
    from scenic.core.simulators import Simulation, Simulator
    from scenic.core.vectors import Vector

    class KinSimulator(Simulator):
        def __init__(self, perturb=None):
            super().__init__()
            self.perturb = perturb

        def createSimulation(self, scene, **kw):
            return KinSimulation(scene, perturb=self.perturb, **kw)

    class KinSimulation(Simulation):
        def __init__(self, scene, perturb=None, **kw):
            self.pending = []
            self.perturb = perturb
            self.pos = {}
            self.spd = {}
            super().__init__(scene, **kw)

        def createObjectInSimulator(self, obj):
            self.pos[obj] = obj.position
            self.spd[obj] = 0.0

        def actionsAreCompatible(self, agent, actions):
            return True

        def executeActions(self, allActions):
            for obj, acts in allActions.items():
                if len(acts) == 4:
                    x, n, c, u = acts
                    d = Vector(float(x), (1 if c == "l" else -1 if c == "r" else 0.5) * float(u), 0)
                    self.pending.append((obj, d, n))

        def step(self):
            for obj, d, n in self.pending:
                self.pos[obj] = self.pos[obj] + d
                self.spd[obj] = float(n)
            self.pending = []

        def getProperties(self, obj, properties):
            from scenic.core.vectors import Vector
            pos, spd = self.pos[obj], self.spd[obj]
            if self.perturb and self.perturb["step"] == self.currentTime and obj is self.objects[0]:
                if self.perturb["prop"] == "speed":
                    spd = spd + self.perturb["delta"]
                else:
                    pos = pos + Vector(self.perturb["delta"], 0, 0)
            vals = dict(position=pos, yaw=obj.yaw, pitch=obj.pitch, roll=obj.roll, velocity=Vector(0, 0, 0),
                        angularVelocity=Vector(0, 0, 0), speed=spd, angularSpeed=0.0)
            for p in properties:
                vals.setdefault(p, None)
            return vals

    return KinSimulator


def canon_sim(sim):
    r = sim.result
    return {
        "trajectory": [[canon_value(p) for p in st] for st in r.trajectory],
        "actions": [sorted((str(k), repr(v)) for k, v in a.items()) for a in r.actions],
        "records": {k: canon_value(list(v) if isinstance(v, (list, tuple)) else v) for k, v in sorted(r.records.items())},
        "termination": [str(r.terminationType), str(r.terminationReason)],
    }


def direct_sims(ctx):
    import scenic
    from scenic.core.serialization import SerializationError
    from scenic.core.simulators import DivergenceError
    KinSimulator = make_sim_classes()
    rng = ctx.rng
    found = False
    for pi in range(bud(ctx, 10, 150)):
        code = gen_program(rng, with_sim=True)
        seed = rng.getrandbits(32)
        try:
            seed_all(seed)
            sc = scenic.scenarioFromString(code)
        except Exception as e:
            ctx.hist("sim_program", "generator-invalid:" + type(e).__name__)
            continue
        try:
            scene, _ = sc.generate(maxIterations=200)
        except Exception as e:
            ctx.hist("sim_program", "generate-failed:" + type(e).__name__)
            continue
        steps = rng.choice([3, 6, 10])
        for divcheck in (False, True):
            rep = {"kind": "sim", "program": code, "steps": steps, "divcheck": divcheck, "seed": seed}
            try:
                seed_all(seed + 1 + divcheck)
                sim = KinSimulator().simulate(scene, maxSteps=steps, enableReplay=True, enableDivergenceCheck=divcheck,
                                              maxIterations=5)
            except NameError:
                raise
            except Exception as e:
                if ctx.violation(f"sim-record-{type(e).__name__}",
                                 f"simulating with enableReplay failed: {type(e).__name__}: {str(e)[:200]} "
                                 f"(cause: {e.__cause__!r})", dict(rep, check="record")):
                    found = True
                break
            if sim is None:
                ctx.hist("sim_program", "rejected")
                continue
            ctx.hist("sim_program", "simulated")
            data = sim.getReplay()
            ctx.case(("sim", code, data.hex()))
            ref = canon_sim(sim)
            try:
                sim2 = KinSimulator().replay(scene, data, maxSteps=steps, enableReplay=False, maxIterations=1)
                same = sim2 is not None and canon_sim(sim2) == ref
            except Exception as e:
                same = f"{type(e).__name__}: {e}"
            if same is not True:
                if ctx.violation("replay-roundtrip", f"replayed simulation differs from the recording ({same})",
                                 dict(rep, check="replay", data=data.hex())):
                    found = True
                    break
            # round trip through simulationToBytes / simulationFromBytes
            try:
                blob = sc.simulationToBytes(sim)
                sim3 = sc.simulationFromBytes(blob, KinSimulator(), maxSteps=steps, enableReplay=False)
                same = sim3 is not None and canon_sim(sim3) == ref
            except Exception as e:
                same = f"{type(e).__name__}: {e}"
            if same is not True:
                key = "simulationFromBytes-roundtrip" + (":mutate" if "mutate" in code else "")
                if ctx.violation(key, f"simulationFromBytes differs ({same})", dict(rep, check="frombytes")):
                    found = True
                    break
            if divcheck:
                # divergence of either sign in each dynamic property must be reported
                nsteps = len(sim.result.trajectory) - 1
                for prop in ("speed", "position"):
                    for delta in (+0.75, -0.75):
                        st = rng.randrange(0, max(1, nsteps))
                        pert = {"step": st, "prop": prop, "delta": delta}
                        ctx.evaluations += 1
                        try:
                            KinSimulator(perturb=pert).replay(scene, data, maxSteps=steps, enableReplay=False,
                                                              divergenceTolerance=0.5, maxIterations=1)
                            ctx.violation(f"divergence-not-reported:{prop}:{'pos' if delta > 0 else 'neg'}",
                                          f"replay with {prop} perturbed by {delta} at step {st} (tolerance 0.5) "
                                          "was not reported as divergent",
                                          dict(rep, check="perturb", perturb=pert, data=data.hex()))
                            found = True
                        except DivergenceError:
                            ctx.hist("divergence", f"{prop}:{'+' if delta > 0 else '-'}:reported")
                        except Exception as e:
                            ctx.hist("divergence", f"other:{type(e).__name__}")
                # and a perturbation within tolerance must not be
                try:
                    KinSimulator(perturb={"step": 0, "prop": "speed", "delta": 0.25}).replay(
                        scene, data, maxSteps=steps, enableReplay=False, divergenceTolerance=0.5, maxIterations=1)
                    ctx.hist("divergence", "within-tolerance:accepted")
                except DivergenceError:
                    ctx.hist("divergence", "within-tolerance:REPORTED")
            # truncated replays: must raise SerializationError or (documented) continue past the end; never
            # another exception class
            for k in sorted({0, 1, 2, 5, 6, 7, len(data) // 2, len(data) - 1}):
                if not 0 <= k < len(data):
                    continue
                ctx.evaluations += 1
                try:
                    KinSimulator().replay(scene, data[:k], maxSteps=steps, enableReplay=False, maxIterations=1)
                    ctx.hist("replay_truncation", "continued-or-ok")
                except (SerializationError, DivergenceError):
                    ctx.hist("replay_truncation", "refused")
                except Exception as e:
                    ctx.violation(f"replay-truncation-{type(e).__name__}",
                                  f"replay truncated to {k} bytes raised {type(e).__name__}: {str(e)[:100]}",
                                  dict(rep, check="truncate", k=k, data=data.hex()))
                    found = True
                    break
        if found:
            break
    return found



# --------------------------------------------------------------------------- stream / scene headers (round 4)
TRIVIAL = "ego = new Object at (1, 2, 0)\n"   # no random dependencies: the encoded scene is its 10-byte header


def py_rhdr(S, data):
    from scenic.core.simulators import ReplayMode
    ser = S.Serializer(data)
    try:
        f = ser.readReplayHeader()
        chk = 1 if ReplayMode.checkDivergence in ReplayMode(f) else 0
        return f"ok {f} {chk} {hexs(ser.stream.read())}"
    except S.SerializationError:
        return "err"
    except Exception as e:
        return "crash:" + type(e).__name__


def py_whdr(S, f):
    ser = S.Serializer()
    try:
        ser.writeReplayHeader(f)
        return hexs(ser.getBytes())
    except Exception as e:
        return "crash:" + type(e).__name__


def header_flag_words(rng):
    fs = [0, 1, 2, 3, 4, 255, 256, 257, 65535, 65536, 65537, 2 ** 24 - 1, 2 ** 24, 2 ** 31 - 1, 2 ** 31, 2 ** 31 + 1,
          2 ** 32 - 2, 2 ** 32 - 1]
    fs += [rng.getrandbits(32) for _ in range(12)] + [rng.getrandbits(8) for _ in range(6)]
    return sorted(set(fs))


def py_scene_dec(sc, data):
    from scenic.core.serialization import SerializationError
    try:
        sc.sceneFromBytes(data)
        return "ok"
    except SerializationError:
        return "err"
    except Exception as e:
        return "crash:" + type(e).__name__


def corr_stream(ctx):
    """(C) the replay-header and scene-header model on the generated constants vs the real Serializer:
    header bytes for boundary flag words, reader on every prefix, other versions, corrupted version bytes,
    random byte strings; the scene header of a real scenario without random dependencies (valid, every prefix,
    every single-byte change of version / AST hash / options hash, extra suffix)."""
    import scenic
    S = real()
    rng = ctx.rng
    lines, py = [], []
    datas = set()
    for f in header_flag_words(rng):
        lines.append(f"C18 whdr {f}")
        w = py_whdr(S, f)
        py.append(w)
        if not w.startswith("crash"):
            b = bytes.fromhex(w) if w != "-" else b""
            datas.add(b)
            datas.add(b + bytes(rng.getrandbits(8) for _ in range(rng.randint(1, 6))))
            for k in range(len(b)):
                datas.add(b[:k])
            for v in (0, 1, 2, 3, 4, 255, 256, 258, 513, 65535):
                datas.add(struct.pack("<H", v) + b[2:])
    for _ in range(40):   # malformed stream
        n = rng.choice([0, 1, 2, 3, 5, 6, 7, 12])
        first = rng.choice([b"\x02\x00", b"\x02", b"\x03\x00", b""])
        datas.add((first + bytes(rng.getrandbits(8) for _ in range(n)))[: max(n, len(first))])
    for d in sorted(datas):
        lines.append(f"C18 rhdr {hexs(d)}")
        py.append(py_rhdr(S, d))
        ctx.hist("replay_header_len", min(len(d), 7))
    # scene header of a real scenario
    seed_all(1)
    sc = scenic.scenarioFromString(TRIVIAL)
    scene, _ = sc.generate(maxIterations=50)
    data = sc.sceneToBytes(scene)
    ah, oh = sc.astHash, sc.compileOptions.hash
    lines.append(f"C18 wscenehdr {hexs(ah)} {hexs(oh)}")
    py.append("ok " + hexs(data))
    variants = {data, data + b"\x00", data + b"xyz"}
    for k in range(len(data)):
        variants.add(data[:k])
        for delta in (1, 0x80, 0xFF):
            variants.add(data[:k] + bytes([data[k] ^ delta]) + data[k + 1:])
    for d in sorted(variants):
        lines.append(f"C18 rscenehdr {hexs(ah)} {hexs(oh)} {hexs(d)}")
        py.append(py_scene_dec(sc, d))
        ctx.hist("scene_header_len", min(len(d), 11))
    lean = ctx.driver(lines)
    bad = 0
    for ln, a, b in zip(lines, lean, py):
        ctx.case(ln, nontrivial=True)
        if a != b:
            bad += 1
            if bad <= 5:
                ctx.broken("correspondence", "stream/scene header model vs serialization.py",
                           f"{ln}: lean={a[:120]} python={b[:120]}")
    return False


def header_check(rep):
    """the property on the real code for one header input -> (violated?, message)"""
    import scenic
    S = real()
    what = rep["what"]
    if what == "replay-header-roundtrip":
        f = rep["flags"]
        w = py_whdr(S, f)
        r = py_rhdr(S, bytes.fromhex(w) + b"\x2a") if not w.startswith("crash") else w
        ok = r.startswith(f"ok {f} ") and r.endswith(" 2a")
        return (not ok), f"readReplayHeader(writeReplayHeader({f}) + b'*') -> {r} (header bytes {w})"
    if what == "replay-header-truncation":
        w = bytes.fromhex(py_whdr(S, rep["flags"]))
        r = py_rhdr(S, w[: rep["k"]])
        return r != "err", f"replay header {w.hex()} cut to {rep['k']} bytes -> {r} (must be a SerializationError)"
    if what == "scene-header-truncation":
        seed_all(1)
        sc = scenic.scenarioFromString(TRIVIAL)
        scene, _ = sc.generate(maxIterations=50)
        data = sc.sceneToBytes(scene)
        r = py_scene_dec(sc, data[: rep["k"]])
        return r != "err", f"scene {data.hex()} cut to {rep['k']} bytes -> {r} (must be a SerializationError)"
    if what == "scene-header-roundtrip":
        seed_all(1)
        sc = scenic.scenarioFromString(TRIVIAL)
        scene, _ = sc.generate(maxIterations=50)
        r = py_scene_dec(sc, sc.sceneToBytes(scene))
        return r != "ok", f"sceneFromBytes(sceneToBytes(scene)) of a scenario without random values -> {r}"
    if what == "header-param-values":
        seed_all(rep["seed"])
        a = scenic.scenarioFromString(rep["program"], params={"zz_override": rep["va"]})
        b = scenic.scenarioFromString(rep["program"], params={"zz_override": rep["vb"]})
        scene, _ = a.generate(maxIterations=200)
        r = py_scene_dec(b, a.sceneToBytes(scene))
        return r != "err", (f"scene of the program compiled with param zz_override={rep['va']!r} decoded under "
                            f"zz_override={rep['vb']!r} -> {r} (must be a SerializationError)")
    return None, "unknown header check"


def direct_headers(ctx):
    """(S) on the real code, no model: replay header round trip for boundary flag words and refusal of every strict
    prefix; scene header of a scenario without random values: round trip and refusal of every strict prefix."""
    found = False
    cases = []
    for f in header_flag_words(ctx.rng):
        cases.append({"kind": "header", "what": "replay-header-roundtrip", "flags": f})
        for k in range(6):
            cases.append({"kind": "header", "what": "replay-header-truncation", "flags": f, "k": k})
    cases.append({"kind": "header", "what": "scene-header-roundtrip"})
    for k in range(10):
        cases.append({"kind": "header", "what": "scene-header-truncation", "k": k})
    for rep in cases:
        ctx.case(rep, nontrivial=True)
        try:
            bad, msg = header_check(rep)
        except Exception as e:
            bad, msg = True, f"{type(e).__name__}: {e}"
        ctx.hist("header_direct", rep["what"] + (":FAIL" if bad else ":ok"))
        if bad:
            ctx.violation(rep["what"], msg, rep)
            found = True
            break
    return found

# --------------------------------------------------------------------------- main
def run(ctx):
    ctx.rule = ("cases = codec operations (boundary-dense integers, byte strings, all strict prefixes, single-byte "
                "corruptions, random byte strings), divergence queries, generated programs x scenes x encodings, "
                "generated dynamic programs x replays; non-trivial = everything except the literal integer 1; "
                "distinct by content hash")
    ctx.assumptions += [
        "struct.pack('<d') / pickle are trusted (floats are opaque 8-byte payloads in the model)",
        "the sample-DAG model abstracts deterministic distributions as functions of their dependencies",
        "CPython int.to_bytes/from_bytes implement two's complement (validated by the correspondence run)",
    ]
    ctx.trusted_base += ["tools/translate/intcodec.py, tools/translate/divergence.py (template extraction)",
                         "tools/props/c18.py (correspondence + direct round-trip oracle on the real code)"]
    ctx.fingerprint(FINGERPRINTS)
    table = None
    from translate import divergence, intcodec
    try:
        table = intcodec.extract()
        ctx.gen("IntCodec", intcodec.to_lean(table))
    except TemplateMismatch as e:
        ctx.gen_restore("IntCodec")
        ctx.escalated.append(f"translator tie lost (intcodec): {e}")
        ctx.notes.append(f"translator tie lost for writeInt/readInt: {e}; relying on correspondence at thorough budget")
    try:
        ctx.gen("Divergence", divergence.to_lean(divergence.extract()))
    except TemplateMismatch as e:
        ctx.gen_restore("Divergence")
        ctx.escalated.append(f"translator tie lost (divergence): {e}")
        ctx.notes.append(f"translator tie lost for valuesHaveDiverged: {e}")
    stream_ok = True
    try:
        from translate import streamcfg
        cfg = streamcfg.extract()
        ctx.gen("StreamCfg", streamcfg.to_lean(cfg))
        stream_ok = all(cfg[k] for k in ("sceneHeaderChecked", "replayHeaderChecked", "flagFromHeader",
                                         "flagIffDivergenceData"))
    except TemplateMismatch as e:
        ctx.gen_restore("StreamCfg")
        stream_ok = False
        ctx.escalated.append(f"translator tie lost (streamcfg): {e}")
        ctx.notes.append(f"translator tie lost for the scene/replay headers and initializeReplay: {e}")
    pr = ctx.prove(THEOREMS, side_conditions=SIDE)
    if ctx.tier == "thorough" and pr.build_ok:
        ctx.leanchecker(["ScenicModel.Props.C18", "ScenicModel.Props.C18Int", "ScenicModel.Props.C18Replay",
                         "ScenicModel.Props.C18Sample", "ScenicModel.Props.C18Stream"])
    found = False
    encs = []
    if pr.build_ok:
        encs = corr_codecs(ctx, table)
        found |= corr_divergence(ctx)
        try:
            corr_stream(ctx)
        except Exception as e:   # the real code crashed on a header input: direct_headers reports it concretely
            ctx.broken("correspondence", "stream/scene header model vs serialization.py", f"{type(e).__name__}: {e}")
    else:
        S = real()
        for z in boundary_ints(ctx.rng, table, 300):
            r = py_wint(S, z)
            if r.startswith("ok "):
                encs.append((z, bytes.fromhex(r[3:])))
    found |= direct_codecs(ctx, encs)
    found |= direct_headers(ctx)
    found |= direct_values(ctx)
    # the failing-input search goes first where the broken obligation points: a lost stream-layer side condition
    # (replay header / initializeReplay) is searched in replayed simulations before the scene generators
    if not found and not stream_ok:
        found |= direct_sims(ctx)
        if found:
            ctx.resolve_brokens(found)
            return
    # the run stops at the first concrete failing input: the remaining generators are skipped
    if not found:
        found |= direct_scenes(ctx)
    if not found:
        found |= direct_sims(ctx)
    ctx.resolve_brokens(found)


def judge(rep):
    """Re-evaluate the property on the recorded input against the current $SCENIC_REPO.
    -> (violated?, message)"""
    S = real()
    import scenic
    from scenic.core.serialization import SerializationError
    kind = rep.get("kind")
    if kind == "header":
        return header_check(rep)
    if kind == "int_roundtrip":
        z = int(rep["z"])
        st = io.BytesIO()
        S.writeInt(z, st)
        r = py_read(S, int, st.getvalue() + b"\x2a", str)
        return r != f"ok {z} 2a", f"readInt(writeInt({z}) + b'*') -> {r}"
    if kind == "int_truncation":
        z = int(rep["z"])
        st = io.BytesIO()
        S.writeInt(z, st)
        b = st.getvalue()
        r = py_read(S, int, b[: rep["k"]], str)
        return r != "err", f"encoding {b.hex()} cut to {rep['k']} bytes -> {r} (must be a SerializationError)"
    if kind == "divergence":
        from scenic.core.simulators import Simulation
        from scenic.core.vectors import Vector
        c = rep["case"]

        class P:
            divergenceTolerance = c[1]
        if c[0] == "s":
            e, a = c[2], c[3]
            truth = abs(Fraction(a) - Fraction(e)) > Fraction(c[1])
        else:
            e, a = Vector(*c[2]), Vector(*c[3])
            truth = sum((Fraction(x) - Fraction(y)) ** 2 for x, y in zip(c[3], c[2])) > Fraction(c[1]) ** 2
        r = bool(Simulation.valuesHaveDiverged(P(), None, "x", e, a))
        return r != truth, f"valuesHaveDiverged(expected={c[2]}, actual={c[3]}, tol={c[1]}) = {r}, exact answer {truth}"
    if kind == "value":
        from scenic.core.vectors import Orientation, Vector
        from scipy.spatial.transform import Rotation
        tyname, enc = rep["type"], rep["enc"]
        unf = lambda h: struct.unpack("<d", bytes.fromhex(h))[0]
        if tyname == "float":
            ty, v = float, unf(enc)
        elif tyname == "Vector":
            ty, v = Vector, Vector(*[unf(h) for h in enc[2:-1].split(",")])
        elif tyname == "Orientation":
            ty, v = Orientation, Orientation(Rotation([unf(h) for h in enc[2:-1].split(",")], normalize=False))
        elif tyname == "str":
            ty, v = str, bytes.fromhex(enc).decode()
        elif tyname == "bytes":
            ty, v = bytes, bytes.fromhex(enc)
        elif tyname == "bool":
            ty, v = bool, enc == "True"
        elif tyname == "int":
            ty, v = int, int(enc)
        else:
            ty, v = type(None), None
        bad = value_check(S, ty, v)
        return bool(bad), (f"{tyname} {v!r}: {bad[0]}" if bad else f"{tyname} {v!r} round-trips and every prefix is refused")
    if kind in ("scene", "scene_encode"):
        seed_all(rep.get("seed", 0))
        sc = scenic.scenarioFromString(rep["program"])
        scene = None
        for _ in range(rep.get("si", 0) + 1):
            scene, _n = sc.generate(maxIterations=200)
        try:
            data = sc.sceneToBytes(scene)
        except Exception as e:
            return True, f"sceneToBytes raised {type(e).__name__}: {e}"
        if kind == "scene_encode":
            return False, "scene encoded"
        if "header" in rep:
            kws = {"options": dict(mode2D=True), "params": dict(params={"zz_override": 2}),
                   "params2": dict(params={"q": 1})}
            other = (scenic.scenarioFromString(rep["program"] + "param zz = 1\n") if rep["header"] == "program"
                     else scenic.scenarioFromString(rep["program"], **kws[rep["header"]]))
            try:
                other.sceneFromBytes(data)
                return True, f"scene decoded by a scenario with a different {rep['header']}"
            except SerializationError as e:
                return False, f"refused: {e}"
        if "k" not in rep:
            try:
                back = sc.sceneFromBytes(data)
            except Exception as e:
                return True, f"decoding the encoded scene raised {type(e).__name__}: {e}"
            a, b = canon_scene(scene), canon_scene(back)
            return a != b, ("decoded scene equals the original" if a == b else f"original {a}\n decoded {b}")
        stored = bytes.fromhex(rep["data"])
        results = []
        for label, d in (("stored", stored), ("regenerated", data)):
            d = bytearray(d)
            if rep["k"] >= len(d):
                continue
            if "v" in rep:
                d[rep["k"]] = rep["v"]
            else:
                d = d[: rep["k"]]
            try:
                sc.sceneFromBytes(bytes(d))
                results.append((label, "decoded"))
            except SerializationError:
                results.append((label, "SerializationError"))
            except Exception as e:
                results.append((label, type(e).__name__))
        if "v" in rep:   # corruption: decoding may succeed or raise SerializationError, nothing else
            bad = [r for r in results if r[1] not in ("decoded", "SerializationError")]
        else:            # truncation: must be refused with SerializationError
            bad = [r for r in results if r[1] != "SerializationError"]
        return bool(bad), f"{'byte %d := %d' % (rep['k'], rep['v']) if 'v' in rep else 'cut to %d bytes' % rep['k']}: {results}"
    if kind == "sim":
        from scenic.core.simulators import DivergenceError
        KinSimulator = make_sim_classes()
        seed, steps, divcheck = rep.get("seed", 0), rep["steps"], rep["divcheck"]
        seed_all(seed)
        sc = scenic.scenarioFromString(rep["program"])
        scene, _n = sc.generate(maxIterations=200)
        seed_all(seed + 1 + divcheck)
        try:
            sim = KinSimulator().simulate(scene, maxSteps=steps, enableReplay=True, enableDivergenceCheck=divcheck,
                                          maxIterations=5)
        except Exception as e:
            return True, f"recording raised {type(e).__name__}: {e}"
        if sim is None:
            return False, "simulation rejected (cannot replay this input)"
        data, ref = sim.getReplay(), canon_sim(sim)
        check = rep.get("check", "replay")
        try:
            if check == "replay":
                sim2 = KinSimulator().replay(scene, data, maxSteps=steps, enableReplay=False, maxIterations=1)
                same = sim2 is not None and canon_sim(sim2) == ref
                return not same, f"replay equals recording: {same}"
            if check == "frombytes":
                sim3 = sc.simulationFromBytes(sc.simulationToBytes(sim), KinSimulator(), maxSteps=steps, enableReplay=False)
                same = sim3 is not None and canon_sim(sim3) == ref
                return not same, f"simulationFromBytes equals recording: {same}"
            if check == "perturb":
                try:
                    KinSimulator(perturb=rep["perturb"]).replay(scene, data, maxSteps=steps, enableReplay=False,
                                                                divergenceTolerance=0.5, maxIterations=1)
                    return True, f"perturbation {rep['perturb']} (tolerance 0.5) was not reported as divergent"
                except DivergenceError as e:
                    return False, f"DivergenceError: {e}"
            if check == "truncate":
                try:
                    KinSimulator().replay(scene, data[: rep["k"]], maxSteps=steps, enableReplay=False, maxIterations=1)
                    return False, "continued past the end of the truncated replay"
                except (SerializationError, DivergenceError) as e:
                    return False, f"refused: {type(e).__name__}"
        except Exception as e:
            return True, f"{check} raised {type(e).__name__}: {e}"
        return False, "recorded"
    return None, json.dumps(rep, indent=1)[:3000]


def replay(ctx, path):
    body = json.load(open(path))
    rep = body.get("replay", body)
    if body.get("no_failing_input_found") or "broken" in rep:
        print("no concrete input was recorded; what no longer checked:")
        print(json.dumps(rep, indent=1)[:4000])
        return 0
    violated, msg = judge(rep)
    print(msg)
    if violated is None:
        print("UNKNOWN replay kind")
        return 2
    print("REPRODUCED: the property fails on this input" if violated else "PASS: the property holds on this input")
    return 1 if violated else 0
