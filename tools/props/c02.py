"""C02 — every generated scene satisfies all of its requirements.

Proof:  lean/ScenicModel/Props/C02*.lean — the sample checkers and the rejection loop accept only samples that falsify no
        active non-optional requirement, for every key function (= every order the timing statistics can induce), every
        checker state (= every history), every subset of optional checks skipped; the default requirements are complete
        (with the full occluder lists); composition into the statement of the property; invariants of the statistics;
        soundness of the separating-axis / half-space certificates of the scene re-verification.
Tie:    (T) tools/translate/checkercfg.py + defaultreqs.py regenerate Gen/CheckerCfg.lean and Gen/DefaultReqsCfg.lean
        (side conditions gen_checker_wf / gen_defaults_wf re-decided by the kernel);
        (C) generated programs are run through the real sampler with a seeded pseudo-clock, the recorded traces
        (orders, verdicts, statistics) and the default-requirement lists are replayed through the Lean model;
        (S) every accepted scene is re-verified by an exact integer-geometry oracle (Lean driver and an independent
        Python implementation): overlap, containment, line of sight, user predicates.
"""
import os

# one BLAS/OpenMP thread per process: the sampler runs in a pool of worker processes
for _v in ("OMP_NUM_THREADS", "OPENBLAS_NUM_THREADS", "MKL_NUM_THREADS", "NUMEXPR_NUM_THREADS"):
    os.environ.setdefault(_v, "1")

import json
import math
import multiprocessing
import os
import random
import sys
import time
import traceback
from fractions import Fraction

from vlib.ctx import Infra, TemplateMismatch, load_findings

THEOREMS = [
    "Scenic.C02.stableSort_perm",
    "Scenic.C02.optional_only_popped",
    "Scenic.C02.weighted_accept_sound",
    "Scenic.C02.weighted_reject_sound",
    "Scenic.C02.weighted_rejectExc_sound",
    "Scenic.C02.weighted_no_crash",
    "Scenic.C02.basic_accept_sound",
    "Scenic.C02.basic_no_crash",
    "Scenic.C02.generateWith_sound",
    "Scenic.C02.generate_sound",
    "Scenic.C02.generate_sound_basic",
    "Scenic.C02.generate_rejections_justified",
    "Scenic.C02.generateBatch_sound",
    "Scenic.C02.hard_requirement_always_active",
    "Scenic.C02.pop_mandatory_unsound",
    "Scenic.C02.defaults_complete",
    "Scenic.C02.defaults_mandatory",
    "Scenic.C02.generate_no_user",
    "Scenic.C02.oneShot_loses_occluders",
    "Scenic.C02.builtins_of_not_falsified",
    "Scenic.C02.generated_scene_satisfies_requirements",
    "Scenic.C02.metrics_invariant",
    "Scenic.C02.metrics_invariant_history",
    "Scenic.C02.cost_well_defined",
    "Scenic.C02.separating_axis_sound",
    "Scenic.C02.axisVerdict_separates",
    "Scenic.C02.outside_halfspace_sound",
    "Scenic.C02.inside_halfspaces_convex",
]
SIDE = ["Scenic.C02.gen_checker_wf", "Scenic.C02.gen_checker_loop_sorted", "Scenic.C02.gen_defaults_wf"]

FINGERPRINTS = {
    "SampleChecker": ("src/scenic/core/sample_checking.py", "SampleChecker"),
    "BasicChecker": ("src/scenic/core/sample_checking.py", "BasicChecker"),
    "WeightedAcceptanceChecker": ("src/scenic/core/sample_checking.py", "WeightedAcceptanceChecker"),
    "generateDefaultRequirements": ("src/scenic/core/scenarios.py", "Scenario.generateDefaultRequirements"),
    "_generateInner": ("src/scenic/core/scenarios.py", "Scenario._generateInner"),
    "generateBatch": ("src/scenic/core/scenarios.py", "Scenario.generateBatch"),
    "setSampleChecker": ("src/scenic/core/scenarios.py", "Scenario.setSampleChecker"),
    "containerOfObject": ("src/scenic/core/scenarios.py", "Scenario.containerOfObject"),
    "Scenario.__init__": ("src/scenic/core/scenarios.py", "Scenario.__init__"),
    "SamplingRequirement": ("src/scenic/core/requirements.py", "SamplingRequirement"),
    "IntersectionRequirement": ("src/scenic/core/requirements.py", "IntersectionRequirement"),
    "BlanketCollisionRequirement": ("src/scenic/core/requirements.py", "BlanketCollisionRequirement"),
    "ContainmentRequirement": ("src/scenic/core/requirements.py", "ContainmentRequirement"),
    "VisibilityRequirement": ("src/scenic/core/requirements.py", "VisibilityRequirement"),
    "NonVisibilityRequirement": ("src/scenic/core/requirements.py", "NonVisibilityRequirement"),
    "CompiledRequirement": ("src/scenic/core/requirements.py", "CompiledRequirement"),
    "Object.intersects": ("src/scenic/core/object_types.py", "Object.intersects"),
    "Object._boundingPolygon": ("src/scenic/core/object_types.py", "Object._boundingPolygon"),
    "MeshVolumeRegion.intersects": ("src/scenic/core/regions.py", "MeshVolumeRegion.intersects"),
    "MeshVolumeRegion.containsObject": ("src/scenic/core/regions.py", "MeshVolumeRegion.containsObject"),
    "PolygonalFootprintRegion.containsObject": ("src/scenic/core/regions.py", "PolygonalFootprintRegion.containsObject"),
}

MARGIN_LOG2 = 20  # verdicts are only given when they hold with a margin of 2**-20 (about 1e-6) world units


# =========================================================================== program generator
def fmt(x):
    return repr(round(x, 3))


def gen_program(rng, force=None):
    """A random Scenic program.  Returns a dict: code, mode2D, names (objects in creation order), reqs (user
    requirements: line, prob, python predicate over a dict name -> sampled object)."""
    mode2d = rng.random() < 0.25
    flavour = force or rng.choice(["plain", "plain", "plain", "containers", "containers", "visibility", "visibility3",
                                   "nested", "static", "nonconvex"])
    if flavour.startswith("visibility") or flavour == "nonconvex":
        mode2d = False
    L = []
    # a user requirement whose evaluation raises RejectionException beyond a threshold (`checkRequirements` must turn
    # that into a rejection)
    guard = rng.random() < 0.2
    if guard:
        L += ["def c02_guard(v, t):", "    if v > t:", "        raise RejectionException('c02 guard')", "    return True"]
    half = rng.choice([8, 12, 20])
    if flavour == "nested":
        half = rng.choice([5, 6, 8])
    if flavour == "static":
        half = rng.choice([12, 20])
    if flavour == "nonconvex":
        half = 12
    ws = rng.choice(["rect", "rect", "circle", "poly", "none", "box"] if not mode2d else ["rect", "circle", "poly", "none"])
    if flavour == "visibility3":
        ws = "box"
    if flavour == "nonconvex":
        ws = rng.choice(["rect", "none"])
    if ws == "rect":
        L.append(f"workspace = Workspace(RectangularRegion((0, 0, 0), {fmt(rng.uniform(0, 3))}, {2 * half}, {2 * half}))")
    elif ws == "circle":
        L.append(f"workspace = Workspace(CircularRegion((0, 0, 0), {half}))")
    elif ws == "poly":
        h = half
        L.append(f"workspace = Workspace(PolygonalRegion([({-h}, {-h}), ({h + 2}, {-h + 1}), ({h}, {h}), ({-h + 2}, {h + 3})]))")
    elif ws == "box":
        L.append(f"workspace = Workspace(BoxRegion(dimensions=({2 * half}, {2 * half}, 8), position=(0, 0, 3)))")
    names, reqs = [], []
    nobj = rng.randint(2, 5) if flavour != "visibility3" else rng.randint(1, 2)
    span = half * rng.choice([0.6, 0.9, 1.05])   # > 1: some samples fall outside the workspace
    if flavour == "nested":
        span = half * 0.5
    block_at = None
    if flavour == "nonconvex":
        # one solid block that is not convex (an extruded rectilinear L / U / T / plus outline, 10 x 10 in plan), created
        # before, between or after the small boxes, which are sampled over the block's bounding square: candidates with a
        # small box strictly inside an arm of the block (no surface contact) are frequent, as are boxes in its notches
        span = 5.5
        nobj = rng.randint(3, 5)
        block_at = rng.choice([0, nobj - 1, nobj - 1, rng.randrange(nobj)])
        outline = rng.choice([
            [(0, 0), (10, 0), (10, 2.5), (2.5, 2.5), (2.5, 10), (0, 10)],                                        # L
            [(0, 0), (10, 0), (10, 10), (7.5, 10), (7.5, 2.5), (2.5, 2.5), (2.5, 10), (0, 10)],                  # U
            [(0, 7), (0, 10), (10, 10), (10, 7), (6.5, 7), (6.5, 0), (3.5, 0), (3.5, 7)],                        # T
            [(3.5, 0), (6.5, 0), (6.5, 3.5), (10, 3.5), (10, 6.5), (6.5, 6.5), (6.5, 10), (3.5, 10), (3.5, 6.5),
             (0, 6.5), (0, 3.5), (3.5, 3.5)],                                                                    # plus
        ])
        bh = rng.choice([2, 3])
        L += ["import shapely.geometry", "import trimesh",
              f"c02_mesh = trimesh.creation.extrude_polygon(shapely.geometry.Polygon({outline!r}), {bh})"]

    def dims():
        return (fmt(rng.uniform(0.5, 4)), fmt(rng.uniform(0.5, 4)), fmt(rng.uniform(0.5, 2.5)))

    def position():
        if mode2d:
            return f"(Range({fmt(-span)}, {fmt(span)}), Range({fmt(-span)}, {fmt(span)}))"
        z = rng.choice(["0", "0", "Range(0, 2)", fmt(rng.uniform(0, 3))]) if ws in ("box", "none") else rng.choice(["0", "Range(0, 1.5)"])
        if ws == "box":
            z = rng.choice(["1.5", "Range(0.5, 5)"])
        return f"(Range({fmt(-span)}, {fmt(span)}), Range({fmt(-span)}, {fmt(span)}), {z})"

    def facing():
        r = rng.random()
        if r < 0.25:
            return ""
        if r < 0.7 or mode2d:
            return f", facing Range(0, 360) deg"
        if r < 0.85:
            return f", facing {fmt(rng.uniform(0, 360))} deg"
        return ", facing (Range(0, 360) deg, Range(-40, 40) deg, Range(-40, 40) deg)"

    def extras(i):
        e = ""
        r = rng.random()
        if r < 0.12:
            e += ", with allowCollisions True"
        elif r < 0.3:
            e += ", with allowCollisions Uniform(True, False)"
        if flavour == "containers" and rng.random() < 0.6:
            cx, cy = fmt(rng.uniform(-half / 2, half / 2)), fmt(rng.uniform(-half / 2, half / 2))
            k = rng.random()
            if k < 0.4 or mode2d:
                e += f", with regionContainedIn RectangularRegion(({cx}, {cy}, 0), {fmt(rng.uniform(0, 3))}, {fmt(half * 1.2)}, {fmt(half * 1.1)})"
            elif k < 0.7:
                e += f", with regionContainedIn BoxRegion(dimensions=({fmt(half * 1.3)}, {fmt(half * 1.2)}, 7), position=({cx}, {cy}, 2.5))"
            else:
                e += f", with regionContainedIn CircularRegion(({cx}, {cy}, 0), {fmt(half * 0.7)})"
        return e

    observer, vd = None, None
    if flavour.startswith("visibility"):
        vd = rng.choice([10, 14])
        observer = "pt" if rng.random() < 0.4 else "ego"
    for i in range(nobj):
        nm = "ego" if i == 0 else f"o{i}"
        w, l, h = dims()
        more = f", with visibleDistance {vd}" if (i == 0 and observer == "ego") else ""
        if flavour == "nested" and i == 0:
            # one big box; the small ones are sampled in the same area, so candidates with a box strictly inside
            # another one (no surface contact: invisible to the blanket pre-check) are frequent
            w, l, h = fmt(rng.uniform(4, 7)), fmt(rng.uniform(4, 7)), fmt(rng.uniform(2, 3.5))
        elif flavour == "nested":
            w, l, h = fmt(rng.uniform(0.3, 1.2)), fmt(rng.uniform(0.3, 1.2)), fmt(rng.uniform(0.3, 1))
        if flavour == "nonconvex" and i == block_at:
            pose = rng.choice(["at (0, 0, 0)", "at (0, 0, 0)", f"at ({fmt(rng.uniform(-1, 1))}, {fmt(rng.uniform(-1, 1))}, 0), facing {fmt(rng.uniform(0, 360))} deg",
                               "at (Range(-1, 1), Range(-1, 1), 0), facing Range(0, 360) deg"])
            L.append(f"{nm} = new Object {pose}, with shape MeshShape(c02_mesh), with width 10, with length 10, with height {bh}")
        elif flavour == "nonconvex":
            z = rng.choice(["0", "0", "Range(-0.4, 0.4)"])
            yaw = rng.choice(["", ", facing Range(0, 360) deg"])
            L.append(f"{nm} = new Object at (Range(-5.5, 5.5), Range(-5.5, 5.5), {z}){yaw}, with width {fmt(rng.uniform(0.3, 1))}, "
                     f"with length {fmt(rng.uniform(0.3, 1))}, with height {fmt(rng.uniform(0.3, 0.9))}{extras(i)}")
        elif flavour == "static" and i < nobj - 1:
            # objects with constant pose and size: checked at compile time by Scenario.validate as well
            x, y = (i - (nobj - 2) / 2) * 5.5 + rng.choice([0, 0.5]), rng.choice([-3, 0, 3])
            z = "" if mode2d else ", 0"
            ex = rng.choice(["", "", ", with allowCollisions True", ", with requireVisible True" if i else ""])
            L.append(f"{nm} = new Object at ({fmt(x)}, {fmt(y)}{z}), facing {fmt(rng.uniform(0, 360))} deg, "
                     f"with width {fmt(rng.uniform(0.5, 3))}, with length {fmt(rng.uniform(0.5, 3))}, with height {h}{ex}")
        else:
            L.append(f"{nm} = new Object at {position()}{facing()}, with width {w}, with length {l}, with height {h}{extras(i)}{more}")
        names.append(nm)
    if flavour.startswith("visibility"):
        if observer == "pt":
            L.append(f"pt = new Point at (Range(-4, 4), Range(-4, 4), {fmt(rng.uniform(0.5, 2))}), with visibleDistance {vd}")
        nwalls = rng.randint(1, 2)
        for k in range(nwalls):
            occ = rng.choice(["", ", with occluding False", ", with occluding Uniform(True, False)", ", with occluding Uniform(True, False)"])
            L.append(f"wall{k} = new Object at (Range(-6, 6), Range(-6, 6), 1.5), facing Range(0, 360) deg, "
                     f"with width {fmt(rng.uniform(4, 9))}, with length 0.4, with height {rng.choice([3, 5])}{occ}")
            names.append(f"wall{k}")
        ntargets = rng.randint(1, 3)
        for k in range(ntargets):
            r = rng.random()
            small = f"with width {fmt(rng.uniform(0.3, 1))}, with length {fmt(rng.uniform(0.3, 1))}, with height {fmt(rng.uniform(0.3, 1))}"
            if r < 0.5:
                L.append(f"t{k} = new Object visible from {observer}, {small}")
            elif r < 0.75 and flavour == "visibility3":
                L.append(f"t{k} = new Object not visible from {observer}, {small}")
            else:
                L.append(f"t{k} = new Object at (Range(-8, 8), Range(-8, 8), {fmt(rng.uniform(0.4, 2))}), {small}, with requireVisible True")
            names.append(f"t{k}")
    # user requirements
    preds = [
        ("{a}.position.x < {b}.position.x", "o['{a}'].position.x < o['{b}'].position.x"),
        ("{a}.position.y > {b}.position.y - 2", "o['{a}'].position.y > o['{b}'].position.y - 2"),
        ("(distance from {a} to {b}) > 3", "o['{a}'].position.distanceTo(o['{b}'].position) > 3"),
        ("(distance from {a} to {b}) < 15", "o['{a}'].position.distanceTo(o['{b}'].position) < 15"),
        ("{a}.position.x + {b}.position.y > -5", "o['{a}'].position.x + o['{b}'].position.y > -5"),
        ("abs({a}.position.x) < {c}", "abs(o['{a}'].position.x) < {c}"),
    ]
    if guard:
        preds += [("c02_guard({a}.position.x, {c})", "o['{a}'].position.x <= {c}")] * 6
    for _ in range(rng.choice([0, 1, 1, 2, 3]) + (1 if guard else 0)):
        a, b_ = rng.sample(names, 2) if len(names) >= 2 else (names[0], names[0])
        sc, py = rng.choice(preds)
        c = fmt(span * rng.choice([0.8, 0.3]))
        prob = rng.choice([None, None, 0.3, 0.6, 0.9])
        head = "require" if prob is None else f"require[{prob}]"
        L.append(f"{head} {sc.format(a=a, b=b_, c=c)}")
        reqs.append({"line": len(L), "prob": 1 if prob is None else prob, "py": py.format(a=a, b=b_, c=c)})
    return {"code": "\n".join(L) + "\n", "mode2D": mode2d, "names": names, "reqs": reqs, "flavour": flavour}


CORPUS = [
    # regression for /repo commit 0f60b192: the second visibility requirement must see the wall
    {"code": ("workspace = Workspace(BoxRegion(dimensions=(40, 40, 10), position=(0, 0, 4)))\n"
              "ego = new Object at (0, 0, 1), with width 1, with length 1, with height 1, with visibleDistance 14\n"
              "wall = new Object at (0, 4, 2.5), with width 9, with length 0.4, with height 6\n"
              "t0 = new Object visible from ego, with width 0.5, with length 0.5, with height 0.5\n"
              "t1 = new Object visible from ego, with width 0.5, with length 0.5, with height 0.5\n"
              "t2 = new Object visible from ego, with width 0.5, with length 0.5, with height 0.5\n"),
     "mode2D": False, "names": ["ego", "wall", "t0", "t1", "t2"], "reqs": [], "flavour": "corpus-occluders"},
    {"code": ("workspace = Workspace(BoxRegion(dimensions=(30, 30, 10), position=(0, 0, 4)))\n"
              "ego = new Object at (0, 0, 1), with width 1, with length 1, with height 1, with visibleDistance 12\n"
              "wall = new Object at (0, 3, 2.5), with width 8, with length 0.4, with height 6\n"
              "t0 = new Object at (Range(-6, 6), Range(-2, 10), 1), with width 0.5, with length 0.5, with height 0.5, with requireVisible True\n"
              "t1 = new Object not visible from ego, with width 0.5, with length 0.5, with height 0.5, "
              "with regionContainedIn BoxRegion(dimensions=(16, 16, 3), position=(0, 2, 1.5))\n"),
     "mode2D": False, "names": ["ego", "wall", "t0", "t1"], "reqs": [], "flavour": "corpus-nonvisible"},
    # crowded: many rejections for intersection, soft requirements toggling
    {"code": ("workspace = Workspace(RectangularRegion((0, 0, 0), 0.4, 14, 14))\n"
              "ego = new Object at (Range(-7, 7), Range(-7, 7), 0), facing Range(0, 360) deg, with width 3, with length 4\n"
              "o1 = new Object at (Range(-7, 7), Range(-7, 7), 0), facing Range(0, 360) deg, with width 3, with length 4\n"
              "o2 = new Object at (Range(-7, 7), Range(-7, 7), 0), facing Range(0, 360) deg, with width 2, with length 5\n"
              "o3 = new Object at (Range(-7, 7), Range(-7, 7), 0), with width 2, with length 2, with allowCollisions Uniform(True, False)\n"
              "require[0.5] ego.position.x < o1.position.x\n"
              "require o2.position.y > o1.position.y - 2\n"),
     "mode2D": False, "names": ["ego", "o1", "o2", "o3"],
     "reqs": [{"line": 6, "prob": 0.5, "py": "o['ego'].position.x < o['o1'].position.x"},
              {"line": 7, "prob": 1, "py": "o['o2'].position.y > o['o1'].position.y - 2"}],
     "flavour": "corpus-crowded"},
    # a small box sampled around an L-shaped solid created *after* it: inside an arm of the L the surfaces do not touch,
    # so only the point-containment pass of MeshVolumeRegion.intersects (in the direction other-contains-self) sees it
    {"code": ("import shapely.geometry\nimport trimesh\n"
              "c02_mesh = trimesh.creation.extrude_polygon(shapely.geometry.Polygon([(0, 0), (10, 0), (10, 2), (2, 2), (2, 10), (0, 10)]), 2)\n"
              "ego = new Object at (Range(1.5, 4.5), Range(-4.4, -1), 0), with width 0.5, with length 0.5, with height 0.5\n"
              "blk = new Object at (0, 0, 0), with shape MeshShape(c02_mesh), with width 10, with length 10, with height 2\n"),
     "mode2D": False, "names": ["ego", "blk"], "reqs": [], "flavour": "corpus-nonconvex-later"},
    # the same with the solid created first (the other direction of the containment pass), in a random pose, under
    # BasicChecker(initialCollisionCheck=True) with 3 intersection requirements: the blanket surface check the checker
    # keeps cannot see a box strictly inside the solid (it can for convex pairs, which FCL treats as solids)
    {"code": ("import shapely.geometry\nimport trimesh\n"
              "c02_mesh = trimesh.creation.extrude_polygon(shapely.geometry.Polygon([(0, 0), (10, 0), (10, 10), (7, 10), (7, 3), (3, 3), (3, 10), (0, 10)]), 3)\n"
              "ego = new Object at (Range(-1, 1), Range(-1, 1), 0), facing Range(0, 360) deg, with shape MeshShape(c02_mesh), with width 10, with length 10, with height 3\n"
              "o1 = new Object at (Range(-5, 5), Range(-5, 5), Range(-0.5, 0.5)), facing Range(0, 360) deg, with width 0.6, with length 0.4, with height 0.5\n"
              "o2 = new Object at (Range(-5, 5), Range(-5, 5), 0), with width 0.5, with length 0.5, with height 0.8\n"),
     "mode2D": False, "names": ["ego", "o1", "o2"], "reqs": [], "flavour": "corpus-nonconvex-first", "variant": "basic:1"},
    # regression for /repo commit ba8823ad: fixed objects, the earlier one with a random allowCollisions, overlapping the
    # later one: must compile (Scenario.validate cannot decide the pair) and every scene must have the flag sampled True
    {"code": ("ego = new Object at (0, 0, 0), with width 2, with length 2, with allowCollisions Uniform(True, False)\n"
              "o1 = new Object at (0.7, 0.4, 0), with width 2, with length 2\n"
              "o2 = new Object at (Range(-6, 6), Range(-6, 6), 0), facing Range(0, 360) deg, with width 1.5, with length 3\n"),
     "mode2D": False, "names": ["ego", "o1", "o2"], "reqs": [], "flavour": "corpus-static-random-flag"},
    # walls whose `occluding` is random on every side of the observer: a wall sampled occluding must hide what is behind it
    {"code": ("workspace = Workspace(BoxRegion(dimensions=(40, 40, 10), position=(0, 0, 4)))\n"
              "ego = new Object at (0, 0, 1), with width 1, with length 1, with height 1, with visibleDistance 12\n"
              "wall0 = new Object at (Range(-0.3, 0.3), 4, 2.5), with width 9, with length 0.4, with height 7, with occluding Uniform(True, False)\n"
              "wall1 = new Object at (Range(-0.3, 0.3), -4, 2.5), with width 9, with length 0.4, with height 7, with occluding Uniform(True, False)\n"
              "wall2 = new Object at (4, Range(-0.3, 0.3), 2.5), facing 90 deg, with width 7, with length 0.4, with height 7, with occluding Uniform(True, False)\n"
              "t0 = new Object visible from ego, with width 0.5, with length 0.5, with height 0.5\n"
              "t1 = new Object visible from ego, with width 0.5, with length 0.5, with height 0.5\n"
              "t2 = new Object visible from ego, with width 0.5, with length 0.5, with height 0.5\n"),
     "mode2D": False, "names": ["ego", "wall0", "wall1", "wall2", "t0", "t1", "t2"], "reqs": [], "flavour": "corpus-random-occluding"},
]


# =========================================================================== exact integer geometry (Python side)
def v_sub(a, b):
    return (a[0] - b[0], a[1] - b[1], a[2] - b[2])


def v_dot(a, b):
    return a[0] * b[0] + a[1] * b[1] + a[2] * b[2]


def v_cross(a, b):
    return (a[1] * b[2] - a[2] * b[1], a[2] * b[0] - a[0] * b[2], a[0] * b[1] - a[1] * b[0])


def v_n1(a):
    return abs(a[0]) + abs(a[1]) + abs(a[2])


def mesh_planes(m):
    vs, fs = m
    return [(vs[f[0]], v_cross(v_sub(vs[f[1]], vs[f[0]]), v_sub(vs[f[2]], vs[f[0]]))) for f in fs]


def mesh_edge_dirs(m):
    vs, fs = m
    seen, out = set(), []
    for f in fs:
        for a, b in ((f[0], f[1]), (f[1], f[2]), (f[2], f[0])):
            e = (a, b) if a <= b else (b, a)
            if e not in seen:
                seen.add(e)
                out.append(v_sub(vs[e[1]], vs[e[0]]))
    return out


def py_sat(margin, A, B):
    def verdict(n):
        pa = [v_dot(n, v) for v in A[0]]
        pb = [v_dot(n, v) for v in B[0]]
        a0, a1, b0, b1 = min(pa), max(pa), min(pb), max(pb)
        tol = margin * v_n1(n)
        if max(b0 - a1, a0 - b1) > tol:
            return True
        if min(a1 - b0, b1 - a0) > tol:
            return False
        return None
    coord = [(1, 0, 0), (0, 1, 0), (0, 0, 1)]
    if any(verdict(n) is True for n in coord):
        return "sep0"     # separated already by a coordinate axis (bounding boxes apart)
    axes = coord + [p[1] for p in mesh_planes(A)] + [p[1] for p in mesh_planes(B)]
    eb = mesh_edge_dirs(B)
    for x in mesh_edge_dirs(A):
        axes += [v_cross(x, y) for y in eb]
    vs = [verdict(n) for n in axes if n != (0, 0, 0)]
    if any(v is True for v in vs):
        return "sep"
    if all(v is False for v in vs):
        return "pen"
    return "und"


def py_orient2(a, b, p):
    return (b[0] - a[0]) * (p[1] - a[1]) - (b[1] - a[1]) * (p[0] - a[0])


def py_point_in_mesh(margin, m, p):
    """True = strictly inside the solid bounded by the closed mesh (any shape), at least the margin away from the plane
    of every face; False = outside; None = undecided (degenerate position for the vertical ray)."""
    vs, fs = m
    hits = 0
    for f in fs:
        a, b, c = vs[f[0]], vs[f[1]], vs[f[2]]
        n = v_cross(v_sub(b, a), v_sub(c, a))
        d = v_dot(n, v_sub(p, a))
        if n != (0, 0, 0) and not abs(d) > margin * v_n1(n):
            return None
        o1, o2, o3 = py_orient2(a, b, p), py_orient2(b, c, p), py_orient2(c, a, p)
        if (o1 > 0 and o2 > 0 and o3 > 0) or (o1 < 0 and o2 < 0 and o3 < 0):
            if d == 0:
                return None
            if (d > 0) != (n[2] > 0):
                hits += 1
        elif (o1 >= 0 and o2 >= 0 and o3 >= 0) or (o1 <= 0 and o2 <= 0 and o3 <= 0):
            return None
    return hits % 2 == 1


def py_pim(margin, m, pts):
    vs = [py_point_in_mesh(margin, m, p) for p in pts]
    if any(v is True for v in vs):
        return "in"
    if all(v is False for v in vs):
        return "out"
    return "und"


def py_halfspaces(margin, hs, pts):
    hs = [h for h in hs if h[1] != (0, 0, 0)]
    if any(v_dot(n, v_sub(v, p)) > margin * v_n1(n) for v in pts for p, n in hs):
        return "out"
    if all(v_dot(n, v_sub(v, p)) < -(margin * v_n1(n)) for v in pts for p, n in hs):
        return "in"
    return "und"


def ring_planes(ring):
    out = []
    for i, a in enumerate(ring):
        b = ring[(i + 1) % len(ring)]
        out.append(((a[0], a[1], 0), (b[1] - a[1], -(b[0] - a[0]), 0)))
    return out


def ring_area2(ring):
    return sum(a[0] * ring[(i + 1) % len(ring)][1] - ring[(i + 1) % len(ring)][0] * a[1] for i, a in enumerate(ring))


def py_cpoly(margin, ring, pts):
    if ring_area2(ring) <= 0:
        return "nonconvex"
    hs = ring_planes(ring)
    if not all(v_dot(n, v_sub((v[0], v[1], 0), p)) <= 0 for p, n in hs for v in ring):
        return "nonconvex"
    return py_halfspaces(margin, hs, pts)


def py_clip(off, e, t, hs):
    lo, hi = Fraction(0), Fraction(1)
    for p, n in hs:
        a = v_dot(n, v_sub(e, p))
        b = v_dot(n, v_sub(t, e))
        c = off(n)
        if b == 0:
            if not a <= c:
                return None
            continue
        q = Fraction(c - a, b)
        if b > 0:
            hi = min(hi, q)
        else:
            lo = max(lo, q)
    return (lo, hi) if lo <= hi else None


def py_los(margin, eye, centre, targets, occluders):
    def planes(m):
        return [h for h in mesh_planes(m) if h[1] != (0, 0, 0)]
    if targets and any(all(py_clip(lambda n: -(margin * v_n1(n)), eye, t, planes(o)) is not None for t in targets) for o in occluders):
        return "blocked"
    if all(py_clip(lambda n: margin * v_n1(n), eye, centre, planes(o)) is None for o in occluders):
        return "clear"
    return "und"


def py_dist2(eye, pts):
    d = 0
    for k in range(3):
        lo, hi = min(p[k] for p in pts), max(p[k] for p in pts)
        dk = max(lo - eye[k], eye[k] - hi, 0)
        d += dk * dk
    return d


# --------------------------------------------------------------------------- exact scaling of floats
class Scaler:
    """All floats of one scene become integers: x * 2**k for the smallest k (>= MARGIN_LOG2) making every value integral."""

    def __init__(self):
        self.vals = []

    def add(self, xs):
        fr = [Fraction(float(x)) for x in xs]
        self.vals.append(fr)
        return len(self.vals) - 1

    def finish(self):
        k = MARGIN_LOG2
        for fr in self.vals:
            for f in fr:
                k = max(k, f.denominator.bit_length() - 1)
        self.k = k
        self.scale = 1 << k
        self.margin = 1 << (k - MARGIN_LOG2)
        return self

    def ints(self, h):
        return [int(f * self.scale) for f in self.vals[h]]


def s_pts(pts):
    return ";".join(",".join(str(c) for c in p) for p in pts) if pts else "-"


def s_mesh(m):
    return s_pts(m[0]) + "#" + ";".join(",".join(str(i) for i in f) for f in m[1])


# =========================================================================== worker: run one program on the real sampler
class FakeTime:
    """stands in for the `time` module inside scenic.core.sample_checking: a seeded pseudo-clock whose increments are
    multiples of 2**-10 (so every float operation of the checker on them is exact) and depend on the requirement being
    timed, with weights reshuffled now and then — this is what makes the evaluation order change during a run."""

    def __init__(self, rng, nreqs):
        self.rng = rng
        self.t = 0.0
        self.current = 0
        self.nreqs = nreqs
        self.weights = [1] * max(nreqs, 1)
        self.calls = 0
        self.shuffle()
        self.last = None

    def shuffle(self):
        self.weights = [self.rng.choice([1, 2, 5, 20, 100, 400]) for _ in range(max(self.nreqs, 1))]

    def perf_counter(self):
        self.calls += 1
        if self.calls % 2 == 1:
            inc = self.rng.choice([1, 3])
        else:
            inc = self.weights[self.current % len(self.weights)] * self.rng.choice([1, 1, 2, 3])
        self.t += inc / 1024.0
        self.last = Fraction(inc, 1024)
        return self.t


def frs(x):
    f = Fraction(x)
    return f"{f.numerator}/{f.denominator}"


def run_program(task):
    """Executed in a worker process.  Returns a JSON-able dict."""
    try:
        return _run_program(task)
    except Exception as e:  # infrastructure problem of the harness itself
        return {"fatal": f"{type(e).__name__}: {e}", "tb": traceback.format_exc()[-1500:], "task_id": task.get("id")}


def _run_program(task):
    import numpy
    import scenic
    import scenic.core.sample_checking as SCK
    from scenic.core.distributions import RejectionException, needsSampling
    from scenic.core.errors import InvalidScenarioError
    from scenic.core.object_types import Object, OrientedPoint, Point
    from scenic.core.regions import AllRegion, MeshVolumeRegion, PolygonalFootprintRegion, PolygonalRegion
    from scenic.core.requirements import (BlanketCollisionRequirement, CompiledRequirement, ContainmentRequirement,
                                          IntersectionRequirement, NonVisibilityRequirement, VisibilityRequirement)

    prog = task["prog"]
    rng = random.Random(task["seed"])
    t_start = time.time()
    out = {"id": task["id"], "hist": [], "lines": [], "expect": [], "viol": [], "cases": [], "flavour": prog["flavour"],
           "scenes": 0, "orders": 0, "notes": [], "tie": []}
    H = out["hist"].append
    random.seed(task["seed"])
    numpy.random.seed(task["seed"] % (2 ** 32))
    try:
        sc = scenic.scenarioFromString(prog["code"], mode2D=prog["mode2D"])
    except InvalidScenarioError as e:
        H(("program", "invalid:" + type(e).__name__))
        if prog["flavour"].startswith("corpus"):
            out["tie"].append(f"the regression program {prog['flavour']} is refused at compile time ({type(e).__name__}: {str(e)[:160]})")
        return out
    except Exception as e:
        H(("program", "compile-error:" + type(e).__name__))
        out["notes"].append(f"compile error {type(e).__name__}: {str(e)[:200]}")
        if prog["flavour"].startswith("corpus"):
            out["tie"].append(f"the regression program {prog['flavour']} no longer compiles ({type(e).__name__}: {str(e)[:160]})")
        return out
    H(("program", "compiled:" + prog["flavour"] + (":2D" if prog["mode2D"] else ":3D")))
    insts = list(sc._instances)
    idx = {id(x): i for i, x in enumerate(insts)}
    objects = [idx[id(o)] for o in sc.objects]
    ego = idx[id(sc.egoObject)] if sc.egoObject is not None else None

    # ---------------------------------------------------------------- (C1) default requirements vs the model
    def tri(v):
        return "n" if needsSampling(v) else ("t" if v else "f")
    toks, ok_desc = [], True
    for x in insts:
        if isinstance(x, Object):
            cont = sc.containerOfObject(x)
            t = ["1", tri(x.allowCollisions), "1" if isinstance(cont, AllRegion) else "0", tri(x.occluding),
                 "1" if x.requireVisible else "0"]
        else:
            t = ["0", "t", "1", "f", "0"]
        for attr in ("_observingEntity", "_nonObservingEntity"):
            e = getattr(x, attr, None)
            if e is None:
                t.append("-")
            elif id(e) in idx:
                t.append(str(idx[id(e)]))
            else:
                ok_desc = False
                t.append("-")
        toks.append(":".join(t))

    def ids(xs):
        return ",".join(str(idx[id(o)]) for o in xs) if xs else "-"

    def show_req(r):
        o = "/1" if r.optional else "/0"
        if type(r) is BlanketCollisionRequirement:
            return f"B:{ids(r.objects)}{o}"
        if type(r) is IntersectionRequirement:
            return f"I:{idx[id(r.objA)]}:{idx[id(r.objB)]}{o}"
        if type(r) is ContainmentRequirement:
            return f"C:{idx[id(r.obj)]}{o}"
        if type(r) is VisibilityRequirement:
            return f"V:{idx[id(r.source)]}:{idx[id(r.target)]}:{ids(r.potential_occluders)}{o}"
        if type(r) is NonVisibilityRequirement:
            return f"N:{idx[id(r.source)]}:{idx[id(r.target)]}:{ids(r.potential_occluders)}{o}"
        return f"?{type(r).__name__}{o}"
    if ok_desc:
        try:
            actual = "ok" + "".join(" " + show_req(r) for r in sc.defaultRequirements)
            out["lines"].append(f"C02 defaults {ego if ego is not None else '-'} {ids(sc.objects)} " + " ".join(toks))
            out["expect"].append(("defaults", actual, None))
        except KeyError:
            H(("defaults", "entity-not-an-instance"))
    else:
        H(("defaults", "entity-not-an-instance"))

    # ---------------------------------------------------------------- choose the checker
    variant = task["variant"]
    if variant.startswith("pow2"):
        B = int(variant.split(":")[1])
        sc.setSampleChecker(SCK.WeightedAcceptanceChecker(bufferSize=B))
    elif variant.startswith("basic"):
        sc.setSampleChecker(SCK.BasicChecker(initialCollisionCheck=variant.endswith(":1")))
    checker = sc.checker
    allreqs = list(sc.defaultRequirements) + list(sc.userRequirements)
    pos = {id(r): i for i, r in enumerate(allreqs)}
    creqs = list(checker.requirements)
    weighted = isinstance(checker, SCK.WeightedAcceptanceChecker)
    B = checker.bufferSize if weighted else 0
    clock = FakeTime(random.Random(task["seed"] ^ 0x5EED), len(allreqs))
    real_time = SCK.time

    class TimeShim:
        perf_counter = staticmethod(clock.perf_counter)
    SCK.time = TimeShim

    state = {"order": [], "cache": {}, "durs": [], "exc": False}
    for r in creqs:
        orig = r.falsifiedBy

        def wrapped(sample, _r=r, _orig=orig):
            i = pos[id(_r)]
            clock.current = i
            state["order"].append(i)
            try:
                v = _orig(sample)
            except RejectionException:
                state["exc"] = True
                state["cache"][i] = "x"
                raise
            state["cache"][i] = bool(v)
            return v
        r.falsifiedBy = wrapped
    calls = []          # trace of every checkRequirements call
    orig_check = checker.checkRequirements

    def check_wrapped(sample):
        state["order"], state["cache"], state["exc"] = [], {}, False
        costs = None
        if weighted:
            costs = [checker.getRequirementCost(r) for r in allreqs]
        res = orig_check(sample)
        act = [bool(r.active) for r in allreqs]
        # requirements the checker did not evaluate are never consulted by the model either when the orders agree
        # (and a disagreement of the orders is itself reported), so they need no value here
        fals = [state["cache"].get(i, False) for i in range(len(allreqs))]
        calls.append({"act": act, "fals": fals, "order": list(state["order"]), "res": None if res is None else str(res)[:60],
                      "sid": id(sample),
                      "costs": costs, "exc": state["exc"], "durs": list(state["durs"])})
        state["durs"] = []
        check_wrapped.last_sample = sample
        return res
    checker.checkRequirements = check_wrapped
    if weighted:
        orig_update = checker.updateMetrics

        def upd(req, m):
            state["durs"].append(Fraction(m[1]))
            return orig_update(req, m)
        checker.updateMetrics = upd

    # ---------------------------------------------------------------- generate scenes
    user_by_line = {}
    for r in sc.userRequirements:
        user_by_line[getattr(r, "line", None)] = r
    scenes = []
    seen_orders = set()
    try:
        for si in range(task["nscenes"]):
            if si and si % 5 == 0:
                clock.shuffle()
            if len(calls) >= task.get("maxcalls", 10 ** 9):
                H(("generate", "call-budget-reached"))
                break
            first = len(calls)
            try:
                scene, its = sc.generate(maxIterations=task["maxit"])
            except RejectionException:
                H(("generate", "max-iterations"))
                break
            except Exception as e:
                out["viol"].append({"key": f"generate-crash:{type(e).__name__}", "what": f"Scenario.generate raised {type(e).__name__}: {str(e)[:200]}",
                                    "scene": si})
                H(("generate", "crash:" + type(e).__name__))
                break
            H(("iterations", min(its, 50) // 5 * 5))
            acc = calls[-1] if len(calls) > first else None
            scenes.append((si, scene, acc))
            for c in calls[first:]:
                seen_orders.add(tuple(c["order"]))
    finally:
        SCK.time = real_time
    out["scenes"] = len(scenes)
    out["orders"] = len(seen_orders)
    H(("distinct_orders", min(len(seen_orders), 20)))

    # ---------------------------------------------------------------- (C2) the trace through the checker model
    if calls:
        optbits = "".join("1" if r.optional else "0" for r in allreqs)
        bits = lambda bs: "".join("x" if b == "x" else "1" if b else "0" for b in bs) or "-"

        def outcome(c):
            o = ",".join(str(i) for i in c["order"]) or "-"
            if c["res"] is None:
                return o + "=A"
            if not c["order"]:
                return o + "=R?"
            # a RejectionException raised by a requirement and returned by checkRequirements: `E`
            return o + ("=E" if c["exc"] else "=R") + str(c["order"][-1])
        if weighted:
            given = not variant.startswith("pow2")
            parts = [f"C02 wrun {B} {'g' if given else 'm'} {optbits}"]
            popped = 0
            for c in calls:
                durs = ",".join(frs(d) for d in c["durs"]) or "-"
                seg = f"| {bits(c['act'])} {bits(c['fals'])} {durs}"
                if given:
                    seg += " " + ",".join(("inf" if math.isinf(a) else frs(a)) + ":" + frs(b) for a, b in c["costs"])
                parts.append(seg)
                if c["res"] is None and any(a and o and i not in c["order"] for i, (a, o) in enumerate(zip(c["act"], (r.optional for r in allreqs)))):
                    popped += 1
            H(("accepted_with_optional_skipped", popped))
            sums = " ".join(f"{checker.bufferSums[r][0]}:{frs(checker.bufferSums[r][1])}" for r in allreqs)
            out["lines"].append(" ".join(parts))
            out["expect"].append(("wrun", " ".join(outcome(c) for c in calls) + " | " + sums, variant))
        else:
            icc = "1" if checker.initialCollisionCheck else "0"
            bl = "".join("1" if isinstance(r, BlanketCollisionRequirement) else "0" for r in allreqs)
            it = "".join("1" if isinstance(r, IntersectionRequirement) else "0" for r in allreqs)
            parts = [f"C02 basic {icc} {optbits} {bl} {it}"] + [f"| {bits(c['act'])} {bits(c['fals'])}" for c in calls]
            sel = ",".join(str(pos[id(r)]) for r in creqs) or "-"
            out["lines"].append(" ".join(parts))
            out["expect"].append(("basic", f"sel:{sel} " + " ".join(outcome(c) for c in calls), variant))
    for c in calls:
        H(("call", "accept" if c["res"] is None else ("reject-by-exception:" if c["exc"] else "reject:")
           + type(allreqs[c["order"][-1]]).__name__ if c["order"] else "reject"))

    # ---------------------------------------------------------------- (S) every accepted scene, re-verified
    static_occ = [o for o in sc.objects if needsSampling(o.occluding) or o.occluding]
    for si, scene, acc in scenes:
        sample = scene.sample
        # what is observed is the Scene (its `objects`), which must be the sample the checker accepted
        same = len(scene.objects) == len(sc.objects) and all(scene.objects[k] is sample[o] for k, o in enumerate(sc.objects))
        if not same:
            out["tie"].append(f"scene {si}: Scene.objects are not the objects of Scene.sample")
        if acc is None or acc.get("sid") != id(sample):
            out["tie"].append(f"scene {si}: the sample the scene was built from is not the last sample the checker accepted")
        if acc is not None and acc["res"] is not None:
            out["viol"].append({"key": "scene-from-rejected-sample", "scene": si,
                                "what": f"scene {si} was built although the last check returned a rejection ({acc['res']})"})
        sobjs = {id(o): (scene.objects[k] if same else sample[o]) for k, o in enumerate(sc.objects)}
        byname = {}
        prog_objs = [o for o in insts if isinstance(o, Object)]
        if len(prog_objs) != len(prog["names"]) or {id(o) for o in prog_objs} != {id(o) for o in sc.objects}:
            out["tie"].append("Scenario.objects are not the objects the program creates")
        for nm, o in zip(prog["names"], prog_objs):
            byname[nm] = sobjs.get(id(o), sample[o])
        # user requirements, evaluated by the generator's own Python predicate
        for rq in prog["reqs"]:
            r = user_by_line.get(rq["line"])
            hard = rq["prob"] == 1
            if r is None:
                # the requirement never reached the checker: a hard one must hold all the same
                H(("user_req", "unmatched-line"))
                out["tie"].append(f"the requirement on line {rq['line']} is missing from Scenario.userRequirements")
                active = hard
            else:
                active = acc["act"][pos[id(r)]] if acc else True
            if active or hard:
                try:
                    holds = bool(eval(rq["py"], {"o": byname, "abs": abs}))
                except Exception as e:
                    H(("user_req", "predicate-error:" + type(e).__name__))
                    continue
                H(("user_req", ("hard" if hard else "soft-selected") + (":holds" if holds else ":VIOLATED")))
                if not holds:
                    out["viol"].append({"key": "user-requirement:" + ("hard" if hard else "soft"), "scene": si,
                                        "what": f"scene {si} violates `{rq['py']}` (line {rq['line']}, prob {rq['prob']}"
                                                + ("" if active else ", requirement was not even selected") + ")"})
                if hard and not active and r is not None:
                    H(("user_req", "hard-not-selected"))
                    # not by itself a scene violating the property: reported as a broken tie, the search goes on
                    out["tie"].append(f"scene {si}: the hard requirement on line {rq['line']} was not selected")
            else:
                H(("user_req", "soft-not-selected"))
        # geometry
        S = Scaler()
        meshes = {}
        convex = {}
        for o in sc.objects:
            so = sobjs[id(o)]
            m = so.occupiedSpace.mesh
            meshes[id(o)] = (S.add(numpy.asarray(m.vertices).reshape(-1)), [tuple(int(i) for i in f) for f in m.faces])
            convex[id(o)] = bool(so.occupiedSpace.isConvex)
        queries = []   # (kind, builder) resolved after scaling
        # overlap
        for a in range(len(sc.objects)):
            for b in range(a + 1, len(sc.objects)):
                oa, ob = sc.objects[a], sc.objects[b]
                sa, sb = sobjs[id(oa)], sobjs[id(ob)]
                if sa.allowCollisions or sb.allowCollisions:
                    H(("pair", "collisions-allowed"))
                    continue
                if not (convex[id(oa)] and convex[id(ob)]):
                    # separating axes can still certify `separated` (of the convex hulls); an overlap is certified by
                    # a vertex of one strictly inside the closed mesh of the other
                    queries.append(("ncv", (id(oa), id(ob)), f"objects {a} and {b}"))
                    continue
                queries.append(("sat", (id(oa), id(ob)), f"objects {a} and {b}"))
        # containment
        conts = {}
        for k, o in enumerate(sc.objects):
            cont = sc.containerOfObject(o)
            if needsSampling(cont):
                cont = sample[cont]
            if isinstance(cont, AllRegion):
                H(("container", "everywhere"))
                continue
            if isinstance(cont, PolygonalFootprintRegion) and len(cont.polygons.geoms) == 1 and not list(cont.polygons.geoms[0].interiors):
                ring = list(cont.polygons.geoms[0].exterior.coords)[:-1]
                conts[id(o)] = ("poly", S.add([c for p in ring for c in p[:2]]), type(cont).__name__)
                queries.append(("cpoly", id(o), f"object {k}"))
            elif isinstance(cont, MeshVolumeRegion) and cont.isConvex:
                cm = cont.mesh
                conts[id(o)] = ("mesh", S.add(numpy.asarray(cm.vertices).reshape(-1)), [tuple(int(i) for i in f) for f in cm.faces])
                queries.append(("cmesh", id(o), f"object {k}"))
            else:
                H(("container", "unsupported:" + type(cont).__name__))
        # visibility: the requirements the property demands, with occluder lists computed here (not read from the code)
        vis = []
        for x in insts:
            for attr, must in (("_observingEntity", True), ("_nonObservingEntity", False)):
                src = getattr(x, attr, None)
                if src is not None:
                    occ = [o for o in static_occ if o is not src and o is not x]
                    vis.append((src, x, occ, must))
        for o in sc.objects:
            if o.requireVisible and o is not sc.egoObject and sc.egoObject is not None:
                vis.append((sc.egoObject, o, [p for p in sc.objects if p is not sc.egoObject and p is not o], True))
        visq = []
        for src, tgt, occ, must in vis:
            ssrc, stgt = sample[src], sample[tgt]
            if isinstance(ssrc, Object):
                eye = ssrc.position.offsetLocally(ssrc.orientation, ssrc.cameraOffset)
                full = tuple(ssrc.viewAngles) == (math.tau, math.pi)
            elif isinstance(ssrc, OrientedPoint):
                eye, full = ssrc.position, tuple(ssrc.viewAngles) == (math.tau, math.pi)
            else:
                eye, full = ssrc.position, True
            occs = [o for o in occ if sample[o].occluding and convex.get(id(o), False)]
            all_convex = all(convex.get(id(o), False) for o in occ if sample[o].occluding)
            h_eye = S.add(list(eye))
            h_c = S.add(list(stgt.position))
            is_obj = isinstance(stgt, Object)
            contains_centre = bool(stgt.shape.containsCenter) if is_obj else True
            visq.append((h_eye, h_c, id(tgt) if is_obj else None, [id(o) for o in occs], must, full and all_convex and contains_centre,
                         float(ssrc.visibleDistance), f"{type(ssrc).__name__} {idx[id(src)]} -> {type(stgt).__name__} {idx[id(tgt)]}"))
        S.finish()
        M = S.margin
        im = {}
        for k, (h, faces) in meshes.items():
            flat = S.ints(h)
            im[k] = ([tuple(flat[i:i + 3]) for i in range(0, len(flat), 3)], faces)

        def emit(kind, line, py, subject, on_bad, bad):
            far = py == "sep0"
            py = "sep" if far else py
            # bounding boxes apart: only every 8th such query is also put to the Lean oracle (volume)
            if not far or len(out["lines"]) % 8 == 0:
                out["lines"].append(line)
                out["expect"].append(("oracle:" + kind, py, None))
            H((kind, py + (":aabb" if far else "")))
            if py == bad:
                out["viol"].append({"key": on_bad, "scene": si, "what": f"scene {si}: {subject}", "line": line})
        scene_sig = []
        for kind, key, subject in queries:
            if kind == "sat":
                A, Bm = im[key[0]], im[key[1]]
                py = py_sat(M, A, Bm)
                emit("sat", f"C02 sat {M} {s_mesh(A)} {s_mesh(Bm)}", py, subject + " overlap in volume although neither allows collisions",
                     "overlap" + (":2D" if prog["mode2D"] else ":3D"), "pen")
                scene_sig.append(py[:3])
            elif kind == "ncv":
                A, Bm = im[key[0]], im[key[1]]
                py = py_sat(M, A, Bm)
                if py in ("sep0", "sep"):
                    emit("sat", f"C02 sat {M} {s_mesh(A)} {s_mesh(Bm)}", py, subject, "overlap:nonconvex", "-")
                    H(("pair", "non-convex:separated"))
                    scene_sig.append("sep")
                else:
                    verdicts = []
                    for X, Y, who in ((A, Bm, "first inside second"), (Bm, A, "second inside first")):
                        pv = py_pim(M, Y, X[0])
                        verdicts.append(pv)
                        emit("pim", f"C02 pim {M} {s_mesh(Y)} {s_pts(X[0])}", pv,
                             subject + f" overlap in volume (a vertex of the {who.split()[0]} lies strictly inside the solid "
                             f"of the {who.split()[2]}; at least one of them is not convex) although neither allows collisions",
                             "overlap:nonconvex", "in")
                    v = "inside" if "in" in verdicts else "undecided"
                    H(("pair", "non-convex:" + v))
                    scene_sig.append("ncv-" + v[:3])
            elif kind == "cpoly":
                _, h, cname = conts[key]
                flat = S.ints(h)
                ring = [tuple(flat[i:i + 2]) for i in range(0, len(flat), 2)]
                if ring_area2(ring) < 0:
                    ring.reverse()
                py = py_cpoly(M, ring, im[key][0])
                emit("cpoly", f"C02 cpoly {M} {';'.join(f'{x},{y}' for x, y in ring)} {s_pts(im[key][0])}", py,
                     subject + f" is not inside its container ({cname})", "containment:footprint", "out")
                scene_sig.append(py)
            else:
                _, h, faces = conts[key]
                flat = S.ints(h)
                cm = ([tuple(flat[i:i + 3]) for i in range(0, len(flat), 3)], faces)
                py = py_halfspaces(M, mesh_planes(cm), im[key][0])
                emit("cmesh", f"C02 cmesh {M} {s_mesh(cm)} {s_pts(im[key][0])}", py,
                     subject + " is not inside its container (convex mesh region)", "containment:mesh", "out")
                scene_sig.append(py)
        for h_eye, h_c, tk, occ_ids, must, clear_ok, vd, subject in visq:
            eye, centre = tuple(S.ints(h_eye)), tuple(S.ints(h_c))
            targets = im[tk][0] if tk is not None else [centre]
            occm = [im[k] for k in occ_ids]
            py = py_los(M, eye, centre, targets, occm)
            line = f"C02 los {M} {s_pts([eye])} {s_pts([centre])} {s_pts(targets)}" + "".join(" " + s_mesh(m) for m in occm)
            out["lines"].append(line)
            out["expect"].append(("oracle:los", py, None))
            d2 = py_dist2(eye, targets)
            out["lines"].append(f"C02 dist2 {s_pts([eye])} {s_pts(targets)}")
            out["expect"].append(("oracle:dist2", str(d2), None))
            vdi = int(Fraction(vd) * S.scale)
            too_far = d2 > (vdi + M) ** 2
            dc2 = sum((a - b) ** 2 for a, b in zip(eye, centre))
            near = dc2 < (vdi * 9 // 10) ** 2
            verdict = "must-see:" if must else "must-not-see:"
            if must:
                v = "blocked" if py == "blocked" else "too-far" if too_far else "clear" if (py == "clear" and near) else "undecided"
                if v in ("blocked", "too-far"):
                    out["viol"].append({"key": "visibility:" + v, "scene": si, "line": line,
                                        "what": f"scene {si}: {subject} must be visible but every sight line is {v}"})
            else:
                v = "clear" if (py == "clear" and near and clear_ok) else "blocked" if py == "blocked" else "too-far" if too_far else "undecided"
                if v == "clear":
                    out["viol"].append({"key": "nonvisibility:clear", "scene": si, "line": line,
                                        "what": f"scene {si}: {subject} must not be visible but its centre is in plain sight"})
            H(("visibility", verdict + v))
            scene_sig.append(v)
        out["cases"].append((prog["code"], si, tuple(scene_sig), len(sc.objects) >= 2 or bool(conts)))
    out["secs"] = round(time.time() - t_start, 2)
    out["ncalls"] = len(calls)
    return out


# =========================================================================== orchestration
def make_tasks(ctx):
    rng = ctx.rng
    nprog = ctx.budget(32, 600)
    nscenes = ctx.budget(16, 50)
    maxcalls = ctx.budget(500, 2500)   # deterministic cap on checker calls per program (keeps the run time bounded)
    tasks = []
    progs = list(CORPUS)
    while len(progs) < nprog:
        progs.append(gen_program(rng))
    for i, p in enumerate(progs):
        variant = rng.choice(["default", "default", "pow2:8", "pow2:16", "pow2:4", "basic:1", "basic:0"])
        if p["flavour"] in ("nested", "nonconvex") and rng.random() < 0.5:
            # a box strictly inside another one is invisible to the blanket surface check BasicChecker(True) keeps
            variant = "basic:1"
        if p["flavour"].startswith("corpus"):
            variant = p.get("variant") or ["default", "pow2:8", "default"][i % 3]
        heavy = (p["flavour"].startswith("visibility") or p["flavour"].startswith("corpus-occ") or p["flavour"].startswith("corpus-nonvis")
                 or p["flavour"].startswith("corpus-random-occ"))
        tasks.append({"id": i, "prog": p, "seed": rng.getrandbits(31), "variant": variant,
                      "nscenes": max(5, nscenes // 3) if heavy else nscenes, "maxit": 300 if heavy else 600,
                      "maxcalls": maxcalls // 3 if heavy else maxcalls})
    return tasks


def run_tasks(ctx, tasks):
    nproc = min(ctx.budget(8, 14), os.cpu_count() or 4, len(tasks))
    if os.environ.get("VERIF_C02_PROCS", "").isdigit():   # development runs on a shared machine
        nproc = max(1, min(nproc, int(os.environ["VERIF_C02_PROCS"])))
    mp = multiprocessing.get_context("fork")
    deadline = ctx.budget(420, 2400)   # generous: the machine may be shared; the deterministic per-program caps bound the work
    import scenic  # noqa: imported before forking so that the workers do not each pay for the import
    results = []
    known = load_findings().get(ctx.prop, {})
    # after a broken proof obligation / correspondence this run is a search for one failing input: stop at the first hit
    # (also when a source fingerprint changed or a translator template no longer matches: the run is then a search too)
    stop_at_first = bool(ctx.brokens) or bool(ctx.escalated)
    with mp.Pool(nproc, maxtasksperchild=8) as pool:
        it = pool.imap_unordered(run_program, tasks, chunksize=1)
        t0 = time.time()
        for _ in range(len(tasks)):
            try:
                results.append(it.next(timeout=max(5, deadline - (time.time() - t0))))
                if stop_at_first and any(v["key"] not in known for v in results[-1].get("viol", [])):
                    ctx.notes.append(f"failing-input search stopped at the first hit ({len(results)} of {len(tasks)} programs run)")
                    pool.terminate()
                    break
            except multiprocessing.TimeoutError:
                ctx.notes.append(f"sampling stopped at the time budget after {len(results)} of {len(tasks)} programs")
                pool.terminate()
                break
    results.sort(key=lambda r: r.get("id", -1))
    return results


def polarity_lines():
    """(C3) falsifiedByInner of each class on stub geometry vs the model"""
    return ["C02 fals I 0 0 1", "C02 fals I 0 0 0", "C02 fals I 1 0 1", "C02 fals I 0 1 1", "C02 fals I 1 1 1",
            "C02 fals C 1", "C02 fals C 0", "C02 fals V 1", "C02 fals V 0", "C02 fals N 1", "C02 fals N 0",
            "C02 fals U 1", "C02 fals U 0"]


def polarity_real():
    import rv_ltl
    import scenic  # noqa
    from scenic.core import requirements as R

    class Obj:
        def __init__(self, allow=False, inter=False, see=False):
            self.allowCollisions, self._i, self._s, self.occluding = allow, inter, see, True

        def intersects(self, other):
            return self._i

        def canSee(self, other, occludingObjects=()):
            return self._s

    class Cont:
        def __init__(self, v):
            self.v = v

        def containsObject(self, o):
            return self.v
    class RandomLike:
        """what a property of an *unsampled* object looks like when it is random: no truth value"""

        def __bool__(self):
            raise TypeError("truth value of a random (unsampled) property")

    class Unsampled:
        """key of the sample dict: the object as the scenario holds it; its own properties are random"""

        def __init__(self, tag):
            self.tag = tag
            self.allowCollisions = self.occluding = self.requireVisible = RandomLike()

        def intersects(self, other):
            raise TypeError("geometry of an unsampled object")
        canSee = containsObject = intersects

    def pol(f):
        # an error of the code under test is an answer that differs from the model's, not a failure of the harness
        try:
            return "1" if f() else "0"
        except Exception as e:
            return "E:" + type(e).__name__
    res = []
    kA, kB, kO, kC, kS, kT = (Unsampled(t) for t in "ABOCST")
    for a, b, x in ((0, 0, 1), (0, 0, 0), (1, 0, 1), (0, 1, 1), (1, 1, 1)):
        oa, ob = Obj(bool(a), bool(x)), Obj(bool(b), bool(x))
        res.append(pol(lambda: R.IntersectionRequirement(kA, kB).falsifiedByInner({kA: oa, kB: ob})))
    for x in (1, 0):
        res.append(pol(lambda: R.ContainmentRequirement(kO, kC).falsifiedByInner({kO: Obj(), kC: Cont(bool(x))})))
    for cls in (R.VisibilityRequirement, R.NonVisibilityRequirement):
        for x in (1, 0):
            res.append(pol(lambda: cls(kS, kT, ()).falsifiedByInner({kS: Obj(see=bool(x)), kT: Obj()})))

    class PR:
        ty = R.RequirementType.require
        line, name, prob, recConfig = 1, None, 1, None

    class Prop:
        def create_monitor(self):
            return None
    for x in (1, 0):
        val = rv_ltl.B4.FALSE if x else rv_ltl.B4.TRUE
        res.append(pol(lambda: R.CompiledRequirement(PR(), lambda s, m, _v=val: _v, (), Prop()).falsifiedByInner({})))
    return res


def activation_check(ctx):
    """(C) soft-requirement activation: model vs the real `_generateInner` with `random.random` scripted"""
    import scenic
    sc = scenic.scenarioFromString("ego = new Object\nrequire[0.5] ego.position.x >= 0\nrequire ego.position.y >= 0\n")
    import scenic.core.scenarios as SC
    lines, real = [], []
    for u in (0.0, 0.25, 0.5, 0.75, 0.999999):
        class R:
            def __getattr__(self, k):
                return getattr(random, k)

            def random(self):
                return u
        old = SC.random
        SC.random = R()
        try:
            sc.generate(maxIterations=5)
        except Exception as e:   # only the `active` flags set before the rejection loop matter here
            ctx.hist("activation", "generate-raised:" + type(e).__name__)
        finally:
            SC.random = old
        for r in sc.userRequirements:
            lines.append(f"C02 activates {frs(u)} {frs(r.prob)}")
            real.append("1" if r.active else "0")
            ctx.case(("activation", u, r.prob))
    return lines, real


def run(ctx):
    ctx.rule = ("cases = accepted scenes of generated Scenic programs (2-8 boxes with random sizes, yaw or full 3D poses, "
                "random / fixed collision flags, rectangular / circular / polygonal / box workspaces and per-object containers, "
                "hard and soft user predicates, observers with walls; 2D and 3D mode) sampled by the real Scenario.generate "
                "under the default weighted checker (bufferSize 100), power-of-two buffers and the basic checker, with "
                "time.perf_counter replaced by a seeded pseudo-clock that keeps changing the evaluation order; "
                "a case = (program, scene index, oracle verdicts); non-trivial = at least two objects or a container; "
                "plus one case per checker trace / default-requirement list replayed through the Lean model")
    ctx.assumptions += [
        "the truth of objA.intersects(objB), container.containsObject(obj), source.canSee(target) on general meshes is the "
        "subject of C04/C17; here it is an abstract predicate in the theorems and is re-verified on every accepted scene by an "
        "exact oracle restricted to convex meshes (boxes in any pose), convex containers and sight lines, with a margin of 2^-20",
        "separating-axis completeness for convex polytopes (face normals + edge cross products) is assumed for the verdict "
        "'penetrating'; the verdict 'separated' is certified by a proved theorem",
        "a constant property of an object is sampled as itself (World.consistent)",
        "rv_ltl / the compiled closure of a user requirement is opaque: user requirements are re-evaluated on the accepted scene "
        "by the generator's own Python predicate",
    ]
    ctx.trusted_base += ["tools/translate/checkercfg.py, tools/translate/defaultreqs.py (template extraction)",
                         "tools/props/c02.py (trace recording, exact integer oracle in Python, comparison with the Lean driver)"]
    ctx.fingerprint(FINGERPRINTS)
    from translate import checkercfg, defaultreqs
    for name, mod in (("CheckerCfg", checkercfg), ("DefaultReqsCfg", defaultreqs)):
        data, errors = mod.extract_parts()
        # parts that were not recognised carry the reference values (never stale data of an earlier run)
        ctx.gen(name, mod.to_lean(data))
        for e in errors:
            ctx.escalated.append(f"translator tie lost ({name}): {e}")
            ctx.notes.append(f"translator tie lost for {name}: {e}; that part of the model is tied by the correspondence run at thorough budget")
    t_pr = time.time()
    pr = ctx.prove(THEOREMS, side_conditions=SIDE)
    ctx.extra["prove_secs"] = round(time.time() - t_pr, 1)
    if ctx.tier == "thorough" and pr.build_ok:
        ctx.leanchecker(["ScenicModel.Props.C02", "ScenicModel.Props.C02Checker", "ScenicModel.Props.C02Defaults",
                         "ScenicModel.Props.C02Metrics", "ScenicModel.Props.C02Oracle"])
    driver_ok = pr.build_ok
    if not driver_ok:
        # the theorems no longer build (e.g. a side condition on regenerated data fails); the driver may still build
        rc, _ = ctx.lake(["build", "drv_c02"])
        driver_ok = rc == 0
    found = False
    # ---- (C3) polarities and activation
    if driver_ok:
        lines = polarity_lines()
        real = polarity_real()
        al, ar = activation_check(ctx)
        lean = ctx.driver(lines + al)
        for ln, a, b in zip(lines + al, lean, real + ar):
            ctx.case(ln)
            if a != b:
                ctx.broken("correspondence", "falsifiedByInner / activation model vs requirements.py, scenarios.py", f"{ln}: lean={a} python={b}")
    # ---- the sampler
    tasks = make_tasks(ctx)
    results = run_tasks(ctx, tasks)
    fatal = [r for r in results if "fatal" in r]
    if fatal and len(fatal) > len(results) // 2:
        raise Infra("harness failure in workers: " + fatal[0]["fatal"] + "\n" + fatal[0].get("tb", ""))
    for r in fatal:
        ctx.notes.append(f"worker failure on program {r.get('task_id')}: {r['fatal']}")
    lines, expect, owner = [], [], []
    nscenes = 0
    by_id = {t["id"]: t for t in tasks}
    for r in results:
        if "fatal" in r:
            continue
        for name, bucket in r["hist"]:
            ctx.hist(name, bucket)
        nscenes += r["scenes"]
        for case in r["cases"]:
            ctx.case(case[:3], nontrivial=case[3])
        for ln, ex in zip(r["lines"], r["expect"]):
            lines.append(ln)
            expect.append(ex)
            owner.append(r["id"])
        for msg in r.get("tie", [])[:3]:
            ctx.broken("correspondence", "Scenario / Scene glue vs the program", f"program {r['id']}: {msg}")
        for v in r["viol"]:
            t = by_id[r["id"]]
            rep = {"kind": "scene", "task": t, "scene": v.get("scene"), "what": v["what"], "line": v.get("line")}
            if ctx.violation(v["key"], v["what"] + f" [program {r['id']}, checker {t['variant']}]", rep):
                found = True
    ctx.extra["worker_secs"] = sorted(((r.get("secs", 0), r.get("ncalls", 0), r.get("flavour"), r["id"]) for r in results if "fatal" not in r), reverse=True)[:8]
    ctx.extra["programs"] = len(results)
    ctx.extra["accepted_scenes"] = nscenes
    if nscenes == 0:
        raise Infra("no scene was generated at all (harness problem)")
    if driver_ok and lines:
        t_dr = time.time()
        lean = ctx.driver(lines, timeout=ctx.budget(600, 2400))
        ctx.extra["driver_secs"] = round(time.time() - t_dr, 1)
        ctx.extra["driver_lines"] = len(lines)
        ctx.extra["driver_bytes"] = sum(len(x) for x in lines)
        bad = 0
        for ln, a, (kind, b, variant), pid in zip(lines, lean, expect, owner):
            if not kind.startswith("oracle"):
                ctx.case((kind, ln[:4000]))
            ctx.hist("correspondence", kind + (":agree" if a == b else ":DIFFER"))
            if a != b:
                bad += 1
                if bad <= 6:
                    k = next((i for i in range(min(len(a), len(b))) if a[i] != b[i]), min(len(a), len(b)))
                    what = {"defaults": "DefaultReqs model vs generateDefaultRequirements",
                            "wrun": "Checker model vs WeightedAcceptanceChecker (trace)",
                            "basic": "Checker model vs BasicChecker (trace)"}.get(kind, "Lean oracle vs Python oracle (" + kind + ")")
                    ctx.broken("correspondence", what,
                               f"program {pid} ({variant}): first difference at char {k}: lean=…{a[max(0, k - 60):k + 60]}… python=…{b[max(0, k - 60):k + 60]}…")
                    ctx.write_replay(f"trace_{pid}_{kind.replace(':', '_')}", {"line": ln, "lean": a, "python": b, "task": by_id[pid]})
    ctx.resolve_brokens(found)


def replay(ctx, path):
    body = json.load(open(path))
    rep = body.get("replay", body)
    if rep.get("kind") == "scene":
        task = rep["task"]
        print("program:\n" + task["prog"]["code"])
        print(f"checker variant {task['variant']}, seed {task['seed']}; re-running the sampler …")
        r = run_program(task)
        if "fatal" in r:
            print("harness failure:", r["fatal"])
            return 2
        for v in r["viol"]:
            print("VIOLATION:", v["key"], "-", v["what"])
        if not r["viol"]:
            print("no violation reproduced (scenes:", r["scenes"], ")")
        if rep.get("line"):
            try:
                print("Lean oracle on the recorded query:", ctx.driver([rep["line"]])[0])
            except Exception as e:
                print("driver not available:", e)
        return 1 if r["viol"] else 0
    print(json.dumps(rep, indent=1)[:4000])
    return 0
