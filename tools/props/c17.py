"""C17 — visibility respects the view volume and occlusion.

Proof:  lean/ScenicModel/Props/C17*.lean — theorems about the executable model
        lean/ScenicModel/Model/Visibility.lean, instantiated on the configuration regenerated from
        /repo by translate/visibility.py (Gen/Visibility.lean; side conditions re-decided every run).
Tie:    (T) translate/visibility.py (symbolic reading of the point branch, flags of the object branch,
            the viewer wrappers, the visible regions' diameters, the 2D compatibility mode, the operator / requirement plumbing);
        (C) Lean driver vs the real `canSee` for vector / Point / OrientedPoint targets and sets of box
            occluders (exact rationals, decided only off an explicit relative margin), and vs
            `visibleRegion.containsPoint`;
        (S) direct oracles on the real code: reference predicate for points, the two one-sided conditions
            for objects (wholly outside => False, substantial part inside and unoccluded => True), hidden
            behind a wall => False, monotonicity under added occluders, invariance under a common rigid
            motion, and whole programs using `can see` / `visible from` / `requireVisible`.
"""
import json
import math
import random
import sys
import time
from fractions import Fraction as F

from vlib.ctx import Infra, TemplateMismatch

THEOREMS = [
    # linear algebra / ray-box geometry
    "Scenic.Vis.Mat3.ofQuat_isOrtho",
    "Scenic.Vis.Mat3.IsOrtho.mul",
    "Scenic.Vis.slab_hit",
    "Scenic.Vis.Box.hitParams_sound",
    "Scenic.Vis.Box.hitParams_complete",
    "Scenic.Vis.Box.distSq_le",
    # the point predicate (reference configuration)
    "Scenic.Vis.point_visible_iff_in_view_volume",
    "Scenic.Vis.outside_never_visible",
    "Scenic.Vis.occluders_monotone",
    "Scenic.Vis.add_occluder_antitone",
    "Scenic.Vis.filter_irrelevant",
    "Scenic.Vis.occlusion_sound",
    "Scenic.Vis.occlusion_complete",
    "Scenic.Vis.blocked_never_visible",
    "Scenic.Vis.point_visible_iff_clear",
    "Scenic.Vis.rigid_invariance",
    "Scenic.Vis.rigid_invariance_object_viewer",
    # the object branch
    "Scenic.Vis.ray_point_in_view_volume",
    "Scenic.Vis.object_occluders_monotone",
    "Scenic.Vis.object_outside_never_visible",
    "Scenic.Vis.object_hidden_never_visible",
    # certificates used by the object oracle
    "Scenic.Vis.outsideCert_sound",
    "Scenic.Vis.object_outside_cert",
    "Scenic.Vis.insideCert_sound",
    "Scenic.Vis.offBand_lerp",
    "Scenic.Vis.offBand_of_corners",
    "Scenic.Vis.segMeets_lerp",
    "Scenic.Vis.segMeets_of_corners",
    "Scenic.Vis.object_hidden_behind_box",
    # the polynomial comparisons are the angular comparisons of the code
    "Scenic.Vis.geMulSqrt_iff_real",
    "Scenic.Vis.azimuth_window_iff",
    "Scenic.Vis.altitude_window_iff",
    "Scenic.Vis.inViewVolume_iff_angles",
    "Scenic.Vis.grid_ray_in_windows",
    # round 4: the angular pruning of the object branch and the ray-grid end points
    "Scenic.Vis.Prune.prune_front_sound",
    "Scenic.Vis.Prune.prune_behind_sound",
    "Scenic.Vis.Prune.prune_both_sound",
    "Scenic.Vis.Prune.prune_windows_within_view",
    "Scenic.Vis.Prune.normAz_range",
    "Scenic.Vis.Prune.linspace_in_window",
    # visible regions and the 2D compatibility mode
    "Scenic.Vis.inWindows_full",
    "Scenic.Vis.inViewVolume_full_iff",
    "Scenic.Vis.point_viewer_sees_iff",
    "Scenic.Vis.point_region_iff_visible",
    "Scenic.Vis.halved_point_region_misses_visible_point",
    "Scenic.Vis.inViewVolume_in_viewRegionBound",
    "Scenic.Vis.viewRegionBound_full_iff",
    "Scenic.Vis.Mat3.yaw_isOrtho",
    "Scenic.Vis.sector2D_iff_inViewVolume",
    "Scenic.Vis.canSee2D_iff_pointVisible",
    # instantiated on the configuration regenerated from /repo
    "Scenic.C17.object_viewer",
    "Scenic.C17.oriented_viewer",
    "Scenic.C17.point_viewer",
    "Scenic.C17.point_viewer_sees_iff",
    "Scenic.C17.point_region_iff_visible",
    "Scenic.C17.inViewVolume_in_viewRegionBound",
    "Scenic.C17.viewRegionBound_full_iff",
    "Scenic.C17.canSee2D_iff_pointVisible",
    "Scenic.C17.point_visible_iff_in_view_volume",
    "Scenic.C17.outside_never_visible",
    "Scenic.C17.blocked_never_visible",
    "Scenic.C17.point_visible_iff_clear",
    "Scenic.C17.occluders_monotone",
    "Scenic.C17.rigid_invariance",
    "Scenic.C17.rigid_invariance_object_viewer",
    "Scenic.C17.object_occluders_monotone",
    "Scenic.C17.object_outside_never_visible",
    "Scenic.C17.object_hidden_never_visible",
    "Scenic.C17.object_hidden_behind_box",
    "Scenic.C17.object_visible_of_centre",
    "Scenic.C17.object_visible_of_centre_in_volume_partial",
    "Scenic.C17.rotate_first_not_rigid_invariant",
    "Scenic.C17.reference_sees_point_ahead",
]
SIDE = ["Scenic.C17.gen_cfg_reference", "Scenic.C17.gen_objcfg_reference", "Scenic.C17.gen_wrapcfg_reference",
        "Scenic.C17.gen_cfg2d_reference"]
LEAN_MODULES = ["ScenicModel.Props.C17", "ScenicModel.Props.C17Prune", "ScenicModel.Model.VisibilityPrune", "ScenicModel.Props.C17Angles", "ScenicModel.Props.C17Flat", "ScenicModel.Props.C17Shadow", "ScenicModel.Props.C17Cert", "ScenicModel.Props.C17Object",
                "ScenicModel.Props.C17Point", "ScenicModel.Props.C17Slab", "ScenicModel.Lemmas.Visibility",
                "ScenicModel.Model.Visibility", "ScenicModel.Gen.Visibility"]

FINGERPRINTS = {
    "visibility.canSee": ("src/scenic/core/visibility.py", "canSee"),
    "Point.canSee": ("src/scenic/core/object_types.py", "Point.canSee"),
    "Point.visibleRegion": ("src/scenic/core/object_types.py", "Point.visibleRegion"),
    "OrientedPoint.canSee": ("src/scenic/core/object_types.py", "OrientedPoint.canSee"),
    "OrientedPoint.visibleRegion": ("src/scenic/core/object_types.py", "OrientedPoint.visibleRegion"),
    "OrientedPoint.__init__": ("src/scenic/core/object_types.py", "OrientedPoint.__init__"),
    "Object.canSee": ("src/scenic/core/object_types.py", "Object.canSee"),
    "Object.visibleRegion": ("src/scenic/core/object_types.py", "Object.visibleRegion"),
    "Point2D.canSee": ("src/scenic/core/object_types.py", "Point2D.canSee"),
    "Point2D._canSee2D": ("src/scenic/core/object_types.py", "Point2D._canSee2D"),
    "Point2D.visibleRegion": ("src/scenic/core/object_types.py", "Point2D.visibleRegion"),
    "OrientedPoint2D.visibleRegion": ("src/scenic/core/object_types.py", "OrientedPoint2D.visibleRegion"),
    "Object2D.visibleRegion": ("src/scenic/core/object_types.py", "Object2D.visibleRegion"),
    "SectorRegion.containsPoint": ("src/scenic/core/regions.py", "SectorRegion.containsPoint"),
    "SectorRegion._makePolygons": ("src/scenic/core/regions.py", "SectorRegion._makePolygons"),
    "CircularRegion.containsPoint": ("src/scenic/core/regions.py", "CircularRegion.containsPoint"),
    "geometry.pointIsInCone": ("src/scenic/core/geometry.py", "pointIsInCone"),
    "geometry.viewAngleToPoint": ("src/scenic/core/geometry.py", "viewAngleToPoint"),
    "geometry.normalizeAngle": ("src/scenic/core/geometry.py", "normalizeAngle"),
    "Vector.rotatedBy": ("src/scenic/core/vectors.py", "Vector.rotatedBy"),
    "Vector.offsetRotated": ("src/scenic/core/vectors.py", "Vector.offsetRotated"),
    "Vector.distanceTo": ("src/scenic/core/vectors.py", "Vector.distanceTo"),
    "Object.distanceTo": ("src/scenic/core/object_types.py", "Object.distanceTo"),
    "utils.cached_method": ("src/scenic/core/utils.py", "cached_method"),
    "Vector.offsetLocally": ("src/scenic/core/vectors.py", "Vector.offsetLocally"),
    "Orientation._inverseRotation": ("src/scenic/core/vectors.py", "Orientation._inverseRotation"),
    "Orientation.getRotation": ("src/scenic/core/vectors.py", "Orientation.getRotation"),
    "ViewRegion": ("src/scenic/core/regions.py", "ViewRegion"),
    "ViewSectionRegion": ("src/scenic/core/regions.py", "ViewSectionRegion"),
    "CylinderSectionRegion": ("src/scenic/core/regions.py", "CylinderSectionRegion"),
    "veneer.CanSee": ("src/scenic/syntax/veneer.py", "CanSee"),
    "VisibilityRequirement": ("src/scenic/core/requirements.py", "VisibilityRequirement"),
    "NonVisibilityRequirement": ("src/scenic/core/requirements.py", "NonVisibilityRequirement"),
}

STAGE = {"force_quick": False}


def B(ctx, quick, thorough):
    """tier budget; during the first stage of an escalated run (see run) the quick budget"""
    return quick if STAGE["force_quick"] else ctx.budget(quick, thorough)


EPS = F(1, 2 ** 20)        # relative margin: a case is "decided" only if the model gives the same answer
                           # with distance, half-angle tangents and box extents scaled by (1 ± EPS)
REGION_EPS = F(1, 32)      # margin for the mesh approximation of ViewRegion (32 azimuth samples, angleCutoff)


# --------------------------------------------------------------------------- exact helpers
def fr(x):
    x = F(x)
    return f"{x.numerator}/{x.denominator}" if x.denominator != 1 else str(x.numerator)


def dy(rng, lo, hi, den=8):
    """dyadic rational in [lo, hi] (exactly representable as a float)"""
    return F(rng.randint(int(lo * den), int(hi * den)), den)


def snap(x, den=64):
    return F(round(x * den), den)


def half_cs(t):
    """(cos, sin) of the half-angle whose quarter-angle tangent is t (None = half-angle pi)"""
    if t is None:
        return F(-1), F(0)
    t = F(t)
    return (1 - t * t) / (1 + t * t), 2 * t / (1 + t * t)


def angle_of(t):
    """the float view angle (= 2 * half-angle = 4 * atan t)"""
    return math.tau if t is None else 4 * math.atan(float(t))


def heading_of(th):
    """the float heading 2 atan(th) (None = pi)"""
    return math.pi if th is None else 2 * math.atan(float(th))


def yaw_q(th):
    """quaternion (w,x,y,z) of the yaw by the heading 2 atan(th)"""
    return (F(0), F(0), F(0), F(1)) if th is None else (F(1), F(0), F(0), F(th))


def qmul(a, b):
    """Hamilton product of quaternions (w, x, y, z)"""
    w1, x1, y1, z1 = a
    w2, x2, y2, z2 = b
    return (w1 * w2 - x1 * x2 - y1 * y2 - z1 * z2, w1 * x2 + x1 * w2 + y1 * z2 - z1 * y2,
            w1 * y2 - x1 * z2 + y1 * w2 + z1 * x2, w1 * z2 + x1 * y2 - y1 * x2 + z1 * w2)


def qmat(q):
    w, x, y, z = (F(c) for c in q)
    n = w * w + x * x + y * y + z * z
    return [[(w * w + x * x - y * y - z * z) / n, 2 * (x * y - z * w) / n, 2 * (x * z + y * w) / n],
            [2 * (x * y + z * w) / n, (w * w - x * x + y * y - z * z) / n, 2 * (y * z - x * w) / n],
            [2 * (x * z - y * w) / n, 2 * (y * z + x * w) / n, (w * w - x * x - y * y + z * z) / n]]


def mapply(M, v):
    return [sum(M[i][j] * v[j] for j in range(3)) for i in range(3)]


def mapplyT(M, v):
    return [sum(M[j][i] * v[j] for j in range(3)) for i in range(3)]


def vadd(a, b):
    return [x + y for x, y in zip(a, b)]


def vsub(a, b):
    return [x - y for x, y in zip(a, b)]


def rand_quat(rng):
    r = rng.random()
    if r < 0.12:
        return (1, 0, 0, 0)
    if r < 0.3:   # yaw only
        return rng.choice([(1, 0, 0, 1), (1, 0, 0, -1), (0, 0, 0, 1), (2, 0, 0, 1), (3, 0, 0, -2), (1, 0, 0, 3), (5, 0, 0, 12)])
    if r < 0.4:   # pitch / roll only
        return rng.choice([(2, 1, 0, 0), (3, -1, 0, 0), (2, 0, 1, 0), (1, 0, -1, 0), (1, 1, 0, 0)])
    while True:
        q = tuple(rng.randint(-4, 4) for _ in range(4))
        if any(q):
            return q


# --------------------------------------------------------------------------- case descriptions
def viewer_tokens(v, var=0):
    """tokens of a viewer for the Lean driver; var = 0 nominal, +1 loose (sees more), -1 tight"""
    s = 1 + var * EPS
    D = F(v["D"]) * s
    t0 = None if v["t0"] is None else F(v["t0"]) * s
    t1 = min(F(1), F(v["t1"]) * s)
    c0, s0 = half_cs(t0)
    c1, s1 = half_cs(t1)
    toks = [v["kind"], fr(D)] + [fr(x) for x in v["p"]] + [fr(x) for x in v["q"]] + [fr(x) for x in v["off"]]
    return toks + [fr(c0), fr(s0), fr(c1), fr(s1)]


def region_viewer_tokens(v, var):
    s = 1 + var * REGION_EPS
    D = F(v["D"]) * s
    t0 = None if v["t0"] is None else F(v["t0"]) * s
    if t0 is not None and var > 0 and t0 > F(20):
        t0 = None
    t1 = min(F(1), F(v["t1"]) * s)
    c0, s0 = half_cs(t0)
    c1, s1 = half_cs(t1)
    toks = [v["kind"], fr(D)] + [fr(x) for x in v["p"]] + [fr(x) for x in v["q"]] + [fr(x) for x in v["off"]]
    return toks + [fr(c0), fr(s0), fr(c1), fr(s1)]


def box_tokens(b, var=0):
    s = 1 + var * EPS
    return [fr(x) for x in b["c"]] + [fr(x) for x in b["q"]] + [fr(F(x) * s) for x in b["h"]]


def jsonable(o):
    if isinstance(o, F):
        return fr(o)
    if isinstance(o, dict):
        return {k: jsonable(v) for k, v in o.items()}
    if isinstance(o, (list, tuple)):
        return [jsonable(x) for x in o]
    return o


def unjson(o):
    if isinstance(o, str) and (o.lstrip("-").replace("/", "").isdigit()):
        return F(o)
    if isinstance(o, dict):
        return {k: (v if k in ("kind", "tkind", "program", "what", "glue", "shape", "mode", "expect") else unjson(v)) for k, v in o.items()}
    if isinstance(o, list):
        return [unjson(x) for x in o]
    return o


# --------------------------------------------------------------------------- real-code wrappers
class Real:
    def __init__(self):
        import numpy
        import scenic  # noqa
        from scipy.spatial.transform import Rotation
        from scenic.core.object_types import Object, Object2D, OrientedPoint, OrientedPoint2D, Point, Point2D
        from scenic.core.shapes import BoxShape, ConeShape, CylinderShape, SpheroidShape
        from scenic.core.vectors import Orientation, Vector
        self.np, self.Rotation = numpy, Rotation
        self.Object, self.OrientedPoint, self.Point = Object, OrientedPoint, Point
        self.Object2D, self.OrientedPoint2D, self.Point2D = Object2D, OrientedPoint2D, Point2D
        self.Orientation, self.Vector = Orientation, Vector
        self.shapes = {"box": BoxShape, "sphere": SpheroidShape, "cyl": CylinderShape, "cone": ConeShape}

    def orient(self, q):
        w, x, y, z = (float(c) for c in q)
        return self.Orientation(self.Rotation.from_quat([x, y, z, w]))

    def vec(self, p):
        return self.Vector(*(float(c) for c in p))

    def viewer(self, v, ray_density=None):
        kw = dict(position=self.vec(v["p"]), visibleDistance=float(v["D"]))
        if ray_density is not None:
            kw["viewRayDensity"] = ray_density
        if v["kind"] == "P":
            return self.Point._with(**kw)
        angles = (angle_of(v["t0"]), angle_of(v["t1"]))
        glue = v.get("glue")
        if glue == "angle":            # the scalar `viewAngle` property: viewAngles defaults to (viewAngle, pi)
            kw["viewAngle"] = angles[0]
        elif glue == "over":           # angles beyond (tau, pi) are truncated by OrientedPoint.__init__
            kw["viewAngles"] = (7.0 if v["t0"] is None else angles[0], 3.5 if v["t1"] == 1 else angles[1])
        else:
            kw["viewAngles"] = angles
        if v["kind"] == "O":
            return self.OrientedPoint._with(parentOrientation=self.orient(v["q"]), **kw)
        return self.Object._with(parentOrientation=self.orient(v["q"]), cameraOffset=self.vec(v["off"]), **kw)

    def box(self, b, **extra):
        """an object whose bounding box is b; its shape is a box unless b names another (inscribed) shape"""
        shape = b.get("shape")
        if shape and shape != "box":
            extra["shape"] = self.shapes[shape]()
        return self.Object._with(position=self.vec(b["c"]), parentOrientation=self.orient(b["q"]),
                                 width=float(2 * F(b["h"][0])), length=float(2 * F(b["h"][1])),
                                 height=float(2 * F(b["h"][2])), **extra)

    # 2D compatibility mode: heading = 2 atan(th) (th rational, None = pi)
    def viewer2d(self, v):
        kw = dict(position=self.vec(v["p"]), visibleDistance=float(v["D"]))
        if v["kind"] == "P":
            return self.Point2D._with(**kw)
        kw.update(parentOrientation=heading_of(v["th"]), viewAngle=angle_of(v["t0"]))
        if v["kind"] == "O":
            return self.OrientedPoint2D._with(**kw)
        return self.Object2D._with(cameraOffset=self.vec(v["off"]), **kw)

    def box2d(self, b, **extra):
        return self.Object2D._with(position=self.vec(b["c"]), parentOrientation=heading_of(b["th"]),
                                   width=float(2 * F(b["h"][0])), length=float(2 * F(b["h"][1])),
                                   height=float(2 * F(b["h"][2])), **extra)

    def target2d(self, tkind, t):
        return self.vec(t) if tkind == "vector" else self.Point2D._with(position=self.vec(t))

    def target(self, tkind, t):
        if tkind == "vector":
            return self.vec(t)
        if tkind == "point":
            return self.Point._with(position=self.vec(t))
        return self.OrientedPoint._with(position=self.vec(t), parentOrientation=self.orient((1, 0, 0, 1)))

    def can_see(self, viewer, target, occ):
        try:
            return bool(viewer.canSee(target, occludingObjects=tuple(occ)))
        except Exception as e:  # any exception is a disagreement with the model
            return "crash:" + type(e).__name__

    def can_see_rec(self, viewer, target, occ):
        """canSee on an object target with the inputs and outputs of the angular pruning of the object branch recorded:
        the array-valued arctan2 / arcsin results (vertex angles), the two np.any results (crossing flags) and the end
        points of the np.linspace calls (the windows in which rays are cast).  numpy is seen by visibility.py through a
        transparent proxy for the duration of the call; nothing in the computation is changed."""
        import scenic.core.visibility as vis
        npm = self.np
        rec = {"az": None, "alt": None, "any": [], "lin": []}

        class Proxy:
            def __getattr__(_, name):
                return getattr(npm, name)

            def arctan2(_, y, x, *a, **k):
                r = npm.arctan2(y, x, *a, **k)
                if getattr(r, "ndim", 0) >= 1 and rec["az"] is None:
                    rec["az"] = [float(t) for t in r]
                return r

            def arcsin(_, x, *a, **k):
                r = npm.arcsin(x, *a, **k)
                if getattr(r, "ndim", 0) >= 1 and rec["alt"] is None:
                    rec["alt"] = [float(t) for t in r]
                return r

            def any(_, x, *a, **k):
                r = npm.any(x, *a, **k)
                rec["any"].append(bool(r))
                return r

            def linspace(_, a, b, *rest, **k):
                ab = (float(a), float(b))
                if not rec["lin"] or rec["lin"][-1] != ab:
                    rec["lin"].append(ab)
                return npm.linspace(a, b, *rest, **k)

        old = vis.np
        vis.np = Proxy()
        try:
            real = self.can_see(viewer, target, occ)
        finally:
            vis.np = old
        rec["va"] = tuple(float(x) for x in viewer.viewAngles)
        return real, rec


# --------------------------------------------------------------------------- generators
def gen_viewer(rng, kinds="POB"):
    kind = rng.choice(kinds)
    D = rng.choice([F(5), F(10), F(20), F(50), F(13, 2), F(30)])
    p = [dy(rng, -40, 40), dy(rng, -40, 40), dy(rng, -10, 10)]
    if rng.random() < 0.08:
        p = [F(0), F(0), F(0)]
    if rng.random() < 0.08:
        p = [F(10), F(0), F(0)]
    q = rand_quat(rng)
    off = [F(0), F(0), F(0)]
    if kind == "B" and rng.random() < 0.6:
        off = [dy(rng, -2, 2), dy(rng, -2, 2), dy(rng, -1, 2)]
    r = rng.random()
    # quarter-angle tangents: t = tan(a/4); a0 in (0, tau], a1 in (0, pi]
    if r < 0.15:
        t0 = None                                   # full circle
    elif r < 0.45:
        t0 = F(rng.randint(1, 12), 32)              # narrow .. < 90 deg
    elif r < 0.65:
        t0 = F(rng.randint(13, 31), 32)             # < 180 deg
    elif r < 0.7:
        t0 = F(1)                                   # exactly 180 deg
    else:
        t0 = F(rng.randint(33, 200), 32)            # > 180 deg (reflex)
    r = rng.random()
    if r < 0.3:
        t1 = F(1)                                   # pi
    elif r < 0.7:
        t1 = F(rng.randint(1, 12), 32)
    else:
        t1 = F(rng.randint(13, 31), 32)
    if kind == "P":
        t0, t1, q, off = None, F(1), (1, 0, 0, 0), [F(0)] * 3
    v = dict(kind=kind, D=D, p=p, q=q, off=off, t0=t0, t1=t1)
    # the glue around the core: the scalar `viewAngle` property, truncation of over-wide angles
    r = rng.random()
    if kind != "P" and t1 == 1 and r < 0.25:
        v["glue"] = "angle"
    elif kind != "P" and (t0 is None or t1 == 1) and r < 0.45:
        v["glue"] = "over"
    return v


def cam_of(v):
    if v["kind"] == "B":
        return vadd(v["p"], mapply(qmat(v["q"]), v["off"]))
    return list(v["p"])


def angle_class(v):
    if v["kind"] == "P" or v["t0"] is None:
        h = "full"
    elif v["t0"] < F(13, 32):
        h = "narrow"
    elif v["t0"] <= 1:
        h = "<=180"
    else:
        h = ">180"
    return h + ("/pi" if v["t1"] == 1 else "/narrow" if v["t1"] < F(13, 32) else "/wide")


def gen_target_point(rng, v):
    """a target in the viewer frame, dense near the boundaries of the view volume, snapped to 1/64"""
    cam = cam_of(v)
    R = qmat(v["q"]) if v["kind"] != "P" else qmat((1, 0, 0, 0))
    a0, a1 = angle_of(v["t0"]) / 2, angle_of(v["t1"]) / 2
    r = rng.random()
    if r < 0.35:      # near the azimuth boundary
        az = rng.choice([-1, 1]) * a0 * rng.choice([0.9, 0.97, 1.03, 1.1, 0.5])
    elif r < 0.5:
        az = rng.uniform(-math.pi, math.pi)
    elif r < 0.6:     # behind
        az = math.pi + rng.uniform(-0.3, 0.3)
    else:
        az = rng.uniform(-a0, a0)
    r = rng.random()
    if r < 0.35:
        alt = rng.choice([-1, 1]) * a1 * rng.choice([0.9, 0.97, 1.03, 1.1, 0.5])
    elif r < 0.5:
        alt = rng.uniform(-math.pi / 2, math.pi / 2)
    else:
        alt = rng.uniform(-a1, a1) * 0.9
    alt = max(-1.55, min(1.55, alt))
    Df = float(v["D"])
    dist = Df * rng.choice([0.05, 0.3, 0.6, 0.9, 0.98, 1.02, 1.2, rng.uniform(0.01, 1.3)])
    loc = [-math.sin(az) * math.cos(alt) * dist, math.cos(az) * math.cos(alt) * dist, math.sin(alt) * dist]
    if rng.random() < 0.03:
        loc = [0.0, 0.0, rng.choice([-1, 1]) * dist]          # straight up / down
    if rng.random() < 0.03:
        loc = [0.0, dist, 0.0]                                # straight ahead
    w = vadd(cam, mapply(R, [F(x) for x in loc]))
    return [snap(x) for x in w]


def gen_box(rng, centre, big=False):
    h = [dy(rng, 1, 12 if big else 6, 4) / 2 for _ in range(3)]
    if rng.random() < 0.3:
        h[rng.randrange(3)] = F(1, 16)          # thin wall
    return dict(c=[snap(F(x), 16) for x in centre], q=rand_quat(rng), h=h)


def gen_occluders(rng, v, t):
    cam = cam_of(v)
    d = vsub(t, cam)
    occ = []
    n = rng.choice([0, 0, 1, 1, 1, 2, 3, 5])
    for _ in range(n):
        r = rng.random()
        f = rng.choice([F(1, 4), F(1, 2), F(3, 4), F(9, 10), F(11, 10), F(3, 2), F(-1, 4)])
        lat = [dy(rng, -3, 3, 4) if rng.random() < 0.6 else F(0) for _ in range(3)]
        if r < 0.7:
            c = vadd(vadd(cam, [f * x for x in d]), lat)
        elif r < 0.8:
            c = vadd(cam, [dy(rng, -1, 1, 4) for _ in range(3)])      # around the camera
        elif r < 0.9:
            c = vadd(t, [dy(rng, -1, 1, 4) for _ in range(3)])        # around the target
        else:
            c = [dy(rng, -50, 50), dy(rng, -50, 50), dy(rng, -10, 10)]
        occ.append(gen_box(rng, c))
    return occ


# --------------------------------------------------------------------------- (C)+(S) points
def lean_point_lines(v, t, occ):
    out = []
    for op in ("pt", "rpt"):
        for var in (0, 1, -1):
            toks = ["C17", op] + viewer_tokens(v, var) + [fr(x) for x in t] + [str(len(occ))]
            for b in occ:
                toks += box_tokens(b, -var)   # loose = smaller occluders
            out.append(" ".join(toks))
    return out


def axis_degenerate(v, t, rel=F(1, 2 ** 60)):
    """the target is (numerically) on the vertical axis of the viewer: the azimuth is then decided by rounding noise
    of the float rotation (exact zeros survive only for the identity rotation)"""
    R = qmat(v["q"]) if v["kind"] != "P" else qmat((1, 0, 0, 0))
    w = mapplyT(R, vsub(t, cam_of(v)))
    h2 = w[0] * w[0] + w[1] * w[1]
    n2 = h2 + w[2] * w[2]
    if n2 == 0:
        return False
    if h2 == 0 and rel <= F(1, 2 ** 60):
        return tuple(v["q"]) != (1, 0, 0, 0) and v["kind"] != "P"
    return h2 < n2 * rel


def decided(answers):
    return answers[0] if answers[0] == answers[1] == answers[2] and answers[0] in ("0", "1") else None


def point_cases(ctx, R, n):
    rng = ctx.rng
    cases = []
    # regression input of the repaired defect b69a50bf: a viewer at (10,0,0) facing west, target 5 m ahead
    for kind in "OB":
        v = dict(kind=kind, D=F(20), p=[F(10), F(0), F(0)], q=(1, 0, 0, 1), off=[F(0)] * 3, t0=F(1, 4), t1=F(1, 4))
        cases.append((v, "vector", [F(5), F(0), F(0)], []))
        cases.append((v, "vector", [F(15), F(0), F(0)], []))
    while len(cases) < n:
        v = gen_viewer(rng)
        for _ in range(rng.choice([1, 2, 4])):
            t = gen_target_point(rng, v)
            occ = gen_occluders(rng, v, t)
            cases.append((v, rng.choice(["vector", "vector", "point", "opoint"]), t, occ))
    return cases[:n]


def run_points(ctx, R, use_model):
    """(C) model (generated configuration) vs real canSee; (S) reference predicate vs real canSee.
    The real viewer object is shared by the queries of one generated viewer, and every query with occluders is
    followed by the same query without them (a result cached under too coarse a key shows up as a disagreement)."""
    cases = point_cases(ctx, R, B(ctx, 1200, 30000))
    lines = []
    for v, tk, t, occ in cases:
        lines += lean_point_lines(v, t, occ) + lean_point_lines(v, t, [])
    lean = ctx.driver(lines) if use_model else None
    found = False
    bad = 0
    undecided = 0
    viewers = {}
    for i, (v, tk, t, occ) in enumerate(cases):
        viewer = viewers.get(id(v))
        if viewer is None:
            viewer = viewers[id(v)] = R.viewer(v)
        target = R.target(tk, t)
        queries = [(occ, R.can_see(viewer, target, [R.box(b) for b in occ]), 12 * i)]
        if occ:
            queries.append(([], R.can_see(viewer, target, []), 12 * i + 6))
        ctx.case(("pt", jsonable(v), tk, jsonable(t), jsonable(occ)), nontrivial=True)
        ctx.hist("viewer_kind", v["kind"])
        ctx.hist("viewer_glue", v.get("glue", "viewAngles"))
        ctx.hist("view_angles", angle_class(v))
        ctx.hist("point_target_kind", tk)
        ctx.hist("occluders", len(occ))
        if lean is None:
            continue
        for q_occ, real, base in queries:
            a = lean[base:base + 6]
            model, ref = decided(a[0:3]), decided(a[3:6])
            if axis_degenerate(v, t):
                model = ref = None
            rep = {"kind": "point", "viewer": jsonable(v), "tkind": tk, "target": jsonable(t), "occluders": jsonable(q_occ),
                   "before": jsonable(occ) if q_occ is not occ else None, "expect": None if ref is None else ref == "1"}
            if isinstance(real, str):
                ctx.hist("point_outcome", real)
                rep["expect"] = "no-crash"
                found |= ctx.violation(f"canSee-point:{real}", f"canSee raised {real} on a point target", rep)
                continue
            if q_occ is occ:
                ctx.hist("point_outcome", ("visible" if real else "hidden") + ("" if ref is not None else ":undecided"))
            if ref is None:
                undecided += q_occ is occ
            elif ref != ("1" if real else "0"):
                kind = "reports-visible" if real else "reports-hidden"
                cause = "with-occluders" if q_occ else ("no-occluders" if q_occ is occ else "no-occluders-after-occluded-query")
                what = (f"{viewer_name(v)} at {[float(x) for x in v['p']]} canSee({tk} {[float(x) for x in t]}, "
                        f"{len(q_occ)} occluders) = {real}, but the target is "
                        f"{'inside' if ref == '1' else 'outside'} the view volume / line of sight "
                        f"{'clear' if ref == '1' else 'blocked or outside'} (exact, margin 2^-20)"
                        + ("" if q_occ is occ else f"; asked right after the same query with {len(occ)} occluders on the same viewer"))
                found |= ctx.violation(f"canSee-point:{kind}:{cause}", what, rep)
            if model is not None and model != ("1" if real else "0"):
                bad += 1
                if bad <= 5:
                    ctx.broken("correspondence", "point model vs visibility.canSee",
                               f"viewer={jsonable(v)} target={jsonable(t)} occluders={len(q_occ)}: lean={model} python={real}")
    ctx.extra["point_cases_undecided"] = undecided
    return found


def viewer_name(v):
    return {"P": "Point", "O": "OrientedPoint", "B": "Object"}[v["kind"]]


# --------------------------------------------------------------------------- (C) visibleRegion.containsPoint
def run_regions(ctx, R):
    """(S) visibleRegion.containsPoint vs membership in the view volume (margin 1/32 for the meshed ViewRegion);
    (C) the model of Point.visibleRegion (generated diameter factor) and the base sphere of ViewRegion vs the real region."""
    rng = ctx.rng
    nview = B(ctx, 40, 600)
    lines, meta = [], []
    for _ in range(nview):
        v = gen_viewer(rng, kinds="OOBBPP")
        try:
            region = R.viewer(v).visibleRegion
        except Exception as e:
            ctx.hist("region_outcome", "build-failed:" + type(e).__name__)
            continue
        for _ in range(B(ctx, 8, 12)):
            t = gen_target_point(rng, v)
            try:
                real = bool(region.containsPoint(R.vec(t)))
            except Exception as e:
                real = "crash:" + type(e).__name__
            for var in (1, -1):
                lines.append(" ".join(["C17", "vol"] + region_viewer_tokens(v, var) + [fr(x) for x in t]))
            for var in (1, -1):
                if v["kind"] == "P":
                    lines.append(" ".join(["C17", "preg", fr(F(v["D"]) * (1 + var * REGION_EPS))] + [fr(x) for x in v["p"]]
                                          + [fr(x) for x in t]))
                else:
                    lines.append(" ".join(["C17", "vbound"] + region_viewer_tokens(v, var) + [fr(x) for x in t]))
            meta.append((v, t, real))
    lean = ctx.driver(lines)
    found = False
    und = 0
    bad = 0
    for i, (v, t, real) in enumerate(meta):
        lo, ti, mlo, mti = lean[4 * i:4 * i + 4]
        ctx.case(("vol", jsonable(v), jsonable(t)))
        rep = {"kind": "region", "viewer": jsonable(v), "target": jsonable(t), "expect": None}
        if isinstance(real, str):
            rep["expect"] = "no-crash"
            found |= ctx.violation(f"visibleRegion:{real}", f"visibleRegion.containsPoint raised {real}", rep)
            continue
        # (C) the region model on the generated wrappers
        if v["kind"] == "P":
            if mlo == mti and mlo != ("1" if real else "0"):
                bad += 1
                if bad <= 3:
                    ctx.broken("correspondence", "Point.visibleRegion model vs the real region",
                               f"viewer={jsonable(v)} target={jsonable(t)}: lean={mlo} python={real}")
        elif real and mlo == "0":
            bad += 1
            if bad <= 3:
                ctx.broken("correspondence", "ViewRegion base sphere model vs the real region",
                           f"viewer={jsonable(v)} target={jsonable(t)}: the region contains a point outside the modelled base sphere")
        if lo != ti or axis_degenerate(v, t, F(1, 1024)):
            und += 1
            ctx.hist("region_outcome", "undecided")
            continue
        ctx.hist("region_outcome", viewer_name(v) + (":inside" if real else ":outside"))
        if lo != ("1" if real else "0"):
            rep["expect"] = lo == "1"
            what = (f"{viewer_name(v)}.visibleRegion.containsPoint({[float(x) for x in t]}) = {real} but the point is "
                    f"{'inside' if lo == '1' else 'outside'} the view volume by a margin of 1/32 (viewer {jsonable(v)})")
            found |= ctx.violation(f"visibleRegion:{viewer_name(v)}:{'contains-outside-point' if real else 'misses-inside-point'}", what, rep)
    ctx.extra["region_cases_undecided"] = und
    return found


# --------------------------------------------------------------------------- (S) objects
def gen_object_scene(rng, v):
    """a box target placed relative to the viewer: ahead, behind, beside, above, straddling a window edge"""
    cam = cam_of(v)
    R = qmat(v["q"]) if v["kind"] != "P" else qmat((1, 0, 0, 0))
    a0, a1 = angle_of(v["t0"]) / 2, angle_of(v["t1"]) / 2
    Df = float(v["D"])
    mode = rng.choice(["inside", "inside", "edge", "behind", "beside", "above", "far", "anywhere"])
    if mode == "inside":
        az, alt, dist = rng.uniform(-a0, a0) * 0.7, rng.uniform(-a1, a1) * 0.6, Df * rng.uniform(0.2, 0.8)
    elif mode == "edge":
        az, alt, dist = rng.choice([-1, 1]) * a0 * rng.uniform(0.85, 1.25), rng.uniform(-a1, a1) * 0.5, Df * rng.uniform(0.2, 0.8)
    elif mode == "behind":
        az, alt, dist = math.pi + rng.uniform(-0.5, 0.5), rng.uniform(-a1, a1) * 0.5, Df * rng.uniform(0.2, 0.8)
    elif mode == "beside":
        az, alt, dist = rng.choice([-1, 1]) * rng.uniform(a0, math.pi), rng.uniform(-a1, a1) * 0.5, Df * rng.uniform(0.2, 0.8)
    elif mode == "above":
        az, alt, dist = rng.uniform(-a0, a0), rng.choice([-1, 1]) * rng.uniform(a1, math.pi / 2), Df * rng.uniform(0.2, 0.8)
    elif mode == "far":
        az, alt, dist = rng.uniform(-a0, a0) * 0.7, rng.uniform(-a1, a1) * 0.6, Df * rng.uniform(1.05, 1.6)
    else:
        az, alt, dist = rng.uniform(-math.pi, math.pi), rng.uniform(-1.5, 1.5), Df * rng.uniform(0.1, 1.3)
    alt = max(-1.5, min(1.5, alt))
    loc = [-math.sin(az) * math.cos(alt) * dist, math.cos(az) * math.cos(alt) * dist, math.sin(alt) * dist]
    c = vadd(cam, mapply(R, [F(x) for x in loc]))
    size = max(1.0, dist * rng.choice([0.08, 0.15, 0.3]))
    h = [snap(F(size * rng.uniform(0.5, 1.0)), 8) / 2 + F(1, 4) for _ in range(3)]
    tgt = dict(c=[snap(x, 16) for x in c], q=rand_quat(rng), h=h)
    return mode, tgt, (az, alt, dist)


def yaw_quat(t):
    """quaternion (w,x,y,z) of the yaw 4*atan(t) (rational t)"""
    t = F(t)
    return (1 - t * t, F(0), F(0), 2 * t)


def gen_straddle_scene(rng, v):
    """a box whose centre is just outside one window while a designated part (>= 1/4 of its volume) is inside:
    the centre shortcut cannot answer, the ray casting has to.  Returns None when the viewer's windows do not allow it."""
    if v["kind"] == "P":
        return None
    cam = cam_of(v)
    R = qmat(v["q"])
    a0, a1 = angle_of(v["t0"]) / 2, angle_of(v["t1"]) / 2
    Df = float(v["D"])
    dist = Df * rng.uniform(0.25, 0.6)
    sign = rng.choice([-1, 1])
    if rng.random() < 0.6 and v["t0"] is not None and a0 < 2.6:
        mode = "straddle-azimuth"
        w = min(0.3, 0.6 * a0)                       # angular half-width of the box
        hx = snap(F(dist * w), 16)
        hy = snap(F(min(float(hx), 1.0) * 0.5), 16) + F(1, 16)
        hz = snap(F(min(dist * math.tan(min(a1, 1.2) * 0.3), float(hx))), 16) + F(1, 16)
        az = sign * (a0 + 0.15 * float(hx) / dist)
        alt = rng.uniform(-0.2, 0.2) * a1
        lo_hi = [(F(3, 10), F(1)) if sign > 0 else (F(-1), F(-3, 10)), (F(-1), F(1)), (F(-1), F(1))]
    elif v["t1"] < F(13, 32):
        mode = "straddle-altitude"
        az = rng.uniform(-0.5, 0.5) * min(a0, 2.0)
        w = min(0.25, 0.6 * a1)
        hz = snap(F(dist * w), 16)
        hx = snap(F(min(dist * math.tan(min(a0, 1.2) * 0.3), float(hz))), 16) + F(1, 16)
        hy = snap(F(float(hz) * 0.04), 64) + F(1, 64)
        alt = sign * (a1 + 0.1 * float(hz) / dist)
        lo_hi = [(F(-1), F(1)), (F(-1), F(1)), (F(-1), F(-3, 10)) if sign > 0 else (F(3, 10), F(1))]
    else:
        return None
    t = F(math.tan(az / 4)).limit_denominator(64)
    az = 4 * math.atan(float(t))
    loc = [-math.sin(az) * math.cos(alt) * dist, math.cos(az) * math.cos(alt) * dist, math.sin(alt) * dist]
    c = vadd(cam, mapply(R, [snap(F(x), 64) for x in loc]))
    tgt = dict(c=c, q=qmul(tuple(F(x) for x in v["q"]), yaw_quat(t)), h=[hx, hy, hz])
    M = qmat(tgt["q"])
    mid = [(lo + hi) / 2 * F(tgt["h"][i]) for i, (lo, hi) in enumerate(lo_hi)]
    half = [(hi - lo) / 2 * F(tgt["h"][i]) for i, (lo, hi) in enumerate(lo_hi)]
    sb = dict(c=vadd(tgt["c"], mapply(M, mid)), q=tgt["q"], h=half)
    return mode, tgt, [(sb, F(7, 20))]


def gen_straddle_distance(rng, v):
    """a long box pointing away from the viewer whose centre is beyond the visible distance while its near part
    (35 % of its volume) is within it and inside both windows: the centre shortcut cannot answer, rays hit the target
    both within and beyond the visible distance."""
    cam = cam_of(v)
    R = qmat(v["q"]) if v["kind"] != "P" else qmat((1, 0, 0, 0))
    a0, a1 = angle_of(v["t0"]) / 2, angle_of(v["t1"]) / 2
    Df = float(v["D"])
    az = rng.uniform(-1, 1) * min(a0, 3.0) * 0.5
    t = F(math.tan(az / 4)).limit_denominator(64)
    az = 4 * math.atan(float(t))
    hy = Df * rng.uniform(0.25, 0.4)
    dc = Df * (1 + rng.uniform(0.02, max(0.025, 0.3 * hy / Df - 0.04)))
    near = dc - hy
    hx = snap(F(min(1.0, max(0.1, math.tan(min(a0, 1.2) * 0.3) * near))), 16) + F(1, 16)
    hz = snap(F(min(1.0, max(0.1, math.tan(min(a1, 1.2) * 0.3) * near))), 16) + F(1, 16)
    loc = [-math.sin(az) * dc, math.cos(az) * dc, 0.0]
    c = vadd(cam, mapply(R, [snap(F(x), 64) for x in loc]))
    q = tuple(F(x) for x in v["q"]) if v["kind"] != "P" else (F(1), F(0), F(0), F(0))
    tgt = dict(c=c, q=qmul(q, yaw_quat(t)), h=[hx, snap(F(hy), 16), hz])
    lo_hi = [(F(-1), F(1)), (F(-1), F(-3, 10)), (F(-1), F(1))]
    M = qmat(tgt["q"])
    mid = [(lo + hi) / 2 * F(tgt["h"][i]) for i, (lo, hi) in enumerate(lo_hi)]
    half = [(hi - lo) / 2 * F(tgt["h"][i]) for i, (lo, hi) in enumerate(lo_hi)]
    sb = dict(c=vadd(tgt["c"], mapply(M, mid)), q=tgt["q"], h=half)
    return "straddle-distance", tgt, [(sb, F(7, 20))]


def gen_long_scene(rng, v):
    """a long thin box whose near end is within the visible distance but outside the azimuth window and whose far end is
    inside the window but beyond the visible distance: wholly outside the view volume, although no single plane or
    sphere separates it (certified slice by slice)."""
    if v["kind"] == "P" or v["t0"] is None:
        return None
    a0, a1 = angle_of(v["t0"]) / 2, angle_of(v["t1"]) / 2
    if a0 > 2.4 or a0 < 0.15:
        return None
    cam = cam_of(v)
    R = qmat(v["q"])
    Df = float(v["D"])
    sign = rng.choice([-1, 1])
    azA, dA = sign * (a0 + rng.uniform(0.3, 0.5)), Df * rng.uniform(0.6, 0.8)
    azC, dC = sign * a0, Df * rng.uniform(1.12, 1.2)
    A = [-math.sin(azA) * dA, math.cos(azA) * dA]
    C = [-math.sin(azC) * dC, math.cos(azC) * dC]
    B = [C[0] + 0.35 * (C[0] - A[0]), C[1] + 0.35 * (C[1] - A[1])]
    mid = [(A[0] + B[0]) / 2, (A[1] + B[1]) / 2, 0.0]
    half_len = math.hypot(B[0] - A[0], B[1] - A[1]) / 2
    yaw = math.atan2(-(B[0] - A[0]), B[1] - A[1])          # heading of AB measured from +y
    t = F(math.tan(yaw / 4)).limit_denominator(64)
    c = vadd(cam, mapply(R, [snap(F(x), 64) for x in mid]))
    tgt = dict(c=c, q=qmul(tuple(F(x) for x in v["q"]), yaw_quat(t)), h=[F(1, 4), snap(F(half_len), 16), F(1, 4)])
    return "long-across-boundary", tgt


def slices(b, k=8, axis=1):
    """k sub-boxes covering b along one of its axes"""
    M = qmat(b["q"])
    out = []
    for i in range(k):
        off = [F(0)] * 3
        off[axis] = (F(2 * i + 1, k) - 1) * F(b["h"][axis])
        h = list(b["h"])
        h[axis] = F(b["h"][axis]) / k
        out.append(dict(c=vadd(b["c"], mapply(M, off)), q=b["q"], h=h))
    return out


def sub_box(rng, b):
    """a sub-box of b with the same orientation holding at least a quarter of its volume"""
    M = qmat(b["q"])
    lo_hi = []
    k = rng.randrange(4)   # which axis is halved (3 = none)
    for i in range(3):
        if i == k:
            lo_hi.append(rng.choice([(F(-1), F(0)), (F(0), F(1)), (F(-1, 2), F(1, 2))]))
        else:
            lo_hi.append((F(-1), F(1)) if rng.random() < 0.6 else rng.choice([(F(-1), F(2, 5)), (F(-2, 5), F(1))]))
    mid = [(lo + hi) / 2 * F(b["h"][i]) for i, (lo, hi) in enumerate(lo_hi)]
    half = [(hi - lo) / 2 * F(b["h"][i]) for i, (lo, hi) in enumerate(lo_hi)]
    frac = 1
    for lo, hi in lo_hi:
        frac *= (hi - lo) / 2
    return dict(c=vadd(b["c"], mapply(M, mid)), q=b["q"], h=half), frac


def unit_dir_candidates(v, box):
    """rational unit vectors of the viewer's horizontal plane pointing roughly at the box"""
    cam = cam_of(v)
    R = qmat(v["q"]) if v["kind"] != "P" else qmat((1, 0, 0, 0))
    w = mapplyT(R, vsub(box["c"], cam))
    x, y = float(w[0]), float(w[1])
    n = math.hypot(x, y)
    out = [(F(0), F(1)), (F(1), F(0)), (F(-1), F(0)), (F(0), F(-1))]
    if n > 1e-9:
        ang = math.atan2(y, x)
        t = F(math.tan(ang / 2)).limit_denominator(64) if abs(abs(ang) - math.pi) > 1e-6 else None
        if t is not None:
            out.insert(0, ((1 - t * t) / (1 + t * t), 2 * t / (1 + t * t)))
    return out


SHAPES = ["box", "box", "sphere", "cyl", "cone"]


def check_prune(ctx, recs):
    """(C) the angular pruning of the object branch: the windows in which the real code casts rays (or its early
    `return False`) vs `Prune.pruneWindows` on the vertex angles / crossing flags the real code computed.  A case is
    compared only when the model's decision (pruned / number of windows) is the same with both half-angles moved by
    +-1e-12; window end points are compared to 1e-9."""
    eps = F(1, 10 ** 12)
    lines, keep = [], []
    for v, tgt, real, rec in recs:
        if rec["az"] is None or rec["alt"] is None or len(rec["any"]) != 2 or isinstance(real, str):
            ctx.hist("prune", "not-reached" if not isinstance(real, str) else "crash")
            continue                     # centre shortcut / distance rejection: the pruning was not reached
        if len(rec["az"]) != len(rec["alt"]) or len(rec["az"]) > 120 or len(rec["lin"]) % 2:
            ctx.hist("prune", "skipped(shape)")
            continue
        A, Bv = F(rec["va"][0] / 2), F(rec["va"][1] / 2)
        for d in (0, eps, -eps):
            lines.append(" ".join(["C17", "prune", fr(F(math.pi)), fr(A + d), fr(Bv + d), str(int(rec["any"][0])),
                                   str(int(rec["any"][1])), str(len(rec["az"]))] + [fr(F(x)) for x in rec["az"]]
                                  + [fr(F(x)) for x in rec["alt"]]))
        keep.append((v, tgt, real, rec))
    # a malformed stream must be rejected, not mis-read
    lines += ["C17 prune 3 1 1 1 0 2 1/2", "C17 prune x", "C17 prune 3 1 1 0 0 0"]
    out = ctx.driver(lines) if lines else []
    if out[-3:] != ["bad-op", "bad-op", "none"]:
        ctx.broken("correspondence", "prune driver protocol", f"malformed lines answered {out[-3:]}")
    bad = 0
    for i, (v, tgt, real, rec) in enumerate(keep):
        m0, m1, m2 = (out[3 * i + j].split() for j in range(3))
        if not (m0[:2] == m1[:2] == m2[:2]):
            ctx.hist("prune", "undecided(boundary)")
            continue
        lin = rec["lin"]
        real_w = [(lin[k + 1][0], lin[k + 1][1], lin[k][0], lin[k][1]) for k in range(0, len(lin), 2)]
        if m0[0] == "none":
            model_w = []
        else:
            q = [float(F(x)) for x in m0[2:]]
            model_w = [tuple(q[4 * k:4 * k + 4]) for k in range(int(m0[1]))]
        flags = ("ahead" if rec["any"][0] else "") + ("behind" if rec["any"][1] else "") or "neither"
        ctx.hist("prune", f"{flags}:{'pruned' if not model_w else str(len(model_w)) + '-window'}")
        ctx.case(("prune", rec["va"], tuple(rec["az"]), tuple(rec["alt"]), tuple(rec["any"])), nontrivial=True)
        same = len(real_w) == len(model_w) and all(abs(a - b) <= 1e-9 for rw, mw in zip(real_w, model_w) for a, b in zip(rw, mw))
        if not model_w and not real_w and real is not False:
            same = False
        if not same:
            bad += 1
            if bad <= 3:
                ctx.broken("correspondence", "Prune.pruneWindows vs the pruning of visibility.canSee (object branch)",
                           f"viewer={jsonable(v)} target={jsonable(tgt)} flags={flags} viewAngles={rec['va']}: "
                           f"real windows (h0,h1,v0,v1)={real_w} result={real}; model={model_w}")
    ctx.extra["prune_cases_compared"] = len(keep)
    return False


def run_objects(ctx, R, use_model):
    rng = ctx.rng
    n = B(ctx, 170, 2500)
    scenes = []
    for _ in range(n):
        v = gen_viewer(rng, kinds="OBBBP")
        if v["D"] > 30:
            v["D"] = F(30)
        r = rng.random()
        st = gen_straddle_scene(rng, v) if r < 0.33 else None
        lg = gen_long_scene(rng, v) if 0.33 <= r < 0.44 else None
        sd = gen_straddle_distance(rng, v) if 0.44 <= r < 0.56 else None
        if st is not None or sd is not None:
            mode, tgt, subs = st or sd
            subs = subs * 3
        elif lg is not None:
            mode, tgt = lg
            subs = [sub_box(rng, tgt) for _ in range(3)]
        else:
            mode, tgt, _ = gen_object_scene(rng, v)
            subs = [sub_box(rng, tgt) for _ in range(3)]
        scenes.append((v, mode, tgt, subs, rng.choice(SHAPES)))
    if not use_model:
        return False
    lines = []
    for v, mode, tgt, subs, shape in scenes:
        # outside certificate on the loose viewer and the inflated box; geometry of the box
        lines.append(" ".join(["C17", "out"] + viewer_tokens(v, 1) + box_tokens(tgt, 1)))
        lines.append(" ".join(["C17", "geo"] + viewer_tokens(v, 0) + box_tokens(tgt, 0)))
        lines.append(" ".join(["C17", "vol"] + viewer_tokens(v, 1) + [fr(x) for x in tgt["c"]]))
        for sl in slices(tgt):
            lines.append(" ".join(["C17", "out"] + viewer_tokens(v, 1) + box_tokens(sl, 1)))
        for sb, _ in subs + [(tgt, F(1))]:          # the last one: the whole bounding box
            us = unit_dir_candidates(v, sb)[:3]
            for u in us:
                lines.append(" ".join(["C17", "in"] + viewer_tokens(v, -1) + box_tokens(sb, 1) + [fr(u[0]), fr(u[1])]))
    lean = ctx.driver(lines)
    found = False
    k = 0
    stats = {"outside": 0, "inside": 0, "undecided": 0}
    precs = []
    for v, mode, tgt, subs, shape in scenes:
        out = lean[k] == "1"
        geo = lean[k + 1].split()
        centre_in = lean[k + 2] == "1"
        sliced_out = all(x == "1" for x in lean[k + 3:k + 11])
        k += 11
        if sliced_out and not out:
            ctx.hist("object_oracle_cert", "outside-by-slices")
            out = True
        inside = False
        for sb, frac in subs:
            for _ in range(3):
                inside |= lean[k] == "1"
                k += 1
        whole_inside = any(x == "1" for x in lean[k:k + 3])
        k += 3
        cam_inside = geo[2] == "1"
        ctx.hist("object_mode", mode)
        # any shape inscribed in the bounding box is outside when the box is, and inside when the whole box is;
        # a part of the box being inside says nothing about another shape
        tgt = dict(tgt, shape=shape if (out or whole_inside) else "box")
        ctx.hist("object_shape", tgt["shape"])
        ctx.case(("obj", jsonable(v), jsonable(tgt)))
        rep = {"kind": "object", "viewer": jsonable(v), "target": jsonable(tgt), "occluders": [], "expect": None}
        if cam_inside:
            ctx.hist("object_oracle", "camera-inside-target(skipped)")
            continue
        viewer = R.viewer(v)
        target = R.box(tgt)
        if out:
            stats["outside"] += 1
            # occluders cannot make an outside object visible either
            occ_d = gen_occluders(rng, v, tgt["c"])[:2]
            real, prec = R.can_see_rec(viewer, target, [R.box(b) for b in occ_d])
            precs.append((v, tgt, real, prec))
            ctx.hist("object_oracle", "outside:" + str(real))
            rep.update(occluders=jsonable(occ_d), expect=False)
            if real is not False:
                found |= ctx.violation("canSee-object:outside-reported-visible" if real is True else f"canSee-object:{real}",
                                       f"{viewer_name(v)}.canSee({tgt['shape']} in the box at {[float(x) for x in tgt['c']]}) = {real} although the box lies "
                                       f"wholly outside the view volume (certificate, possibly slice by slice: too far, above/below the altitude band, or separated by a plane bounding the azimuth window)",
                                       rep)
        elif inside or whole_inside:
            stats["inside"] += 1
            real, prec = R.can_see_rec(viewer, target, [])
            precs.append((v, tgt, real, prec))
            ctx.hist("object_oracle", f"{'whole' if whole_inside else 'substantial-part'}-inside(centre {'inside' if centre_in else 'outside'}):" + str(real))
            rep["expect"] = True
            if real is not True:
                found |= ctx.violation("canSee-object:inside-reported-hidden" if real is False else f"canSee-object:{real}",
                                       f"{viewer_name(v)}.canSee({tgt['shape']} in the box at {[float(x) for x in tgt['c']]}) = {real} with no occluders although "
                                       f"{'the whole bounding box' if whole_inside else 'at least a quarter of the box'} lies inside the view volume", rep)
        else:
            stats["undecided"] += 1
            real, prec = R.can_see_rec(viewer, target, [])        # no ground truth: only crash-freedom is checked
            precs.append((v, tgt, real, prec))
            ctx.hist("object_oracle", "undecided:" + str(real))
            rep["expect"] = "no-crash"
            if isinstance(real, str):
                found |= ctx.violation(f"canSee-object:{real}", f"canSee raised {real} on an object target", rep)
    ctx.extra["object_oracle"] = stats
    check_prune(ctx, precs)
    return found


# --------------------------------------------------------------------------- (S) occlusion of objects, monotonicity
def wall_between(rng, v, tgt, frac=F(1, 2), scale=4):
    """a thin wall facing the viewer between camera and target, large enough to hide the target"""
    cam = cam_of(v)
    d = vsub(tgt["c"], cam)
    c = vadd(cam, [frac * x for x in d])
    # orientation: yaw the wall so that its thin axis (y) points along the horizontal part of d
    dx, dy_ = float(d[0]), float(d[1])
    if abs(dx) < 1e-9 and abs(dy_) < 1e-9:
        q = (1, 1, 0, 0)   # pitch by 90 deg: thin axis vertical
    else:
        yaw = math.atan2(-dx, dy_)          # heading of d measured from +y
        t = F(math.tan(yaw / 4)).limit_denominator(16)
        h = ((1 - t * t), 2 * t)             # (cos, sin) of yaw/2 up to scale -> quaternion (c, 0, 0, s)
        q = (h[0], 0, 0, h[1])
    ext = max(float(x) for x in tgt["h"]) * scale + 2
    return dict(c=[snap(x, 16) for x in c], q=q, h=[snap(F(ext), 4), F(1, 8), snap(F(ext), 4)])


def box_vertices(b):
    M = qmat(b["q"])
    out = []
    for sx in (-1, 1):
        for sy in (-1, 1):
            for sz in (-1, 1):
                out.append(vadd(b["c"], mapply(M, [sx * F(b["h"][0]), sy * F(b["h"][1]), sz * F(b["h"][2])])))
    return out


def run_occlusion(ctx, R, use_model):
    rng = ctx.rng
    n = B(ctx, 36, 300)
    found = False
    scenes = []
    tries = 0
    while len(scenes) < n and tries < 20 * n:
        tries += 1
        v = gen_viewer(rng, kinds="OBBP")
        if v["D"] > 30:
            v["D"] = F(30)
        mode, tgt, (az, alt, dist) = gen_object_scene(rng, v)
        if mode not in ("inside", "edge"):
            continue
        if abs(alt) > 0.9:
            continue
        wall = wall_between(rng, v, tgt, rng.choice([F(1, 4), F(1, 2), F(5, 8)]))
        # the target and the extra occluders may be any shape inscribed in their boxes (what is hidden with the box is
        # hidden with the shape; monotonicity holds for every shape); the certified wall stays a box
        tgt = dict(tgt, shape=rng.choice(SHAPES))
        extra = [dict(b, shape=rng.choice(SHAPES)) for b in gen_occluders(rng, v, tgt["c"])[:2]]
        scenes.append((v, tgt, wall, extra))
    if use_model:
        lines = []
        for v, tgt, wall, extra in scenes:
            pts = box_vertices(tgt) + [tgt["c"]]
            for p in pts:
                # raw viewer with an enormous view volume: only the line of sight matters
                vv = dict(v, t0=None, t1=F(1), D=F(10 ** 6))
                lines.append(" ".join(["C17", "rpt"] + viewer_tokens(vv, 0) + [fr(x) for x in p] + ["1"] + box_tokens(wall, -1)))
            lines.append(" ".join(["C17", "geo"] + viewer_tokens(v, 0) + box_tokens(wall, 1)))
            lines.append(" ".join(["C17", "geo"] + viewer_tokens(v, 0) + box_tokens(tgt, 1)))
        lean = ctx.driver(lines)
    k = 0
    stats = {"hidden": 0, "not-certified": 0, "monotone": 0}
    for v, tgt, wall, extra in scenes:
        hidden = False
        if use_model:
            blocked = all(x == "0" for x in lean[k:k + 9])
            cam_in_wall = lean[k + 9].split()[2] == "1"
            cam_in_tgt = lean[k + 10].split()[2] == "1"
            k += 11
            hidden = blocked and not cam_in_wall and not cam_in_tgt
        dens = rng.choice([2, 2, 5])
        viewer = R.viewer(v, ray_density=dens)
        target = R.box(tgt)
        w = R.box(wall)
        ex = [R.box(b) for b in extra]
        rep = {"kind": "object", "viewer": jsonable(v), "target": jsonable(tgt), "occluders": jsonable([wall] + extra),
               "ray_density": dens, "expect": False}
        ctx.case(("occ", jsonable(v), jsonable(tgt), jsonable(wall)))
        ctx.hist("occlusion_target_shape", tgt["shape"])
        r_all = R.can_see(viewer, target, [w] + ex)
        r_wall = R.can_see(viewer, target, [w])
        r_none = R.can_see(viewer, target, [])
        for r in (r_all, r_wall, r_none):
            if isinstance(r, str):
                found |= ctx.violation(f"canSee-object:{r}", f"canSee raised {r} on an object target", dict(rep, expect="no-crash"))
        if hidden:
            stats["hidden"] += 1
            ctx.hist("occlusion_oracle", "hidden-behind-wall:" + str(r_wall))
            if r_wall is True or r_all is True:
                found |= ctx.violation("canSee-object:hidden-reported-visible",
                                       f"{viewer_name(v)}.canSee(box at {[float(x) for x in tgt['c']]}) = True although every line of sight "
                                       f"to the box (all 8 vertices and the centre, hence by convexity the whole box) crosses the wall "
                                       f"at {[float(x) for x in wall['c']]}",
                                       dict(rep, occluders=jsonable([wall] if r_wall is True else [wall] + extra)))
        else:
            stats["not-certified"] += 1
            ctx.hist("occlusion_oracle", "wall-not-certified")
        # monotonicity: more occluders never turn hidden into visible
        stats["monotone"] += 1
        if (r_all is True and r_wall is False) or (r_wall is True and r_none is False) or (r_all is True and r_none is False):
            found |= ctx.violation("canSee-object:not-monotone",
                                   f"adding occluders made a hidden object visible: none={r_none} wall={r_wall} wall+extra={r_all}",
                                   dict(rep, expect="monotone"))
        ctx.hist("occlusion_results", f"none={r_none},wall={r_wall},all={r_all}")
    ctx.extra["occlusion_oracle"] = stats
    return found


def run_monotone_points(ctx, R):
    """adding occluders to a point query never turns hidden into visible (real code only)"""
    rng = ctx.rng
    found = False
    for _ in range(B(ctx, 150, 3000)):
        v = gen_viewer(rng)
        t = gen_target_point(rng, v)
        occ = [dict(b, shape=rng.choice(SHAPES)) for b in gen_occluders(rng, v, t) + gen_occluders(rng, v, t)]
        if not occ:
            continue
        viewer = R.viewer(v)
        tg = R.vec(t)
        boxes = [R.box(b) for b in occ]
        k = rng.randrange(len(occ) + 1)
        sub = [b for i, b in enumerate(boxes) if i != k] if k < len(occ) else boxes[: len(occ) // 2]
        more = R.can_see(viewer, tg, boxes)
        less = R.can_see(viewer, tg, sub)
        ctx.case(("mono", jsonable(v), jsonable(t), jsonable(occ), k))
        ctx.hist("monotone_points", f"less={less},more={more}")
        if more is True and less is False:
            rep = {"kind": "monotone", "viewer": jsonable(v), "target": jsonable(t), "occluders": jsonable(occ), "drop": k,
                   "expect": "monotone"}
            found |= ctx.violation("canSee-point:not-monotone", "removing an occluder made a visible point hidden", rep)
    return found


# --------------------------------------------------------------------------- (S) rigid motion
def move_scene(v, t, occ, Q, b):
    MQ = qmat(Q)
    mv = lambda p: vadd(mapply(MQ, p), b)
    v2 = dict(v, p=mv(v["p"]), q=qmul(Q, v["q"]))
    occ2 = [dict(o, c=mv(o["c"]), q=qmul(Q, o["q"])) for o in occ]
    return v2, mv(t), occ2


def run_rigid(ctx, R, use_model):
    """moving viewer, target and occluders by a common rigid motion does not change the answer"""
    rng = ctx.rng
    found = False
    scenes = []
    for _ in range(B(ctx, 200, 4000)):
        v = gen_viewer(rng, kinds="OB")
        t = gen_target_point(rng, v)
        occ = gen_occluders(rng, v, t)[:2]
        Q = rand_quat(rng)
        b = [dy(rng, -30, 30), dy(rng, -30, 30), dy(rng, -5, 5)]
        scenes.append((v, t, occ, Q, b))
    lean = None
    if use_model:
        lines = []
        for v, t, occ, Q, b in scenes:
            lines += lean_point_lines(v, t, occ)[3:6]
            v2, t2, occ2 = move_scene(v, t, occ, Q, b)
            lines += lean_point_lines(v2, t2, occ2)[3:6]
        lean = ctx.driver(lines)
    for i, (v, t, occ, Q, b) in enumerate(scenes):
        v2, t2, occ2 = move_scene(v, t, occ, Q, b)
        if lean is not None:
            d1, d2 = decided(lean[6 * i:6 * i + 3]), decided(lean[6 * i + 3:6 * i + 6])
            if d1 is None or d2 is None or axis_degenerate(v, t) or axis_degenerate(v2, t2):
                ctx.hist("rigid", "undecided")
                continue
            if d1 != d2:
                ctx.broken("correspondence", "rigid_invariance instance", f"model answers differ under a rigid motion: {jsonable(v)}")
                continue
        r1 = R.can_see(R.viewer(v), R.vec(t), [R.box(o) for o in occ])
        r2 = R.can_see(R.viewer(v2), R.vec(t2), [R.box(o) for o in occ2])
        ctx.case(("rigid", jsonable(v), jsonable(t), jsonable(occ), Q, jsonable(b)))
        ctx.hist("rigid", f"{r1}")
        if r1 != r2:
            rep = {"kind": "rigid", "viewer": jsonable(v), "target": jsonable(t), "occluders": jsonable(occ),
                   "Q": list(Q), "b": jsonable(b), "expect": "equal"}
            found |= ctx.violation("canSee-point:not-rigid-invariant",
                                   f"canSee = {r1} but {r2} after moving viewer, target and occluders by the same rigid motion", rep)
    return found


# --------------------------------------------------------------------------- (C)+(S) 2D compatibility mode
def gen_viewer2d(rng):
    kind = rng.choice("POOBB")
    D = rng.choice([F(5), F(10), F(20), F(13, 2)])
    p = [dy(rng, -40, 40), dy(rng, -40, 40), F(0)]
    if rng.random() < 0.08:
        p = [F(10), F(0), F(0)]
    th = None if rng.random() < 0.06 else F(rng.randint(-64, 64), rng.choice([8, 16, 32]))     # heading = 2 atan(th)
    off = [F(0)] * 3
    if kind == "B" and rng.random() < 0.7:
        off = [dy(rng, -2, 2), dy(rng, -2, 2), F(0)]
    r = rng.random()
    if r < 0.15:
        t0 = None
    elif r < 0.45:
        t0 = F(rng.randint(1, 12), 32)
    elif r < 0.65:
        t0 = F(rng.randint(13, 31), 32)
    elif r < 0.7:
        t0 = F(1)
    else:
        t0 = F(rng.randint(33, 200), 32)
    if kind == "P":
        th, t0 = F(0), None
    return dict(kind=kind, D=D, p=p, th=th, off=off, t0=t0)


def v3_of(v2):
    """the 3D viewer with the same camera: orientation = yaw by the heading, viewAngles = (viewAngle, pi)"""
    return dict(kind=v2["kind"], D=v2["D"], p=v2["p"], q=yaw_q(v2["th"]) if v2["kind"] != "P" else (1, 0, 0, 0),
                off=v2["off"], t0=v2["t0"], t1=F(1))


def box3_of(b2):
    return dict(c=b2["c"], q=yaw_q(b2["th"]), h=b2["h"])


def c2d_tokens(v2, t, var):
    sc = 1 + var * EPS
    c0, s0 = half_cs(None if v2["t0"] is None else F(v2["t0"]) * sc)
    th = v2["th"]
    if th is None:
        hc, hs = F(-1), F(0)
    else:
        th = F(th)
        hc, hs = (1 - th * th) / (1 + th * th), 2 * th / (1 + th * th)
    return (["C17", "c2d", v2["kind"], fr(F(v2["D"]) * sc)] + [fr(x) for x in v2["p"]] + [fr(hc), fr(hs)]
            + [fr(x) for x in v2["off"]] + [fr(c0), fr(s0)] + [fr(x) for x in t])


def gen_box2d(rng, centre, big=False):
    h = [dy(rng, 1, 10 if big else 6, 4) / 2, dy(rng, 1, 10 if big else 6, 4) / 2, F(1, 2)]
    if rng.random() < 0.3:
        h[rng.randrange(2)] = F(1, 16)
    return dict(c=[snap(F(centre[0]), 16), snap(F(centre[1]), 16), F(0)], th=F(rng.randint(-40, 40), 16), h=h)


def gen_occluders2d(rng, v3, t):
    cam = cam_of(v3)
    d = vsub(t, cam)
    occ = []
    for _ in range(rng.choice([0, 0, 0, 1, 1, 2])):
        f = rng.choice([F(1, 4), F(1, 2), F(3, 4), F(11, 10), F(-1, 4)])
        lat = [dy(rng, -3, 3, 4) if rng.random() < 0.5 else F(0) for _ in range(2)] + [F(0)]
        occ.append(gen_box2d(rng, vadd(vadd(cam, [f * x for x in d]), lat)))
    return occ


def gen_object2d(rng, v2):
    v3 = v3_of(v2)
    cam = cam_of(v3)
    Rm = qmat(v3["q"])
    a0 = angle_of(v2["t0"]) / 2
    Df = float(v2["D"])
    mode = rng.choice(["inside", "inside", "edge", "edge", "behind", "beside", "far", "rim", "anywhere"])
    dist = Df * rng.uniform(0.2, 0.8)
    if mode == "inside":
        az = rng.uniform(-a0, a0) * 0.7
    elif mode == "edge":
        az = rng.choice([-1, 1]) * a0 * rng.uniform(0.85, 1.25)
    elif mode == "behind":
        az = math.pi + rng.uniform(-0.5, 0.5)
    elif mode == "beside":
        az = rng.choice([-1, 1]) * rng.uniform(a0, math.pi)
    elif mode == "far":
        az, dist = rng.uniform(-a0, a0) * 0.7, Df * rng.uniform(1.05, 1.6)
    elif mode == "rim":
        az, dist = rng.uniform(-a0, a0) * 0.7, Df * rng.uniform(0.9, 1.15)
    else:
        az, dist = rng.uniform(-math.pi, math.pi), Df * rng.uniform(0.1, 1.3)
    loc = [F(-math.sin(az) * dist), F(math.cos(az) * dist), F(0)]
    c = vadd(cam, mapply(Rm, loc))
    size = max(1.0, dist * rng.choice([0.08, 0.15, 0.3]))
    h = [snap(F(size * rng.uniform(0.5, 1.0)), 8) / 2 + F(1, 4) for _ in range(2)] + [F(1, 2)]
    return mode, dict(c=[snap(c[0], 16), snap(c[1], 16), F(0)], th=F(rng.randint(-40, 40), 16), h=h)


def region_box_tokens(b, var):
    sc = 1 + var * REGION_EPS
    return [fr(x) for x in b["c"]] + [fr(x) for x in b["q"]] + [fr(F(x) * sc) for x in b["h"]]


def run_2d(ctx, R, use_model):
    """2D compatibility mode.  (C) the model of the fast path (`c2d`, generated 2D configuration) vs
    `Point2D / OrientedPoint2D / Object2D.canSee` without occluders, and the 3D model vs the same call with occluders
    (which the code routes to the 3D class); (S) the reference point predicate of the viewer with orientation = yaw by
    the heading, viewAngles = (viewAngle, pi) vs the real answer for planar targets; for Object2D targets the two
    one-sided certificates."""
    if not use_model:
        return False
    rng = ctx.rng
    cases = []
    n = B(ctx, 300, 6000)
    # the (10,0,0) regression configuration in 2D: a viewer facing west sees the point 5 m ahead
    v = dict(kind="O", D=F(20), p=[F(10), F(0), F(0)], th=F(1), off=[F(0)] * 3, t0=F(1, 4))
    cases.append((v, "vector", [F(5), F(0), F(0)], []))
    cases.append((v, "vector", [F(15), F(0), F(0)], []))
    while len(cases) < n:
        v = gen_viewer2d(rng)
        v3 = v3_of(v)
        for _ in range(rng.choice([1, 2, 4])):
            t = gen_target_point(rng, v3)
            r = rng.random()
            occ = []
            if r < 0.9:
                t[2] = F(0)
                occ = gen_occluders2d(rng, v3, t)
            else:
                t[2] = rng.choice([F(1, 64), F(-1, 2), F(3)])        # off the plane: never visible on the fast path
            cases.append((v, rng.choice(["vector", "vector", "point2d"]), t, occ))
    cases = cases[:n]
    lines = []
    for v, tk, t, occ in cases:
        for var in (0, 1, -1):
            lines.append(" ".join(c2d_tokens(v, t, var)))
        lines += lean_point_lines(v3_of(v), t, [box3_of(b) for b in occ])
    lean = ctx.driver(lines)
    found = False
    bad = 0
    viewers = {}
    for i, (v, tk, t, occ) in enumerate(cases):
        a = lean[9 * i:9 * i + 9]
        fast, model3, ref = decided(a[0:3]), decided(a[3:6]), decided(a[6:9])
        model = model3 if occ else fast
        v3 = v3_of(v)
        planar = t[2] == 0
        if t == cam_of(v3):
            continue
        viewer = viewers.get(id(v))
        if viewer is None:
            viewer = viewers[id(v)] = R.viewer2d(v)
        try:
            real = bool(viewer.canSee(R.target2d(tk, t), occludingObjects=tuple(R.box2d(b, occluding=True) for b in occ)))
        except Exception as e:
            real = "crash:" + type(e).__name__
        ctx.case(("2d", jsonable(v), tk, jsonable(t), jsonable(occ)))
        ctx.hist("2d_viewer_kind", v["kind"])
        ctx.hist("2d_occluders", len(occ))
        rep = {"kind": "point2d", "viewer": jsonable(v), "tkind": tk, "target": jsonable(t), "occluders": jsonable(occ),
               "expect": None if (ref is None or not planar) else ref == "1"}
        if isinstance(real, str):
            rep["expect"] = "no-crash"
            found |= ctx.violation(f"canSee2D-point:{real}", f"2D canSee raised {real} on a point target", rep)
            continue
        ctx.hist("2d_point_outcome", ("visible" if real else "hidden") + ("" if planar else ":off-plane") + ("" if ref is not None else ":undecided"))
        if planar and ref is not None and ref != ("1" if real else "0"):
            kind = "reports-visible" if real else "reports-hidden"
            what = (f"2D mode: {viewer_name(v)}2D at {[float(x) for x in v['p']]} heading {heading_of(v['th']):.4f} "
                    f"canSee({tk} {[float(x) for x in t]}, {len(occ)} occluders) = {real}, but the target is "
                    f"{'inside the sector and unobstructed' if ref == '1' else 'outside the sector or obstructed'} (exact, margin 2^-20)")
            found |= ctx.violation(f"canSee2D-point:{kind}:{'with-occluders' if occ else 'no-occluders'}", what, rep)
        if model is not None and model != ("1" if real else "0"):
            bad += 1
            if bad <= 5:
                ctx.broken("correspondence", "2D fast-path model vs Point2D.canSee" if not occ else "3D model vs Point2D.canSee with occluders",
                           f"viewer={jsonable(v)} target={jsonable(t)} occluders={len(occ)}: lean={model} python={real}")
    # Object2D targets, no occluders: visible iff the bounding polygon meets the sector polygon
    scenes = []
    for _ in range(B(ctx, 60, 800)):
        v = gen_viewer2d(rng)
        mode, tgt = gen_object2d(rng, v)
        scenes.append((v, mode, tgt, [sub_box(rng, box3_of(tgt)) for _ in range(3)]))
    lines = []
    for v, mode, tgt, subs in scenes:
        v3, b3 = v3_of(v), box3_of(tgt)
        lines.append(" ".join(["C17", "out"] + region_viewer_tokens(v3, 1) + region_box_tokens(b3, 1)))
        lines.append(" ".join(["C17", "geo"] + viewer_tokens(v3, 0) + box_tokens(b3, 0)))
        for sb, _ in subs:
            for u in unit_dir_candidates(v3, sb)[:3]:
                lines.append(" ".join(["C17", "in"] + region_viewer_tokens(v3, -1) + region_box_tokens(sb, 1) + [fr(u[0]), fr(u[1])]))
    lean = ctx.driver(lines)
    k = 0
    stats = {"outside": 0, "inside": 0, "undecided": 0}
    for v, mode, tgt, subs in scenes:
        out = lean[k] == "1"
        cam_inside = lean[k + 1].split()[2] == "1"
        inside = any(x == "1" for x in lean[k + 2:k + 11])
        k += 11
        ctx.case(("2dobj", jsonable(v), jsonable(tgt)))
        ctx.hist("2d_object_mode", mode)
        if cam_inside:
            continue
        try:
            real = bool(R.viewer2d(v).canSee(R.box2d(tgt)))
        except Exception as e:
            real = "crash:" + type(e).__name__
        rep = {"kind": "object2d", "viewer": jsonable(v), "target": jsonable(tgt), "expect": False if out else True if inside else "no-crash"}
        if isinstance(real, str):
            rep["expect"] = "no-crash"
            found |= ctx.violation(f"canSee2D-object:{real}", f"2D canSee raised {real} on an object target", rep)
        elif out:
            stats["outside"] += 1
            if real:
                found |= ctx.violation("canSee2D-object:outside-reported-visible",
                                       f"2D mode: {viewer_name(v)}2D.canSee(box at {[float(x) for x in tgt['c']]}) = True although the box lies wholly "
                                       f"outside the sector (certificate with margin 1/32)", rep)
        elif inside:
            stats["inside"] += 1
            if not real:
                found |= ctx.violation("canSee2D-object:inside-reported-hidden",
                                       f"2D mode: {viewer_name(v)}2D.canSee(box at {[float(x) for x in tgt['c']]}) = False although at least a quarter of "
                                       f"the box lies inside the sector", rep)
        else:
            stats["undecided"] += 1
        ctx.hist("2d_object_oracle", ("outside" if out else "inside" if inside else "undecided") + ":" + str(real))
    ctx.extra["object2d_oracle"] = stats
    return found


# --------------------------------------------------------------------------- (S) whole programs
PROGRAM = """\
ego = new Object at ({ex}, {ey}, {ez}), facing ({yaw} deg, {pitch} deg, 0 deg), with viewAngles ({h} deg, {vt} deg), with visibleDistance {D}, with cameraOffset ({cx}, {cy}, {cz}), with allowCollisions True{egoextra}
tgt = new {tcls} at ({tx}, {ty}, {tz}){tspec}, with allowCollisions True
blocker = new Object at ({bx}, {by}, {bz}), facing {byaw} deg, with width {bw}, with length {bl}, with height {bh}, with occluding {occluding}, with allowCollisions True
{req}
"""


def gen_program(rng):
    yaw = rng.choice([0, 90, -90, 180, 45, -135, 30])
    pitch = rng.choice([0, 0, 0, 20, -15])
    ex, ey, ez = rng.choice([0, 10, -20, 35]), rng.choice([0, 5, -15]), rng.choice([0, 0, 2])
    h, vt = rng.choice([40, 90, 200, 360]), rng.choice([30, 60, 180])
    D = rng.choice([20, 40])
    cx, cy, cz = rng.choice([(0, 0, 0), (0, 0, 0), (0, 1, 0.5), (0.5, -1, 1)])
    # target straight ahead (in the ego frame) or off to a side / behind
    place = rng.choice(["ahead", "ahead", "ahead", "behind", "side", "far"])
    dist = {"ahead": rng.choice([8, 12, 15]), "behind": 10, "side": 10, "far": D + 10}[place]
    ang = {"ahead": rng.choice([0, 5, -8]), "behind": 180, "side": rng.choice([90, -90]), "far": 0}[place]
    form = rng.choice(["op", "op", "spec", "reqvis", "notvisible", "point", "notop"])
    tcls = "Object"
    tspec = ""
    if form == "point":
        tcls = "Point"
    blocked = rng.choice(["wall", "wall", "none", "offside", "transparent"])
    occluding = "False" if blocked == "transparent" else "True"
    return dict(yaw=yaw, pitch=pitch, ex=ex, ey=ey, ez=ez, h=h, vt=vt, D=D, cx=cx, cy=cy, cz=cz, place=place, dist=dist,
                ang=ang, form=form, tcls=tcls, blocked=blocked, occluding=occluding)


def build_program(g):
    """returns (source, viewer description, target description, occluder description)"""
    q_yaw = (math.cos(math.radians(g["yaw"]) / 2), 0, 0, math.sin(math.radians(g["yaw"]) / 2))
    q_pitch = (math.cos(math.radians(g["pitch"]) / 2), math.sin(math.radians(g["pitch"]) / 2), 0, 0)
    q = qmul(q_yaw, q_pitch)
    Rm = [[float(x) for x in row] for row in qmat([F(c).limit_denominator(10 ** 9) for c in q])]
    cam_dir = math.radians(g["ang"])
    loc = [-math.sin(cam_dir) * g["dist"], math.cos(cam_dir) * g["dist"], 0.0]
    cam = [[g["ex"], g["ey"], g["ez"]][i] + sum(Rm[i][j] * [g["cx"], g["cy"], g["cz"]][j] for j in range(3)) for i in range(3)]
    t = [round(cam[i] + sum(Rm[i][j] * loc[j] for j in range(3)), 3) for i in range(3)]
    # blocker: half way along the line of sight (wall / transparent), or well off to the side
    mid = [(cam[i] + t[i]) / 2 for i in range(3)]
    if g["blocked"] in ("wall", "transparent"):
        bpos = mid
    elif g["blocked"] == "offside":
        bpos = [mid[0] + Rm[0][0] * 15, mid[1] + Rm[1][0] * 15, mid[2] + Rm[2][0] * 15]
    else:
        bpos = [g["ex"] + 200.0, g["ey"] + 200.0, 0.0]
    bpos = [round(x, 3) for x in bpos]
    heading = math.degrees(math.atan2(-(t[0] - cam[0]), t[1] - cam[1])) if g["place"] != "far" or True else 0
    d = dict(g)
    d.update(tx=t[0], ty=t[1], tz=t[2], bx=bpos[0], by=bpos[1], bz=bpos[2], byaw=round(heading, 3), bw=8, bl=0.25, bh=8,
             egoextra="", tspec="", req="")
    if g["form"] in ("op", "point"):
        d["req"] = "require ego can see tgt"
    elif g["form"] == "notop":
        d["req"] = "require not (ego can see tgt)"
    elif g["form"] == "spec":
        d["tspec"] = ", with _observingEntity ego"
    elif g["form"] == "notvisible":
        d["tspec"] = ", with _nonObservingEntity ego"
    elif g["form"] == "reqvis":
        d["tspec"] = ", with requireVisible True"
    return PROGRAM.format(**d), d


def run_programs(ctx, R, use_model):
    import scenic
    from scenic.core.distributions import RejectionException
    rng = ctx.rng
    found = False
    items = []
    for _ in range(B(ctx, 30, 300)):
        g = gen_program(rng)
        src, d = build_program(g)
        items.append((g, src, d))
    stats = {"agree": 0, "undecided": 0}
    for g, src, d in items:
        try:
            random.seed(rng.getrandbits(32))
            R.np.random.seed(rng.getrandbits(32))
            sc = scenic.scenarioFromString(src)
        except Exception as e:
            ctx.hist("program", "generator-invalid:" + type(e).__name__)
            ctx.notes.append(f"program generator produced an invalid program ({type(e).__name__}: {str(e)[:80]})") if len(ctx.notes) < 3 else None
            continue
        try:
            sc.generate(maxIterations=1)
            accepted = True
        except RejectionException:
            accepted = False
        except Exception as e:
            accepted = "crash:" + type(e).__name__
        ctx.case(("prog", src))
        ctx.hist("program", f"{g['form']}:{g['place']}:{g['blocked']}")
        rep = {"kind": "program", "program": src, "expect": "no-crash"}
        if isinstance(accepted, str):
            found |= ctx.violation(f"program:{accepted}", f"scene generation raised {accepted}", rep)
            continue
        expected = expected_program(ctx, g, d, use_model)
        if expected is None:
            stats["undecided"] += 1
            ctx.hist("program_outcome", "undecided")
            continue
        want_visible = g["form"] not in ("notop", "notvisible")
        should_accept = expected == want_visible
        rep["expect"] = should_accept
        ctx.hist("program_outcome", f"visible={expected},accepted={accepted}")
        if accepted != should_accept:
            found |= ctx.violation(f"program:{g['form']}:{'accepted' if accepted else 'rejected'}",
                                   f"a program whose only requirement is that the ego {'sees' if want_visible else 'does not see'} the target was "
                                   f"{'accepted' if accepted else 'rejected'} although the target is {'visible' if expected else 'not visible'} "
                                   f"(placement {g['place']}, blocker {g['blocked']})", rep)
        else:
            stats["agree"] += 1
    ctx.extra["programs"] = stats
    return found


def expected_program(ctx, g, d, use_model):
    """three-valued ground truth for the generated program family, by construction of the family:
    the target centre is placed at a chosen azimuth / distance in the camera frame at altitude 0."""
    h2, v2 = g["h"] / 2, g["vt"] / 2
    if g["place"] == "far":
        return False        # centre 10 m beyond the visible distance, target of size 1: wholly outside
    ang = abs(g["ang"])
    # the target is a 1 m cube (or a point) at distance >= 8: it subtends less than 6 degrees
    margin = 0.5 if g["tcls"] == "Point" else 8
    if ang > h2 + margin:
        inside = False
    elif ang < h2 - 1:
        inside = True
    else:
        return None
    if not inside:
        return False
    if g["blocked"] == "wall":
        return False        # an 8 x 8 wall half way, facing the viewer, hides a 1 m cube entirely
    return True


# --------------------------------------------------------------------------- main
def run(ctx):
    ctx.rule = ("cases = (viewer kind Point/OrientedPoint/Object, position, rational-quaternion orientation, camera offset, "
                "view angles narrow/<180/>180/full, visible distance) x (vector/Point/OrientedPoint/box target, boundary-dense "
                "in the viewer frame) x (0-5 box occluders along/near the line of sight), each query with occluders repeated "
                "without them on the same viewer object; plus viewers x visibleRegion probes, box/spheroid/cylinder/cone targets "
                "(inside, straddling a window edge or the visible distance, outside), rigid motions, occluder subsets, "
                "2D-mode viewers (Point2D/OrientedPoint2D/Object2D) x planar points / boxes / occluders, and whole programs; "
                "all non-trivial; distinct by content hash")
    ctx.assumptions += [
        "occluders and object targets are boxes; trimesh ray/mesh intersection is trusted to report the true surface hits "
        "(validated on every run by the correspondence on boxes)",
        "floats enter the model as exact rationals; a case is compared only when the model's answer is unchanged by a relative "
        "perturbation of 2^-20 of the distance, the half-angle tangents and the box extents (1/32 for the meshed ViewRegion)",
        "the ray grid of the object branch (density, batching, shuffling) is not modelled: objects are checked through the "
        "one-sided conditions of the property only",
        "2D compatibility mode: the fast path for point targets is modelled (disc / sector membership) and proved to agree "
        "with the point predicate on planar scenes; for Object2D targets (polygon intersection) only the two one-sided "
        "conditions are checked on the real code (margin 1/32 for the 128-gon approximating the disc)",
        "non-box shapes (spheroid, cylinder, cone) enter only through their bounding boxes: wholly outside / wholly inside / "
        "hidden behind a wall for the box implies the same for the inscribed shape; monotonicity is checked for all shapes",
    ]
    ctx.trusted_base += ["tools/translate/visibility.py (template extraction)",
                         "tools/props/c17.py (correspondence harness, case generators, certificates' use)"]
    ctx.fingerprint(FINGERPRINTS)
    from translate import visibility as tv
    try:
        ctx.gen("Visibility", tv.to_lean(tv.extract()))
    except TemplateMismatch as e:
        ctx.escalated.append(f"translator tie lost (visibility): {e}")
        ctx.notes.append(f"translator tie lost: {e}; the reference configuration is written to Gen/Visibility.lean and the "
                         "tie rests on the correspondence (model of the reference configuration vs the real code) at thorough budget")
        ctx.gen("Visibility", "-- translator template mismatch: this is the REFERENCE configuration, not an extraction\n"
                + tv.to_lean(tv.REFERENCE))
    pr = ctx.prove(THEOREMS, side_conditions=SIDE)
    if ctx.tier == "thorough" and pr.build_ok:
        ctx.leanchecker(LEAN_MODULES)
    R = Real()
    random.seed(ctx.rng.getrandbits(32))
    R.np.random.seed(ctx.rng.getrandbits(32))
    use_model = pr.build_ok
    if not use_model:
        # a side condition / theorem no longer checks; the driver only needs Model/ and Gen/, so the generated-
        # configuration model and the reference predicate can still be run to look for a failing input
        rc, _ = ctx.lake(["build", "drv_c17"])
        use_model = rc == 0
        ctx.notes.append("theorem module does not build; driver " + ("rebuilt separately" if use_model else "does not build either"))
    found = False
    phases = {"prove": round(ctx.elapsed(), 1)}
    # an escalated run (changed fingerprint, lost translator tie, broken proof) searches in two stages: every phase at the
    # quick budget first (a failing input that is easy to find is found within minutes), then every phase at the thorough one
    stages = ["quick-budget stage", "thorough-budget stage"] if (ctx.tier != "thorough" and (ctx.escalated or not pr.ok)) else [""]
    for stage in stages:
      STAGE["force_quick"] = stage.startswith("quick")
      for name, fn in (("points", lambda: run_points(ctx, R, use_model)),
                     ("regions", lambda: run_regions(ctx, R) if use_model else False),
                     ("objects", lambda: run_objects(ctx, R, use_model)),
                     ("occlusion", lambda: run_occlusion(ctx, R, use_model)),
                     ("monotone", lambda: run_monotone_points(ctx, R)),
                     ("rigid", lambda: run_rigid(ctx, R, use_model)),
                     ("mode2d", lambda: run_2d(ctx, R, use_model)),
                     ("programs", lambda: run_programs(ctx, R, use_model))):
        name = (stage + ":" + name) if stage else name
        if found:
            phases[name] = "skipped (a failing input was already found)"
            continue
        t0 = time.time()
        found |= bool(fn())
        phases[name] = round(time.time() - t0, 1)
    STAGE["force_quick"] = False
    ctx.extra["phase_seconds"] = phases
    ctx.resolve_brokens(found)


def replay(ctx, path):
    """Re-executes the recorded input against the real code of $SCENIC_REPO and compares with the recorded expectation
    (what the property demands of this input, established exactly when the input was found).
    Exit status 1 = the violation is reproduced, 0 = the code now behaves as the property demands."""
    body = json.load(open(path))
    rep = body.get("replay", body)
    kind = rep.get("kind")
    if kind is None:
        print(json.dumps(rep, indent=1)[:3000])
        print("nothing to re-execute (no concrete input was found for this report)")
        return 0
    R = Real()
    expect = rep.get("expect")
    results = []

    def quats(o):
        o["q"] = tuple(F(x) for x in o["q"])
        return o

    def verdict(bad, msg):
        print(("REPRODUCED: " if bad else "not reproduced: ") + msg)
        return 1 if bad else 0

    if kind in ("point", "object", "monotone", "rigid", "region"):
        v = quats(unjson(rep["viewer"]))
        occ = [quats(o) for o in unjson(rep.get("occluders", []))]
        viewer = R.viewer(v, ray_density=rep.get("ray_density"))
        print("viewer:", viewer_name(v), "position", [float(x) for x in v["p"]], "quaternion(w,x,y,z)", [str(x) for x in v["q"]],
              "cameraOffset", [float(x) for x in v["off"]], "viewAngles", (angle_of(v["t0"]), angle_of(v["t1"])),
              "visibleDistance", float(v["D"]), "given as", v.get("glue", "viewAngles"))
        if kind == "object":
            tg = quats(unjson(rep["target"]))
            print("target:", jsonable(tg))
            target = R.box(tg)
            r_occ = R.can_see(viewer, target, [R.box(o) for o in occ])
            print(f"canSee(target, {len(occ)} occluders) ->", r_occ)
            if expect == "monotone":
                r_wall = R.can_see(viewer, target, [R.box(o) for o in occ[:1]])
                r_none = R.can_see(viewer, target, [])
                print("canSee(target, first occluder) ->", r_wall, "; canSee(target, ()) ->", r_none)
                bad = (r_occ is True and r_wall is False) or (r_wall is True and r_none is False) or (r_occ is True and r_none is False)
                return verdict(bad, "adding occluders must never turn hidden into visible")
            if expect == "no-crash":
                return verdict(isinstance(r_occ, str), "canSee must not raise")
            return verdict(r_occ is not expect, f"the property demands {expect}")
        if kind == "region":
            t = unjson(rep["target"])
            try:
                r = bool(viewer.visibleRegion.containsPoint(R.vec(t)))
            except Exception as e:
                r = "crash:" + type(e).__name__
            print("visibleRegion.containsPoint", [float(x) for x in t], "->", r)
            if expect == "no-crash":
                return verdict(isinstance(r, str), "containsPoint must not raise")
            return verdict(r is not expect, f"membership in the view volume is {expect}")
        t = unjson(rep["target"])
        target = R.target(rep.get("tkind", "vector"), t)
        print("target:", [float(x) for x in t], "occluders:", len(occ))
        if kind == "point":
            if rep.get("before"):
                before = [quats(o) for o in unjson(rep["before"])]
                print(f"canSee(target, {len(before)} occluders) asked first on the same viewer ->",
                      R.can_see(viewer, target, [R.box(o) for o in before]))
            r = R.can_see(viewer, target, [R.box(o) for o in occ])
            print(f"canSee(target, {len(occ)} occluders) ->", r)
            if expect == "no-crash":
                return verdict(isinstance(r, str), "canSee must not raise")
            if expect is None:
                return verdict(False, "no exact expectation recorded for this input")
            return verdict(r is not expect, f"the reference predicate (view volume and line of sight, exact) says {expect}")
        boxes = [R.box(o) for o in occ]
        if kind == "monotone":
            k = rep["drop"]
            sub = [b for i, b in enumerate(boxes) if i != k] if k < len(boxes) else boxes[: len(boxes) // 2]
            more, less = R.can_see(viewer, R.vec(t), boxes), R.can_see(viewer, R.vec(t), sub)
            print("canSee with all occluders ->", more, "; with a subset ->", less)
            return verdict(more is True and less is False, "removing an occluder must not hide a visible point")
        if kind == "rigid":
            v2, t2, occ2 = move_scene(v, t, occ, tuple(int(x) for x in rep["Q"]), unjson(rep["b"]))
            r1 = R.can_see(viewer, R.vec(t), boxes)
            r2 = R.can_see(R.viewer(v2), R.vec(t2), [R.box(o) for o in occ2])
            print("canSee ->", r1, "; after the common rigid motion ->", r2)
            return verdict(r1 != r2, "a common rigid motion of viewer, target and occluders must not change the answer")
    elif kind in ("point2d", "object2d"):
        v = unjson(rep["viewer"])
        viewer = R.viewer2d(v)
        print("2D viewer:", viewer_name(v) + "2D", "position", [float(x) for x in v["p"]], "heading", heading_of(v["th"]),
              "cameraOffset", [float(x) for x in v["off"]], "viewAngle", angle_of(v["t0"]), "visibleDistance", float(v["D"]))
        try:
            if kind == "point2d":
                t = unjson(rep["target"])
                occ = unjson(rep.get("occluders", []))
                r = bool(viewer.canSee(R.target2d(rep.get("tkind", "vector"), t),
                                       occludingObjects=tuple(R.box2d(b, occluding=True) for b in occ)))
                print(f"canSee({[float(x) for x in t]}, {len(occ)} occluders) ->", r)
            else:
                tg = unjson(rep["target"])
                r = bool(viewer.canSee(R.box2d(tg)))
                print("canSee(Object2D", jsonable(tg), ") ->", r)
        except Exception as e:
            r = "crash:" + type(e).__name__
            print("raised", type(e).__name__, e)
        if expect == "no-crash":
            return verdict(isinstance(r, str), "canSee must not raise")
        if expect is None:
            return verdict(False, "no exact expectation recorded for this input")
        return verdict(r is not expect, f"the property demands {expect}")
    elif kind == "program":
        import scenic
        from scenic.core.distributions import RejectionException
        print(rep["program"])
        try:
            sc = scenic.scenarioFromString(rep["program"])
            sc.generate(maxIterations=1)
            r = True
        except RejectionException:
            r = False
        except Exception as e:
            r = "crash:" + type(e).__name__
        print("->", "accepted" if r is True else "rejected" if r is False else r)
        if expect == "no-crash":
            return verdict(isinstance(r, str), "scene generation must not raise")
        return verdict(r is not expect, f"the visibility fixed by construction demands accepted = {expect}")
    print(json.dumps(rep, indent=1)[:3000])
    return 0
