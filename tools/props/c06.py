"""C06 -- specifier resolution follows the documented priorities, whatever the order.

Proof:  lean/ScenicModel/Props/C06*.lean over the model lean/ScenicModel/Model/Specifiers.lean
        (a statement-by-statement model of Constructible._resolveSpecifiers, the class-level merging of
        defaults and the 2-D rewriting), instantiated on the table of built-in specifiers regenerated
        from veneer.py and docs/reference/specifiers.rst by translate/spectable.py.
Tie:    (T) the translator (table of built-ins; the side condition `code table = reference` is re-decided
            by the kernel on every run);
        (C) the Lean driver against the real `_resolveSpecifiers`:
              - synthetic stream: hand-built Specifier / ModifyingSpecifier / PropertyDefault objects on
                small property alphabets (dense in ties, overrides, modifiers, cycles, missing deps);
              - language stream: one Scenic program per mode (3-D, 2-D) that creates objects of built-in
                and user classes from every built-in specifier with every accepted kind of argument,
                all singles, all ordered pairs, sampled/all triples (quads in the thorough tier) in all
                orders; the specifier objects really built by veneer are described to the Lean model
                (through the generated table) and the real evaluation trace is compared;
              - class merging: MROs of real and synthetic classes against `mergeDefaults`;
        (S) the property itself on the real code, no model: a declarative reference (unique
            highest-priority specifier / at most one modifier / default, errors for ties, finals, cycles,
            missing dependencies), dependencies present when a specifier is evaluated, equal outcome
            class for every permutation, built-in descriptors equal to the reference manual.
"""
import collections
import itertools
import json
import os
import random
import re
import sys
import time

from vlib.ctx import Infra, TemplateMismatch

THEOREMS = [
    "Scenic.C06.resolve_spec",
    "Scenic.C06.resolve_modifier",
    "Scenic.C06.topo_order",
    "Scenic.C06.topo_order_full",
    "Scenic.C06.modifier_after_specifier",
    "Scenic.C06.evaluated_once",
    "Scenic.C06.evaluate_ok",
    "Scenic.C06.evaluate_total",
    "Scenic.C06.defaulted_iff",
    "Scenic.C06.defaulted_perm_invariant",
    "Scenic.C06.defaulted_final_value",
    "Scenic.C06.constProps_iff",
    "Scenic.C06.overrideCheck_none_iff",
    "Scenic.C06.override_spec",
    "Scenic.C06.override_perm_invariant",
    "Scenic.C06.override_refused_sound",
    "Scenic.C06.dup_name_reported",
    "Scenic.C06.final_reported",
    "Scenic.C06.final_reported_normal",
    "Scenic.C06.regression_final_by_modifier",
    "Scenic.C06.tie_reported",
    "Scenic.C06.missing_dep_reported",
    "Scenic.C06.cycle_reported",
    "Scenic.C06.error_kinds_sound",
    "Scenic.C06.cycle_error_sound",
    "Scenic.C06.resolve_never_fuel",
    "Scenic.C06.resolve_perm_invariant",
    "Scenic.C06.resolve2D_perm_invariant",
    "Scenic.C06.builtin_single_modifier",
    "Scenic.C06.builtin_perm_invariant",
    "Scenic.C06.two_modifiers_order_dependent",
    "Scenic.C06.regression_p3_p1_p3",
    "Scenic.C06.regression_multi_modifiable",
    "Scenic.C06.regression_modified_twice",
    "Scenic.C06.merge_most_derived",
    "Scenic.C06.merge_additive_collects",
    "Scenic.C06.merge_final_not_overridable",
    "Scenic.C06.merge_finals",
    "Scenic.C06.transform2D_no_heading",
]
SIDE = [
    "Scenic.C06.gen_code_matches_docs",
    "Scenic.C06.gen_docs_covered",
    "Scenic.C06.gen_table_wf",
    "Scenic.C06.gen_single_modifier_name",
    "Scenic.C06.gen_modifier_orders_all",
]

OT = "src/scenic/core/object_types.py"
SP = "src/scenic/core/specifiers.py"
VE = "src/scenic/syntax/veneer.py"
FINGERPRINTS = {
    "_resolveSpecifiers": (OT, "Constructible._resolveSpecifiers"),
    "__init_subclass__": (OT, "Constructible.__init_subclass__"),
    "_withSpecifiers": (OT, "Constructible._withSpecifiers"),
    "_prepareSpecifiers": (OT, "Constructible._prepareSpecifiers"),
    "_withProperties": (OT, "Constructible._withProperties"),
    "_override": (OT, "Constructible._override"),
    "OrientedPoint2D._prepareSpecifiers": (OT, "OrientedPoint2D._prepareSpecifiers"),
    "OrientedPoint2D.__init_subclass__": (OT, "OrientedPoint2D.__init_subclass__"),
    "Specifier": (SP, "Specifier"),
    "ModifyingSpecifier": (SP, "ModifyingSpecifier"),
    "PropertyDefault": (SP, "PropertyDefault"),
    "reference": ("docs/reference/specifiers.rst", None),
}
for _f in ("With", "At", "In", "ContainedIn", "On", "alwaysProvidesOrientation", "OffsetBy", "OffsetAlongSpec", "Beyond",
           "VisibleFrom", "VisibleSpec", "NotVisibleFrom", "NotVisibleSpec", "LeftSpec", "RightSpec", "Ahead", "Behind",
           "Above", "Below", "directionalSpecHelper", "Following", "Facing", "FacingToward", "FacingDirectlyToward",
           "FacingAwayFrom", "FacingDirectlyAwayFrom", "ApparentlyFacing", "new"):
    FINGERPRINTS["veneer." + _f] = (VE, _f)

ERR_PATTERNS = [
    ("dupName", re.compile(r"Cannot use .* specifier to modify itself")),
    ("finalProp", re.compile(r"cannot be directly specified")),
    ("tie", re.compile(r"specified twice with the same priority")),
    ("modifiedTwice", re.compile(r"modified twice")),
    ("cycle", re.compile(r"depends on itself")),
    ("missingDep", re.compile(r"is not specified")),
]
STAGE = {"dupName": 1, "finalProp": 2, "tie": 2, "modifiedTwice": 3, "finalPropMod": 3, "cycle": 4, "missingDep": 4}
# the error message by which a defect of the reference is reported
REPORTED_AS = {"finalPropMod": "finalProp"}


# =========================================================================== descriptors
def san(s):
    s = s.replace(" ", "+")
    return re.sub(r"[|;,=:@\s\[\]]", lambda m: "%%%02x" % ord(m.group(0)), s)


def desc_of(spec):
    from scenic.core.specifiers import ModifyingSpecifier
    mod = isinstance(spec, ModifyingSpecifier)
    return {"name": spec.name, "prios": [[p, int(k)] for p, k in spec.priorities.items()],
            "deps": list(spec.requiredProperties), "mod": mod,
            "modifiable": sorted(getattr(spec, "modifiable_props", ())) if mod else []}


def class_desc(cls):
    return {"defaults": [[p, list(s.requiredProperties)] for p, s in cls._defaults.items()],
            "finals": sorted(cls._finalProperties)}


def jl(xs, sep=","):
    xs = list(xs)
    return sep.join(xs) if xs else "-"


def spec_token(d):
    if any(k < 0 for _, k in d["prios"]):
        return None
    return "|".join([san(d["name"]), jl(f"{san(p)}={k}" for p, k in d["prios"]), jl(map(san, d["deps"])),
                     "M" if d["mod"] else "N", jl(map(san, d["modifiable"]))])


def class_token(ci, sampled=None):
    return (_class_token(ci) + "|" + jl(map(san, sampled))) if sampled else _class_token(ci)


def _class_token(ci):
    return jl((f"{san(p)}:{jl(map(san, deps)) if deps else ''}" for p, deps in ci["defaults"]), ";") + "|" + jl(map(san, ci["finals"]))


def parse_map(s):
    if s == "-":
        return {}
    return dict(e.split("=", 1) for e in s.split(","))


def parse_lean(out):
    """-> ('ok', assign, modifier, trace, final) | ('err', kind) | ('bad', text);
    final = {property: producer of its value} after the evaluation loop, or the text of the model's evaluation error"""
    ws = out.split(" ")
    if ws[0] == "ok" and len(ws) == 6:
        trace = []
        if ws[3] != "-":
            for e in ws[3].split(";"):
                node, props = e[:-1].split("[", 1)
                trace.append((node, [p for p in props.split(",") if p]))
        final = ws[4] if ws[4].startswith("evalerr:") else parse_map(ws[4])
        return ("ok", parse_map(ws[1]), parse_map(ws[2]), trace, final, sorted(p for p in ws[5].split(",") if p != "-"))
    if ws[0] == "err" and len(ws) == 2:
        return ("err", ws[1])
    return ("bad", out)


# =========================================================================== hooks on the real code
class Abort(Exception):
    """raised by the dry-run hook once `_resolveSpecifiers` has returned"""


class Tag:
    __slots__ = ("spec", "prop")

    def __init__(self, spec, prop):
        self.spec, self.prop = spec, prop


class Hooks:
    """Class-level wrappers around Constructible._withSpecifiers / _resolveSpecifiers / _specify and
    Specifier.getValuesFor.  They only observe (and, in dry mode, replace the *value computation* of the
    specifiers by tags); the resolution code under test runs unchanged."""

    def __init__(self):
        self.installed = False
        self.armed = None      # dict describing the case being recorded
        self.pending = None    # a case armed by the next call of veneer.new (syntax path)
        self.depth = 0
        self.records = []

    def install(self):
        if self.installed:
            return
        from scenic.core.object_types import Constructible
        from scenic.core.specifiers import Specifier
        H = self
        self.Constructible, self.Specifier = Constructible, Specifier
        self.orig_ws = Constructible.__dict__["_withSpecifiers"]
        self.orig_rs = Constructible.__dict__["_resolveSpecifiers"]
        self.orig_sp = Constructible.__dict__["_specify"]
        self.orig_gv = Specifier.__dict__["getValuesFor"]
        ws, rs, sp, gv = self.orig_ws.__func__, self.orig_rs.__func__, self.orig_sp.__func__, self.orig_gv

        def with_specifiers(cls, specifiers, constProps=None, register=True):
            if H.armed is None or H.depth > 0:
                return ws(cls, specifiers, constProps=constProps, register=register)
            specifiers = list(specifiers)
            rec = H.armed
            rec.update(cls=cls.__name__, raw=[desc_of(s) for s in specifiers], events=[], depviol=[], outcome=None)
            H.depth = 1
            try:
                obj = ws(cls, specifiers, constProps=constProps, register=register)
                rec["obj"] = obj
                if rec["outcome"] is None:
                    rec["outcome"] = ("noresolve",)
                return obj
            except Abort:
                return None
            except BaseException as e:  # recorded, and swallowed so that the generated program goes on
                rec["exception"] = (type(e).__name__, str(e)[:300])
                if rec["outcome"] is None or rec["outcome"][0] == "pending":
                    rec["outcome"] = classify_exception(e)
                else:
                    rec["late_exception"] = (type(e).__name__, str(e)[:300])
                return None
            finally:
                H.depth = 0
                H.armed = None
                H.records.append(rec)

        def resolve_specifiers(cls, specifiers, defaults=None, overriding=False):
            if H.armed is None or H.depth != 1 or defaults is not None:
                return rs(cls, specifiers, defaults=defaults, overriding=overriding)
            rec = H.armed
            specifiers = list(specifiers)
            rec["prepared"] = [desc_of(s) for s in specifiers]
            rec["classinfo"] = class_desc(cls)
            ids = {id(s): "u:" + san(s.name) for s in specifiers}
            for p, s in cls._defaults.items():
                ids[id(s)] = "d:" + san(p)
            rec["_ids"] = ids
            rec["outcome"] = ("pending",)
            H.depth = 2
            swapped = []
            if rec["dry"]:
                for k in cls.__mro__:
                    if k is not Constructible and "_specify" in k.__dict__:
                        swapped.append((k, k.__dict__["_specify"]))
                        setattr(k, "_specify", Constructible.__dict__["_specify"])
            try:
                props, consts = rs(cls, specifiers, defaults=defaults, overriding=overriding)
            finally:
                H.depth = 1
                for k, f in swapped:
                    setattr(k, "_specify", f)
            rec["outcome"] = ("ok",)
            rec["final"] = {p: (v.spec if isinstance(v, Tag) else None) for p, v in props.items()}
            from scenic.core.distributions import needsSampling
            rec["consts"] = sorted(san(p) for p in consts)
            rec["sampled"] = sorted(p for p, v in props.items() if needsSampling(v))
            if rec["dry"]:
                raise Abort()
            return props, consts

        def get_values_for(self, obj):
            if H.depth != 2:
                return gv(self, obj)
            rec = H.armed
            rec["events"].append(("eval", id(self)))
            missing = [d for d in self.requiredProperties if not hasattr(obj, d)]
            if missing:
                rec["depviol"].append((id(self), missing))
            if rec["dry"]:
                return {p: Tag(id(self), p) for p in self.priorities}
            return gv(self, obj)

        def specify(cls, context, prop, value):
            if H.depth != 2:
                return sp(cls, context, prop, value)
            rec = H.armed
            rec["events"].append(("set", prop))
            if rec["dry"]:
                object.__setattr__(context, prop, value)
                return None
            return sp(cls, context, prop, value)

        import scenic.syntax.veneer as veneer
        self.veneer = veneer
        self.orig_new = veneer.new
        orig_new = veneer.new

        def new(cls, specifiers):
            if H.pending is not None and H.armed is None and H.depth == 0:
                H.armed, H.pending = H.pending, None
            return orig_new(cls, specifiers)
        veneer.new = new

        Constructible._withSpecifiers = classmethod(with_specifiers)
        Constructible._resolveSpecifiers = classmethod(resolve_specifiers)
        Constructible._specify = classmethod(specify)
        Specifier.getValuesFor = get_values_for
        self.installed = True

    def uninstall(self):
        if not self.installed:
            return
        self.Constructible._withSpecifiers = self.orig_ws
        self.Constructible._resolveSpecifiers = self.orig_rs
        self.Constructible._specify = self.orig_sp
        self.Specifier.getValuesFor = self.orig_gv
        self.veneer.new = self.orig_new
        self.installed = False

    def arm(self, **info):
        self.armed = dict(info)


HOOKS = Hooks()


def classify_exception(e):
    from scenic.core.errors import SpecifierError
    msg = str(e)
    if isinstance(e, SpecifierError):
        for kind, pat in ERR_PATTERNS:
            if pat.search(msg):
                return ("err", kind, "SpecifierError", msg[:200])
        return ("err", "?", "SpecifierError", msg[:200])
    return ("crash", type(e).__name__, msg[:200])


def finish_record(rec):
    """events -> trace / setters / assign / modifier (as node names)"""
    ids = rec.pop("_ids", {})
    rec.pop("obj", None)
    trace, cur = [], None
    for ev in rec.get("events", []):
        if ev[0] == "eval":
            cur = (ids.get(ev[1], "?:%x" % ev[1]), [])
            trace.append(cur)
        elif cur is not None:
            cur[1].append(san(ev[1]))
    rec["trace"] = trace
    setters = {}
    for node, props in trace:
        for p in props:
            setters.setdefault(p, []).append(node)
    # the first specifier to set a property is its specifier, the second its modifier (the oracle checks this
    # reading against the reference, and reports a modifier that ran first as such)
    rec["setters"] = setters
    rec["assign"] = {p: ns[0] for p, ns in setters.items()}
    rec["modifier"] = {p: ns[1] for p, ns in setters.items() if len(ns) > 1}
    rec["set_thrice"] = [(p, ns) for p, ns in setters.items() if len(ns) > 2]
    rec["depviol"] = [(ids.get(i, "?"), m) for i, m in rec.get("depviol", [])]
    if rec.get("final"):
        rec["final"] = {san(p): ids.get(s) for p, s in rec["final"].items()}
    rec.pop("events", None)
    return rec


# =========================================================================== declarative reference (S)
def reference(ci, specs):
    """What the reference manual says should happen, computed from descriptors only.
    -> (defects:set, full:bool, expected or None); expected = (assign, modifier, edges, nodes).
    Defects of an earlier phase hide the later ones (duplicate names < final property / tie < modified twice <
    cycle / missing dependency): `full` says whether the last phase was looked at.
    Several modifying specifiers (which no Scenic program can write) are taken in the order of the list."""
    finals = set(ci["finals"])
    defects = set()
    names = [s["name"] for s in specs]
    if len(set(names)) < len(names):
        defects.add("dupName")
    normal = [s for s in specs if not s["mod"]]
    mods = [s for s in specs if s["mod"]]
    # whatever the kind of specifier, a final property may not be specified: the defect belongs to the pass that
    # looks at the specifier (normal specifiers: phase 2; modifying specifiers: phase 3, with "modified twice")
    for s in normal:
        for p, k in s["prios"]:
            if p in finals:
                defects.add("finalProp")
    cnt = collections.Counter((p, k) for s in normal for p, k in s["prios"])
    if any(v > 1 for v in cnt.values()):
        defects.add("tie")
    if defects:
        return defects, False, None
    best = {}
    for s in normal:
        for p, k in s["prios"]:
            if p not in best or k < best[p][1]:
                best[p] = ("u:" + san(s["name"]), k)
    modifier = {}
    phase3 = set()
    if any(p in finals for m in mods for p, _ in m["prios"]):
        phase3.add("finalPropMod")
    for m in mods:
        for p, k in m["prios"]:
            if p not in best or k < best[p][1]:
                best[p] = ("u:" + san(m["name"]), k)
            elif p in m["modifiable"]:
                if san(p) in modifier:
                    phase3.add("modifiedTwice")
                modifier[san(p)] = "u:" + san(m["name"])
    if phase3:
        return phase3, False, None
    assign = {san(p): n for p, (n, _) in best.items()}
    deps = {"u:" + san(s["name"]): s["deps"] for s in specs}
    nodes = ["u:" + san(s["name"]) for s in specs]
    for p, d in ci["defaults"]:
        if p not in best:
            assign[san(p)] = "d:" + san(p)
            deps["d:" + san(p)] = d
            nodes.append("d:" + san(p))
    edges = collections.defaultdict(set)
    for n in nodes:
        for dep in deps[n]:
            fin = modifier.get(san(dep)) or assign.get(san(dep))
            if fin is None:
                defects.add("missingDep")
            else:
                edges[n].add(fin)
    for p, m in modifier.items():
        edges[m].add(assign[p])
    # cycle detection
    state = {}

    def visit(n):
        stack = [(n, iter(sorted(edges[n])))]
        state[n] = 1
        while stack:
            node, it = stack[-1]
            for c in it:
                if state.get(c) == 1:
                    return True
                if c not in state:
                    state[c] = 1
                    stack.append((c, iter(sorted(edges[c]))))
                    break
            else:
                state[node] = 2
                stack.pop()
        return False
    for n in nodes:
        if n not in state and visit(n):
            defects.add("cycle")
            break
    return defects, True, (assign, modifier, edges, nodes)


def oracle(ctx, rec, specs, replay):
    """The property on the real outcome.  Returns True if a violation was reported."""
    ci = rec["classinfo"]
    defects, full, exp = reference(ci, specs)
    out = rec["outcome"]
    tagk = rec.get("keytag", "")
    found = False

    def viol(key, what):
        nonlocal found
        if ctx.violation(key + tagk, what + f" [class {rec['cls']}, specifiers {[s['name'] for s in specs]}]", replay):
            found = True

    if out[0] == "crash":
        viol(f"crash:{out[1]}", f"specifier resolution raised {out[1]} (not a SpecifierError): {out[2]}")
        return found
    if out[0] == "ok":
        for k in sorted(defects, key=lambda d: (STAGE[d], d)):
            viol(f"unreported:{k}", f"defect `{k}` present but the object was created")
        if rec["depviol"]:
            n, miss = rec["depviol"][0]
            viol("evaluated-before-dependency", f"specifier {n} evaluated before {miss} had a value")
        if rec["set_thrice"]:
            viol("specified-thrice", f"a property was set three times: {rec['set_thrice'][:3]}")
        if full and not defects:
            assign, modifier, edges, nodes = exp
            pos = {n: i for i, (n, _) in enumerate(rec["trace"])}
            # a modifier that ran before the specifier whose value it modifies
            early = [(p, m) for p, m in modifier.items() if rec["setters"].get(p) == [m, assign[p]]]
            if early:
                p, m = early[0]
                viol("evaluation-order", f"{m} modifies {p} but was evaluated before {assign[p]}, which specifies it")
            elif rec["assign"] != assign:
                diff = {p: (rec["assign"].get(p), assign.get(p)) for p in set(assign) | set(rec["assign"]) if rec["assign"].get(p) != assign.get(p)}
                viol("wrong-winner", f"property -> specifier differs from the reference (real, expected): {dict(list(diff.items())[:4])}")
            elif rec["modifier"] != modifier:
                viol("wrong-modifier", f"modifier differs: real {rec['modifier']} expected {modifier}")
            if sorted(pos) != sorted(nodes) or len(pos) != len(rec["trace"]):
                viol("evaluated-set", f"specifiers evaluated {sorted(pos)[:8]}... expected {sorted(nodes)[:8]}...")
            else:
                for n, cs in edges.items():
                    bad = sorted(c for c in cs if not pos[c] < pos[n])
                    if bad:
                        viol("evaluation-order", f"{n} evaluated before {bad[0]}, whose value it needs")
                        break
            if rec.get("consts") is not None:
                # constProps = the properties that fell back to the class default (no specifier names them), minus
                # those whose value is random
                named = {san(p) for s_ in specs for p, _ in s_["prios"]}
                wantc = sorted({san(p) for p, _ in ci["defaults"]} - named - {san(p) for p in rec.get("sampled", [])})
                if rec["consts"] != wantc:
                    viol("wrong-constProps", f"constProps {rec['consts']}, expected the defaulted non-random properties {wantc}")
                else:
                    ctx.hist("constProps_checked", "with-random-defaults" if rec.get("sampled") else "all-constant")
            if rec.get("final") is not None and rec["dry"]:
                # the value of every property of the new object is the one produced by its modifier, else its specifier
                want = {p: modifier.get(p) or n for p, n in assign.items()}
                if rec["final"] != want:
                    d = {p: (rec["final"].get(p), want.get(p)) for p in set(want) | set(rec["final"]) if rec["final"].get(p) != want.get(p)}
                    viol("final-value", f"final values come from (real, expected): {dict(list(d.items())[:4])}")
        return found
    if out[0] == "err":
        kind = out[1]
        if kind == "?":
            ctx.hist("unrecognised_error_message", out[3][:40])
        elif not defects:
            if full:
                viol("spurious-error", f"no defect present but resolution failed: {out[3]}")
        else:
            first = min(STAGE[d] for d in defects)
            mine = [d for d in defects if REPORTED_AS.get(d, d) == kind]
            if not mine:
                viol(f"wrong-error:{kind}", f"error `{out[3]}` but no such defect is present (present: {sorted(defects)})")
            elif min(STAGE[d] for d in mine) != first:
                viol(f"masked-error:{kind}", f"reported {kind} although {sorted(defects)} present")
    return found


def signature(rec):
    out = rec["outcome"]
    if out[0] == "ok":
        return ("ok", tuple(sorted(rec["assign"].items())), tuple(sorted(rec["modifier"].items())))
    if out[0] == "err":
        return ("err", STAGE.get(out[1], out[1]))
    return out[:2]


def order_independent(specs):
    """the hypothesis of `resolve_perm_invariant`: at most one modifying specifier (any list a Scenic program can
    write: `on` is the only modifying specifier, theorem `builtin_single_modifier`)"""
    return sum(1 for s in specs if s["mod"]) <= 1


# =========================================================================== Lean correspondence
def compare_with_lean(ctx, rec, lean_out, line, label):
    """model vs real outcome; returns True on disagreement"""
    lo = parse_lean(lean_out)
    out = rec["outcome"]
    bad = None
    if lo[0] == "bad":
        bad = f"driver said {lean_out[:80]}"
    elif out[0] == "ok":
        if lo[0] != "ok":
            bad = f"model: {lean_out[:60]}; real: object created"
        else:
            _, la, lm, lt, lf, lc = lo
            ln = {n: sorted(ps) for n, ps in lt}
            rn = {n: sorted(ps) for n, ps in rec["trace"]}
            if la != rec["assign"]:
                d = {p: (la.get(p), rec["assign"].get(p)) for p in set(la) | set(rec["assign"]) if la.get(p) != rec["assign"].get(p)}
                bad = f"assignment differs (model, real): {dict(list(d.items())[:4])}"
            elif lm != rec["modifier"]:
                bad = f"modifier differs: model {lm} real {rec['modifier']}"
            elif ln != rn:
                d = [n for n in set(ln) | set(rn) if ln.get(n) != rn.get(n)]
                bad = f"evaluated specifiers / properties set differ at {d[:4]}"
            elif isinstance(lf, str):
                bad = f"the model's evaluation loop failed ({lf}); the real one created the object"
            elif rec.get("final") is not None and rec["dry"] and lf != rec["final"]:
                d = {p: (lf.get(p), rec["final"].get(p)) for p in set(lf) | set(rec["final"]) if lf.get(p) != rec["final"].get(p)}
                bad = f"final context differs (model, real): {dict(list(d.items())[:4])}"
            elif rec.get("consts") is not None and lc != rec["consts"]:
                bad = f"constProps differ: model {lc} real {rec['consts']} (sampled: {rec.get('sampled')})"
            else:
                ctx.hist("order_exactly_as_model", [n for n, _ in lt] == [n for n, _ in rec["trace"]])
    elif out[0] == "err":
        if lo[0] != "err":
            bad = f"model: ok; real: {out[3][:80]}"
        elif out[1] != "?" and lo[1] != out[1]:
            bad = f"model error {lo[1]}; real error {out[1]} ({out[3][:60]})"
    elif out[0] == "crash":
        bad = f"model: {lean_out[:60]}; real: {out[1]}: {out[2][:80]}"
    else:
        bad = f"real outcome {out}"
    if bad:
        n = ctx.extra.setdefault("_nbad", collections.Counter())
        n[label] += 1
        if n[label] <= 3:
            ctx.broken("correspondence", f"resolve model vs _resolveSpecifiers ({label})", f"{bad}  <<{line[:400]}>>")
        return True
    return False


def bud(ctx, quick, thorough):
    """budget of the current pass: when the budgets are escalated (thorough tier or changed fingerprint) a
    first pass over all streams runs with the quick budgets, so that a failing input is usually found fast"""
    if ctx.extra.get("_pass") == "quick":
        return quick
    return ctx.budget(quick, thorough)


def allowance(ctx, share):
    """wall-clock allowance (seconds) of one stream of the *escalated* pass in the quick tier, None = no limit.
    A changed fingerprint or a lost translator tie escalates the budgets to the thorough ones; in the quick tier
    that second pass is time-boxed (VERIF_C06_ESC_SECONDS, default 120 s for all streams together): the quick
    pass has already run completely, the escalated pass explores further cases (in a shuffled order) until the
    time is up.  A cut-off only means fewer extra cases (recorded in the notes), never a violation."""
    if ctx.tier != "quick" or not ctx.extra.get("_esc") or ctx.extra.get("_pass") != "full":
        return None
    return float(os.environ.get("VERIF_C06_ESC_SECONDS", "120")) * share


def par_driver(ctx, lines, k=3):
    """the Lean driver on several chunks concurrently (it is a separate process per chunk)"""
    if len(lines) < 2000:
        return ctx.driver(lines)
    from concurrent.futures import ThreadPoolExecutor
    n = (len(lines) + k - 1) // k
    chunks = [lines[i:i + n] for i in range(0, len(lines), n)]
    with ThreadPoolExecutor(max_workers=k) as ex:
        outs = list(ex.map(ctx.driver, chunks))
    return [o for chunk in outs for o in chunk]


# =========================================================================== synthetic stream
def make_synthetic_case(rng, idx):
    """A small class and a list of specifier descriptors over a tiny property alphabet."""
    nprops = rng.choice([2, 3, 3, 4, 5])
    props = ["a", "b", "c", "d", "e"][:nprops]
    extra = ["x"]  # a property nobody may provide
    defaults, finals = [], []
    for p in props:
        r = rng.random()
        if r < 0.6:
            deps = sorted(rng.sample([q for q in props if q != p], k=min(len(props) - 1, rng.choice([0, 0, 0, 1, 1, 2]))))
            if rng.random() < 0.04:
                deps.append("x")
            fin = rng.random() < 0.12
            defaults.append((p, deps, fin))
            if fin:
                finals.append(p)
    nspec = rng.choice([0, 1, 2, 2, 3, 3, 3, 4, 4, 5])
    specs = []
    nmod = 0
    pool = ["S0", "S1", "S2", "S3", "S4", "S5"]
    rng.shuffle(pool)
    dupnames = rng.random() < 0.08
    for i in range(nspec):
        name = rng.choice(pool[:3]) if dupnames else pool[i]
        k = rng.choice([1, 1, 2, 2, 3])
        ps = rng.sample(props, k=min(len(props), k))
        prios = [[p, rng.choice([1, 1, 2, 3, 4, 5])] for p in ps]
        cand = [q for q in props + (extra if rng.random() < 0.05 else []) if q not in ps]
        deps = sorted(rng.sample(cand, k=min(len(cand), rng.choice([0, 0, 1, 1, 2]))))
        mod = rng.random() < (0.22 if nmod == 0 else 0.06)
        nmod += mod
        modifiable = sorted(p for p in ps if rng.random() < 0.7) if mod else []
        specs.append({"name": name, "prios": prios, "deps": deps, "mod": mod, "modifiable": modifiable})
    rnd = sorted(p for p, _, _ in defaults if rng.random() < 0.2)
    return {"kind": "synthetic", "defaults": defaults, "specs": specs, "random": rnd}


def build_synthetic(case):
    from scenic.core.lazy_eval import DelayedArgument
    from scenic.core.object_types import Constructible
    from scenic.core.specifiers import ModifyingSpecifier, PropertyDefault, Specifier
    from scenic.core.distributions import Range
    props = {}
    rnd = set(case.get("random", ()))
    for p, deps, fin in case["defaults"]:
        props[p] = PropertyDefault(set(deps), {"final"} if fin else set(),
                                   (lambda p: (lambda self: Range(0, 1) if p in rnd else ("default", p)))(p))
    cls = type("SynthC06", (Constructible,), {"_scenic_properties": props})
    specs = []
    for d in case["specs"]:
        vals = {p: ("val", d["name"], p) for p, _ in d["prios"]}
        value = DelayedArgument(set(d["deps"]), (lambda v: (lambda ctx: dict(v)))(vals), _internal=True) if d["deps"] else vals
        pr = {p: k for p, k in d["prios"]}
        if d["mod"]:
            specs.append(ModifyingSpecifier(d["name"], pr, value, modifiable_props=set(d["modifiable"])))
        else:
            specs.append(Specifier(d["name"], pr, value))
    return cls, specs


def run_synthetic_case(case, perm=None):
    cls, specs = build_synthetic(case)
    if perm is not None:
        specs = [specs[i] for i in perm]
    HOOKS.arm(dry=False, src="synthetic")
    cls._withSpecifiers(specs, register=False)
    rec = finish_record(HOOKS.records.pop())
    return rec


def _sp(name, prios, deps=(), mod=False, modifiable=()):
    return {"name": name, "prios": [list(pk) for pk in prios], "deps": sorted(deps), "mod": mod, "modifiable": sorted(modifiable)}


# Inputs of defects that were repaired in /repo (and a few boundary shapes): run first, in every order.
REGRESSION_CASES = [
    # 9d666edb: ties per priority level, whatever the order ([p3,p1,p3] was accepted)
    {"kind": "synthetic", "label": "tie-p3-p1-p3", "defaults": [("a", [], False)],
     "specs": [_sp("S0", [("a", 3)]), _sp("S1", [("a", 1)]), _sp("S2", [("a", 3)])]},
    # c434d71a: "modified twice" must be a SpecifierError
    {"kind": "synthetic", "label": "modified-twice", "defaults": [("a", [], False)],
     "specs": [_sp("S0", [("a", 1)]), _sp("S1", [("a", 2)], mod=True, modifiable=["a"]), _sp("S2", [("a", 3)], mod=True, modifiable=["a"])]},
    # fe083d88: a modifying specifier runs after the specifiers of *all* the properties it modifies ...
    {"kind": "synthetic", "label": "multi-modifiable-order", "defaults": [],
     "specs": [_sp("S1", [("a", 1), ("b", 1), ("c", 3)], mod=True, modifiable=["a", "b", "c"]), _sp("S5", [("c", 1)]), _sp("S0", [("b", 1)])]},
    # ... and a cycle through a modified property other than the last one is reported
    {"kind": "synthetic", "label": "multi-modifiable-cycle", "defaults": [("c", ["b"], False)],
     "specs": [_sp("S5", [("c", 1)]), _sp("S0", [("b", 1)], deps=["a"]), _sp("S1", [("a", 1), ("b", 1), ("c", 3)], mod=True, modifiable=["a", "b", "c"])]},
    # a dependency on a modified property is a dependency on the modifier
    {"kind": "synthetic", "label": "dep-on-modified", "defaults": [("d", ["a"], False)],
     "specs": [_sp("S0", [("a", 1)]), _sp("S1", [("a", 1), ("b", 2)], mod=True, modifiable=["a"]), _sp("S2", [("c", 1)], deps=["a", "b"])]},
    # a modifying specifier of strictly higher priority specifies instead of modifying; of lower priority and
    # not allowed to modify: yields silently
    {"kind": "synthetic", "label": "modifier-overrides", "defaults": [("a", [], False), ("b", [], False)],
     "specs": [_sp("S0", [("a", 2), ("b", 1)]), _sp("S1", [("a", 1), ("b", 2)], mod=True, modifiable=[])]},
    # final properties: specified by a normal specifier / default depending on a final / cycle among defaults
    {"kind": "synthetic", "label": "final-normal", "defaults": [("a", [], True), ("b", ["a"], False)],
     "specs": [_sp("S0", [("a", 1)]), _sp("S1", [("b", 1)])]},
    # 5766576b: a final property named by a modifying specifier is refused too (alone, and next to a normal specifier)
    {"kind": "synthetic", "label": "final-modifying", "defaults": [("a", [], True), ("b", [], False)],
     "specs": [_sp("S1", [("b", 1), ("a", 2)], mod=True, modifiable=["b"])]},
    {"kind": "synthetic", "label": "final-modifying-after-normal", "defaults": [("a", [], True), ("b", [], False)],
     "specs": [_sp("S0", [("b", 1)]), _sp("S1", [("b", 1), ("a", 2)], mod=True, modifiable=["b"])]},
    {"kind": "synthetic", "label": "default-cycle", "defaults": [("a", ["b"], False), ("b", ["a"], False)],
     "specs": [_sp("S0", [("c", 1)])]},
    {"kind": "synthetic", "label": "default-cycle-broken-by-specifier", "defaults": [("a", ["b"], False), ("b", ["a"], False)],
     "specs": [_sp("S0", [("a", 1)])]},
    {"kind": "synthetic", "label": "missing-dep", "defaults": [("a", ["x"], False)], "specs": [_sp("S0", [("b", 1)], deps=["x"])]},
    {"kind": "synthetic", "label": "dup-name-and-tie", "defaults": [("a", [], False)],
     "specs": [_sp("S0", [("a", 1)]), _sp("S0", [("a", 1)]), _sp("S1", [("b", 1)], deps=["x"])]},
]


def run_group(ctx, case, perms, lines, recs):
    """one synthetic case in several orders: the property on each outcome, then order independence.
    -> found"""
    found = False
    k = len(case["specs"])
    group = []
    for perm in perms:
        try:
            rec = run_synthetic_case(case, perm)
        except Exception as e:  # construction-time refusals (e.g. a specifier depending on its own property)
            ctx.hist("synthetic_construction", type(e).__name__)
            break
        if "prepared" not in rec:
            ctx.hist("synthetic_construction", "no-resolution")
            break
        specs = rec["prepared"]
        replay = {"kind": "synthetic", "case": case, "perm": list(perm)}
        ctx.case(("syn", case["defaults"], case.get("random", []), [case["specs"][j] for j in perm]), nontrivial=k >= 1)
        ctx.hist("synthetic_outcome", rec["outcome"][0] + (":" + rec["outcome"][1] if rec["outcome"][0] != "ok" else ""))
        ctx.hist("synthetic_nspecs", k)
        ctx.hist("synthetic_nmodifying", sum(1 for s in specs if s["mod"]))
        if any(s["mod"] and len(s["modifiable"]) > 1 for s in specs):
            ctx.hist("synthetic_shape", "modifier-of-several-properties")
        found |= oracle(ctx, rec, specs, replay)
        group.append((perm, rec))
        lines.append("C06 resolve 3 " + class_token(rec["classinfo"], rec.get("sampled")) + " " + " ".join(spec_token(s) for s in specs))
        recs.append(rec)
    # order independence (hypothesis of the theorem: at most one modifying specifier)
    if group and order_independent(group[0][1]["prepared"]):
        sigs = {}
        for perm, rec in group:
            sigs.setdefault(signature(rec), perm)
        if len(sigs) > 1:
            (s1, p1), (s2, p2) = list(sigs.items())[:2]
            if ctx.violation("order-dependence:synthetic",
                             f"outcome depends on the order of the specifiers: order {p1} -> {s1[:2]}, order {p2} -> {s2[:2]}",
                             {"kind": "synthetic", "case": case, "perm": list(p1), "perm2": list(p2)}):
                found = True
    elif group:
        ctx.hist("synthetic_perm_check", "skipped:several-modifying-specifiers")
    return found


def synthetic_stream(ctx, use_lean):
    rng = ctx.rng
    n = bud(ctx, 2000, 20000)
    found = False
    lines, recs = [], []
    HOOKS.install()
    try:
        for case in REGRESSION_CASES:
            case = json.loads(json.dumps(case))
            found |= run_group(ctx, case, list(itertools.permutations(range(len(case["specs"])))), lines, recs)
        allow, t0 = allowance(ctx, 0.2), time.time()
        for i in range(n):
            if allow is not None and time.time() - t0 > allow:
                ctx.notes.append(f"escalated synthetic stream cut off by the quick-tier time box after {i} of {n} cases")
                break
            case = make_synthetic_case(rng, i)
            k = len(case["specs"])
            perms = list(itertools.permutations(range(k))) if k <= 3 else [tuple(range(k))] + [tuple(rng.sample(range(k), k)) for _ in range(5)]
            found |= run_group(ctx, case, perms, lines, recs)
    finally:
        HOOKS.uninstall()
    if use_lean and lines:
        outs = par_driver(ctx, lines)
        for line, out, rec in zip(lines, outs, recs):
            compare_with_lean(ctx, rec, out, line, "synthetic")
    return found


# =========================================================================== `_override` stream
OV_PROPS = ["a", "b", "c", "d", "behavior"]


def make_override_case(rng):
    """an object with properties a-d + behavior (some dynamic, some final) and a list of overriding specifiers;
    occasionally a specifier names a property the object does not have"""
    attrs = {p: rng.choice(["", "", "", "dynamic", "final"]) for p in OV_PROPS[:4]}
    specs = []
    pool = ["S0", "S1", "S2", "S3"]
    nmod = 0
    for i in range(rng.choice([0, 1, 1, 2, 2, 3])):
        ps = rng.sample(OV_PROPS[:4] + (["zz"] if rng.random() < 0.06 else []), k=rng.choice([1, 1, 2]))
        mod = nmod == 0 and rng.random() < 0.2
        nmod += mod
        specs.append(_sp(pool[i] if rng.random() > 0.04 else "S0", [(q, rng.choice([1, 1, 2, 3])) for q in ps], mod=mod,
                         modifiable=[q for q in ps if rng.random() < 0.7] if mod else []))
    return {"kind": "override", "attrs": attrs, "specs": specs}


def run_override_case(case, perm):
    """-> (outcome, classinfo, dyn, props): outcome = ('ok', {prop: producer}) | ('refused', kind) | ('err', kind, ...) | ('crash', ...)"""
    from scenic.core.object_types import Constructible
    from scenic.core.specifiers import ModifyingSpecifier, PropertyDefault, Specifier
    from scenic.core.errors import SpecifierError
    props = {}
    for p in OV_PROPS:
        a = case["attrs"].get(p, "")
        props[p] = PropertyDefault(set(), {a} if a else set(), (lambda p: (lambda self: None if p == "behavior" else ("old", p)))(p))
    cls = type("OvC06", (Constructible,), {"_scenic_properties": props})
    obj = cls._withSpecifiers([], register=False)
    specs = []
    for j in perm:
        d = case["specs"][j]
        vals = {p: ("val", d["name"], p) for p, _ in d["prios"]}
        pr = {p: k for p, k in d["prios"]}
        specs.append(ModifyingSpecifier(d["name"], pr, vals, modifiable_props=set(d["modifiable"])) if d["mod"]
                     else Specifier(d["name"], pr, vals))
    old = {p: getattr(obj, p) for p in obj.properties}
    ci = {"defaults": [], "finals": sorted(cls._finalProperties)}
    dyn, plist = sorted(cls._dynamicProperties), list(obj.properties)
    try:
        obj._override(specs)
    except SpecifierError as e:
        msg = str(e)
        if "cannot override dynamic property" in msg:
            return ("refused", "dynamic"), ci, dyn, plist
        if "to override" in msg:
            return ("refused", "noprop"), ci, dyn, plist
        return classify_exception(e), ci, dyn, plist
    except Exception as e:
        return classify_exception(e), ci, dyn, plist
    fin = {}
    for p in obj.properties:
        v = getattr(obj, p)
        fin[p] = "d:" + p if v is old.get(p, object()) or v == old.get(p, object()) else ("u:" + v[1] if isinstance(v, tuple) and v[0] == "val" else "?")
    extra = sorted(set(obj.properties) ^ set(plist))
    return ("ok", fin, extra), ci, dyn, plist


def override_oracle(ctx, case, perm, out, dyn, plist):
    """the property on the real `_override`, no model"""
    specs = [case["specs"][j] for j in perm]
    named = {p for s_ in specs for p, _ in s_["prios"]}
    replay = {"kind": "override", "case": case, "perm": list(perm)}
    what = f" [override, attrs {case['attrs']}, specifiers {[(s_['name'], s_['prios']) for s_ in specs]}]"
    bad_named = sorted(p for p in named if p in dyn or p not in plist)
    finals = {p for p, a in case["attrs"].items() if a == "final"}
    if out[0] == "crash":
        return ctx.violation(f"override-crash:{out[1]}", f"_override raised {out[1]}: {out[2]}" + what, replay)
    if out[0] == "ok":
        if bad_named:
            return ctx.violation("override-unrefused", f"override of dynamic / unknown properties {bad_named} accepted" + what, replay)
        if named & finals:
            return ctx.violation("override-final", f"override of final properties {sorted(named & finals)} accepted" + what, replay)
        touched = sorted(p for p, w in out[1].items() if p not in named and w != "d:" + p)
        if touched or out[2]:
            return ctx.violation("override-touched-unnamed", f"properties not named by any specifier changed: {touched}; property set changed by {out[2]}" + what, replay)
        kept = sorted(p for p, w in out[1].items() if p in named and w == "d:" + p)
        if kept:
            return ctx.violation("override-ignored", f"named properties {kept} kept their old value" + what, replay)
    if out[0] == "refused" and not bad_named:
        return ctx.violation("override-spurious-refusal", f"refused ({out[1]}) although every named property is a non-dynamic property of the object" + what, replay)
    return False


def override_stream(ctx, use_lean):
    rng = ctx.rng
    n = bud(ctx, 400, 4000)
    found = False
    lines, outs_real = [], []
    allow, t0 = allowance(ctx, 0.1), time.time()
    for i in range(n):
        if allow is not None and time.time() - t0 > allow:
            break
        case = make_override_case(rng)
        k = len(case["specs"])
        sigs = {}
        for perm in itertools.permutations(range(k)):
            out, ci, dyn, plist = run_override_case(case, perm)
            ctx.case(("ov", sorted(case["attrs"].items()), [case["specs"][j] for j in perm]), nontrivial=k >= 1)
            ctx.hist("override_outcome", out[0] + (":" + str(out[1]) if out[0] != "ok" else ""))
            found |= bool(override_oracle(ctx, case, perm, out, dyn, plist))
            sigs.setdefault(("ok", tuple(sorted(out[1].items()))) if out[0] == "ok" else (out[0],), perm)
            toks = [spec_token(case["specs"][j]) for j in perm]
            lines.append("C06 override " + class_token(ci) + " " + jl(dyn) + " " + jl(plist) + " " + " ".join(toks))
            outs_real.append((out, case, perm))
        if len(sigs) > 1 and sum(1 for s_ in case["specs"] if s_["mod"]) <= 1:
            (s1, p1), (s2, p2) = list(sigs.items())[:2]
            if ctx.violation("order-dependence:override", f"outcome of _override depends on the order: {p1} -> {s1[0]}, {p2} -> {s2[0]} [{case}]",
                             {"kind": "override", "case": case, "perm": list(p1), "perm2": list(p2)}):
                found = True
    if use_lean and lines:
        for line, lo, (out, case, perm) in zip(lines, ctx.driver(lines), outs_real):
            ws = lo.split(" ")
            if out[0] == "ok":
                same = ws[0] == "ok" and len(ws) == 3 and parse_map(ws[1]) == out[1]
            elif out[0] == "refused":
                same = ws[0] == "refused"   # which of the two refusals comes first depends on the order: kind compared when equal lists
                same = same and (ws[1] == out[1])
            elif out[0] == "err":
                same = ws[0] == "err" and (out[1] == "?" or ws[1] == out[1])
            else:
                same = False
            if not same:
                nb = ctx.extra.setdefault("_nbad", collections.Counter())
                nb["override"] += 1
                if nb["override"] <= 3:
                    ctx.broken("correspondence", "override model vs Constructible._override", f"model `{lo[:120]}` real {out}  <<{line[:300]}>>")
    return found


# =========================================================================== class merging
def mro_decls(cls):
    """What __init_subclass__ reads: for each class of the MRO with `_scenic_properties`, its PropertyDefaults."""
    from scenic.core.object_types import Constructible
    from scenic.core.specifiers import PropertyDefault
    decls = []
    for i, sc in enumerate(cls.__mro__):
        if isinstance(sc, type) and issubclass(sc, Constructible) and hasattr(sc, "_scenic_properties"):
            ps = []
            for prop, value in sc._scenic_properties.items():
                d = PropertyDefault.forValue(value)
                ps.append((prop, sorted(d.requiredProperties), d.isAdditive, d.isDynamic, d.isFinal))
            decls.append((f"{sc.__name__}#{i}", ps))
    return decls


def decl_token(name, ps):
    return san(name) + "|" + jl((f"{san(p)}:{jl(map(san, deps)) if deps else ''}:{'a' if a else ''}{'d' if d else ''}{'f' if f else ''}"
                                 for p, deps, a, d, f in ps), ";")


def merge_line(decls):
    return "C06 merge " + " ".join(decl_token(n, ps) for n, ps in decls)


def compare_merge(ctx, label, decls, real, lean_out, check_sources=None):
    """real = None (class creation refused) | (defaults [(p, deps)], finals set, dynamics set)"""
    if lean_out == "err":
        model = None
    else:
        ws = lean_out.split(" ")
        if ws[0] != "ok" or len(ws) != 4:
            ctx.broken("correspondence", "mergeDefaults vs __init_subclass__", f"driver said {lean_out[:80]}")
            return True
        defs = []
        if ws[1] != "-":
            for e in ws[1].split(";"):
                p, deps, srcs = e.split(":")
                defs.append((p, [] if deps == "-" else deps.split(","), [] if srcs == "-" else srcs.split(",")))
        model = (defs, set() if ws[2] == "-" else set(ws[2].split(",")), set() if ws[3] == "-" else set(ws[3].split(",")))
    bad = None
    if (model is None) != (real is None):
        bad = f"model {'refuses' if model is None else 'accepts'}, real code {'refuses' if real is None else 'accepts'}"
    elif model is not None:
        md = [(p, d) for p, d, _ in model[0]]
        rd = [(san(p), [san(x) for x in d]) for p, d in real[0]]
        if md != rd:
            diff = [(a, b) for a, b in itertools.zip_longest(md, rd) if a != b][:3]
            bad = f"defaults differ (model, real): {diff}"
        elif model[1] != {san(x) for x in real[1]}:
            bad = f"finals differ: model {sorted(model[1])} real {sorted(real[1])}"
        elif model[2] != {san(x) for x in real[2]}:
            bad = f"dynamic properties differ: model {sorted(model[2])} real {sorted(real[2])}"
        elif check_sources is not None:
            ms = {p: s for p, _, s in model[0]}
            for p, srcs in check_sources.items():
                if ms.get(san(p)) != [san(x) for x in srcs]:
                    bad = f"default of {p} evaluates the expressions of {srcs}, model says {ms.get(san(p))}"
                    break
    if bad:
        c = ctx.extra.setdefault("_nbad", collections.Counter())
        c["merge"] += 1
        if c["merge"] <= 3:
            ctx.broken("correspondence", "mergeDefaults vs __init_subclass__", f"{label}: {bad} <<{merge_line(decls)[:300]}>>")
        return True
    return False


def real_merge(cls):
    return ([(p, list(s.requiredProperties)) for p, s in cls._defaults.items()], set(cls._finalProperties),
            set(cls._dynamicProperties))


def build_class(name, bases, ps):
    from scenic.core.specifiers import PropertyDefault
    d = {}
    for p, deps, add, dyn, fin in ps:
        attrs = set(a for a, on in (("additive", add), ("dynamic", dyn), ("final", fin)) if on)
        d[p] = PropertyDefault(set(deps), attrs, (lambda t: (lambda self: t))((name, p)))
    return type(name, bases, {"_scenic_properties": d})


HIERARCHY = {"single": ["K0"], "chain2": ["K0", "K1"], "chain3": ["K0", "K1", "K2"], "diamond": ["K0", "K1", "K2", "K3"]}


def hierarchy_bases(shape, j, classes):
    from scenic.core.object_types import Constructible
    order = HIERARCHY[shape]
    if shape == "diamond":
        return {0: (Constructible,), 1: (classes.get("K0"),), 2: (classes.get("K0"),), 3: (classes.get("K2"), classes.get("K1"))}[j]
    return (classes[order[j - 1]],) if j else (Constructible,)


def replay_merge(rep):
    from scenic.core.lazy_eval import LazilyEvaluable
    classes = {}
    try:
        for j, nme in enumerate(HIERARCHY[rep["shape"]]):
            classes[nme] = build_class(nme, hierarchy_bases(rep["shape"], j, classes), [tuple(x) for x in rep["spec"][nme]])
            print(f"class {nme}({', '.join(b.__name__ for b in classes[nme].__bases__)}): {rep['spec'][nme]}")
    except Exception as e:
        print(f"   creating {nme} raised {type(e).__name__}: {e}")
        return
    cls = classes[HIERARCHY[rep["shape"]][-1]]
    ctxobj = LazilyEvaluable.makeContext(**{x: 0 for x in ("p", "q", "r", "s")})
    for p, sp in cls._defaults.items():
        print(f"   default of {p}: depends on {sp.requiredProperties}, evaluates to {sp.getValuesFor(ctxobj)[p]}")
    print("   final:", sorted(cls._finalProperties), "dynamic:", sorted(cls._dynamicProperties))


def check_merge_case(ctx, shape, spec, props):
    """build the hierarchy `shape` with the per-class property definitions `spec`; the documented rules on the result.
    -> (found, item or None); item = (decls, real, sources) for the comparison with the model"""
    from scenic.core.errors import InvalidScenarioError, SpecifierError
    from scenic.core.lazy_eval import LazilyEvaluable
    found = False
    rep = {"kind": "merge", "shape": shape, "spec": spec, "props": list(props)}
    order = HIERARCHY[shape]
    classes = {}
    real, err = None, None
    err_at = None
    try:
        for j, nme in enumerate(order):
            bases = hierarchy_bases(shape, j, classes)
            err_at = nme
            classes[nme] = build_class(nme, bases, [tuple(x) for x in spec[nme]])
        cls = classes[order[-1]]
        real = real_merge(cls)
    except InvalidScenarioError:
        err = ("InvalidScenarioError", err_at)
    except SpecifierError:  # a dynamic property forced a resolution at class creation time and it failed
        ctx.hist("merge_case", "skipped:resolution-failed-at-class-creation")
        return False, None
    except Exception as e:
        if ctx.violation(f"class-creation-crash:{type(e).__name__}", f"class creation raised {type(e).__name__}: {e}", rep):
            found = True
        return found, None
    if err is not None:
        # the class whose creation failed: its MRO is the one being merged
        j = order.index(err[1])
        mro_names = {"single": [[0]], "chain2": [[0], [1, 0]], "chain3": [[0], [1, 0], [2, 1, 0]],
                     "diamond": [[0], [1, 0], [2, 0], [3, 2, 1, 0]]}[shape][j]
        decls = [(f"K{m}", [tuple(x) for x in spec[f"K{m}"]]) for m in mro_names]
    else:
        decls = [(sc.__name__, [tuple(x) for x in spec[sc.__name__]]) for sc in cls.__mro__ if sc.__name__ in spec]
    ctx.case(("merge", decls), nontrivial=len(decls) > 1)
    ctx.hist("merge_case", "refused" if real is None else "merged")
    sources = None
    if real is not None:
        # direct oracle: documented rules
        seen_first = {}
        for nme, ps in decls:
            for p, deps, add, dyn, fin in ps:
                seen_first.setdefault(p, []).append((nme, deps, add, dyn, fin))
        sources = {}
        for p, lst in seen_first.items():
            primary = lst[0]
            ctxobj = LazilyEvaluable.makeContext(**{x: 0 for x in props})
            val = cls._defaults[p].getValuesFor(ctxobj)[p]
            want = tuple((n, p) for n, *_ in lst) if primary[2] else (primary[0], p)
            sources[p] = [n for n, *_ in lst] if primary[2] else [primary[0]]
            if val != want:
                if ctx.violation("default-not-most-derived", f"default of {p} evaluates to {val}, expected {want}", rep):
                    found = True
            if (p in real[1]) != primary[4]:
                if ctx.violation("final-flag", f"finality of {p} is {p in real[1]}, most derived definition says {primary[4]}", rep):
                    found = True
            wdeps = sorted(set(primary[1]).union(*[set(d) for _, d, *_ in lst[1:]])) if primary[2] else sorted(primary[1])
            rdeps = dict(real[0]).get(p)
            if rdeps is not None and sorted(rdeps) != wdeps:
                if ctx.violation("default-dependencies", f"default of {p} depends on {sorted(rdeps)}, the definitions say {wdeps}", rep):
                    found = True
            if (p in real[2]) != any(d for _, _, _, d, _ in lst):
                if ctx.violation("dynamic-flag", f"{p} dynamic: {p in real[2]}, the definitions say {any(d for _, _, _, d, _ in lst)}", rep):
                    found = True
        missing = set(seen_first) - {p for p, _ in real[0]}
        extra = {p for p, _ in real[0]} - set(seen_first)
        if missing or extra:
            if ctx.violation("default-set", f"class defaults: missing {sorted(missing)}, unexpected {sorted(extra)}", rep):
                found = True
    else:
        # a refusal must be justified: some overridden definition is final
        just = False
        seen = {}
        for nme, ps in decls:
            for p, deps, add, dyn, fin in ps:
                if p in seen and fin:
                    just = True
                seen[p] = True
        if not just:
            if ctx.violation("spurious-class-error", "class creation refused although no final property is overridden", rep):
                found = True
    if real is not None:
        # the converse: an overridden final definition must have been refused
        seen = {}
        for nme, ps in decls:
            for p, deps, add, dyn, fin in ps:
                if p in seen and fin:
                    if ctx.violation("final-overridden", f"{p} is final in {nme} but a more derived class overrides it and the class was created", rep):
                        found = True
                seen[p] = True
    return found, (decls, real, sources)


def synthetic_merge_stream(ctx, use_lean):
    """random small hierarchies built with type(); also checks the documented rules directly."""
    rng = ctx.rng
    found = False
    lines, items = [], []
    for i in range(bud(ctx, 400, 6000)):
        props = ["p", "q", "r", "s"][: rng.choice([2, 3, 4])]
        shape = rng.choice(["chain2", "chain3", "diamond", "single"])
        spec = {}
        for nme in HIERARCHY[shape]:
            ps = []
            for p in props:
                if rng.random() < 0.55:
                    deps = sorted(rng.sample([x for x in props if x != p], k=rng.choice([0, 0, 1])))
                    add = rng.random() < 0.25
                    dyn = (not add) and rng.random() < 0.15
                    fin = rng.random() < 0.12
                    ps.append((p, deps, add, dyn, fin))
            spec[nme] = ps
        f, item = check_merge_case(ctx, shape, spec, props)
        found |= f
        if item is not None:
            lines.append(merge_line(item[0]))
            items.append(item)
    if use_lean and lines:
        outs = ctx.driver(lines)
        for (decls, real, sources), out in zip(items, outs):
            compare_merge(ctx, "synthetic hierarchy", decls, real, out, sources)
    return found


# =========================================================================== language stream
PRELUDE = '''
import props.c06 as _C06
workspace = Workspace(RectangularRegion((0,0,0), 0, 200, 200))
vf = VectorField("vf", lambda pos: 0.5)
regPlain = RectangularRegion((5,5,0), 0, 10, 10)
regOri = PolygonalRegion([(0,0),(20,0),(20,20),(0,20)], orientation=vf)
ego = new Object at (0,0,0), with allowCollisions True
pt = new Point at (3,3,0)
op = new OrientedPoint at (4,4,0), facing 0.3
ob = new Object at (-8,-8,0), with allowCollisions True

class A:
    a1: 1
    a2: self.a1 + 1
    tags[additive]: "A"
    d1[dynamic]: 0
    f1[final]: self.a1 * 2
    width: 3
    allowCollisions: True

class B(A):
    a1: 5
    tags[additive]: "B"
    b1: self.a2 + self.f1
    position: (self.a1, 0, 0)

class Cyc:
    p: self.q
    q: self.p + 1
    allowCollisions: True

class Miss:
    p: self.nonexistent
    allowCollisions: True

class Fin:
    parentOrientation[final]: (0.1, 0, 0)
    allowCollisions: True

'''
PRELUDE_2D = '''
class Hd:
    heading: 0.5
    allowCollisions: True

'''


def prelude(mode2d):
    return PRELUDE + (PRELUDE_2D if mode2d else "")


# (label, class definition, exception expected in 3-D mode, in 2-D mode)
CLASS_ERROR_SNIPPETS = [
    ("override-final", "class FinOv(A):\n    f1: 3\n", "InvalidScenarioError", "InvalidScenarioError"),
    ("override-final-additive", "class FinOv2(A):\n    f1[additive]: 3\n", "InvalidScenarioError", "InvalidScenarioError"),
    ("override-nonfinal", "class Ov(A):\n    a2: 3\n    d1: 4\n", None, None),
    ("override-heading", "class HdOv:\n    heading: 1\n", "InvalidScenarioError", None),
    ("both-heading-and-parentOrientation", "class Both:\n    heading: 1\n    parentOrientation: 2\n", "InvalidScenarioError", "RuntimeError"),
]

# (syntax, veneer function, positional args, keyword args, table key, property for `with`)
ATOMS = [
    ("with foo 17", "With", ["'foo'", "17"], {}, "With", "foo"),
    ("with width 2", "With", ["'width'", "2"], {}, "With", "width"),
    ("with yaw 0.1", "With", ["'yaw'", "0.1"], {}, "With", "yaw"),
    ("with parentOrientation 0.2", "With", ["'parentOrientation'", "0.2"], {}, "With", "parentOrientation"),
    ("with position (1,1,0)", "With", ["'position'", "(1,1,0)"], {}, "With", "position"),
    ("with heading 0.4", "With", ["'heading'", "0.4"], {}, "With", "heading"),
    ("with heading vf", "With", ["'heading'", "vf"], {}, "With", "heading"),
    ("with orientation 0.4", "With", ["'orientation'", "0.4"], {}, "With", "orientation"),
    ("with regionContainedIn regPlain", "With", ["'regionContainedIn'", "regPlain"], {}, "With", "regionContainedIn"),
    ("with contactTolerance 0.25", "With", ["'contactTolerance'", "0.25"], {}, "With", "contactTolerance"),
    ("with baseOffset (0,0,0.5)", "With", ["'baseOffset'", "(0,0,0.5)"], {}, "With", "baseOffset"),
    ("with onDirection (0,0,1)", "With", ["'onDirection'", "(0,0,1)"], {}, "With", "onDirection"),
    ("with length 4", "With", ["'length'", "4"], {}, "With", "length"),
    ("with shape BoxShape()", "With", ["'shape'", "BoxShape()"], {}, "With", "shape"),
    ("at (1,2,0)", "At", ["(1,2,0)"], {}, "At", ""),
    ("at pt", "At", ["pt"], {}, "At", ""),
    ("in regPlain", "In", ["regPlain"], {}, "In/plain", ""),
    ("in regOri", "In", ["regOri"], {}, "In/oriented", ""),
    ("contained in regPlain", "ContainedIn", ["regPlain"], {}, "ContainedIn/plain", ""),
    ("contained in regOri", "ContainedIn", ["regOri"], {}, "ContainedIn/oriented", ""),
    ("on regPlain", "On", ["regPlain"], {}, "On/plain", ""),
    ("on regOri", "On", ["regOri"], {}, "On/oriented", ""),
    ("on ob", "On", ["ob"], {}, "On/oriented", ""),
    ("on (1,2,0)", "On", ["(1,2,0)"], {}, "On/plain", ""),
    ("offset by (1,2,0)", "OffsetBy", ["(1,2,0)"], {}, "OffsetBy", ""),
    ("offset along 0.3 by (1,2,0)", "OffsetAlongSpec", ["0.3", "(1,2,0)"], {}, "OffsetAlongSpec", ""),
    ("offset along vf by (1,2,0)", "OffsetAlongSpec", ["vf", "(1,2,0)"], {}, "OffsetAlongSpec", ""),
    ("beyond (3,3,0) by 2", "Beyond", ["(3,3,0)", "2"], {}, "Beyond", ""),
    ("beyond pt by (1,1,0) from op", "Beyond", ["pt", "(1,1,0)"], {"fromPt": "op"}, "Beyond", ""),
    ("visible", "VisibleSpec", [], {}, "VisibleSpec", ""),
    ("visible from pt", "VisibleFrom", ["pt"], {}, "VisibleFrom", ""),
    ("visible from op", "VisibleFrom", ["op"], {}, "VisibleFrom", ""),
    ("not visible", "NotVisibleSpec", [], {}, "NotVisibleSpec", ""),
    ("not visible from ob", "NotVisibleFrom", ["ob"], {}, "NotVisibleFrom", ""),
    ("following vf for 2", "Following", ["vf", "2"], {}, "Following", ""),
    ("following vf from (1,1,0) for 2", "Following", ["vf", "2"], {"fromPt": "(1,1,0)"}, "Following", ""),
    ("facing 0.3", "Facing", ["0.3"], {}, "Facing/value", ""),
    ("facing (0.1,0.2,0.3)", "Facing", ["(0.1,0.2,0.3)"], {}, "Facing/value", ""),
    ("facing vf", "Facing", ["vf"], {}, "Facing/field", ""),
    ("facing toward (5,5,0)", "FacingToward", ["(5,5,0)"], {}, "FacingToward", ""),
    ("facing toward pt", "FacingToward", ["pt"], {}, "FacingToward", ""),
    ("facing away from ob", "FacingAwayFrom", ["ob"], {}, "FacingAwayFrom", ""),
    ("facing directly toward (5,5,5)", "FacingDirectlyToward", ["(5,5,5)"], {}, "FacingDirectlyToward", ""),
    ("facing directly away from op", "FacingDirectlyAwayFrom", ["op"], {}, "FacingDirectlyAwayFrom", ""),
    ("apparently facing 0.2", "ApparentlyFacing", ["0.2"], {}, "ApparentlyFacing", ""),
    ("apparently facing 0.2 from (1,1,0)", "ApparentlyFacing", ["0.2"], {"fromPt": "(1,1,0)"}, "ApparentlyFacing", ""),
]
for _syn, _fn in (("left of", "LeftSpec"), ("right of", "RightSpec"), ("ahead of", "Ahead"), ("behind", "Behind"),
                  ("above", "Above"), ("below", "Below")):
    for _arg, _var in (("(2,2,0)", "vector"), ("pt", "vector"), ("op", "orientedPoint"), ("ob", "object")):
        ATOMS.append((f"{_syn} {_arg}", _fn, [_arg], {}, f"{_fn}/{_var}", ""))
    ATOMS.append((f"{_syn} ob by 1.5", _fn, ["ob"], {"dist": "1.5"}, f"{_fn}/object", ""))
    ATOMS.append((f"{_syn} (2,2,0) by (1,0,0)", _fn, ["(2,2,0)"], {"dist": "(1,0,0)"}, f"{_fn}/vector", ""))

# atoms for the user classes of the prelude
USER_ATOMS = [
    ("with a1 7", "With", ["'a1'", "7"], {}, "With", "a1"),
    ("with a2 8", "With", ["'a2'", "8"], {}, "With", "a2"),
    ("with f1 9", "With", ["'f1'", "9"], {}, "With", "f1"),
    ("with tags 'mine'", "With", ["'tags'", "'mine'"], {}, "With", "tags"),
    ("with b1 1", "With", ["'b1'", "1"], {}, "With", "b1"),
    ("with d1 2", "With", ["'d1'", "2"], {}, "With", "d1"),
    ("with p 3", "With", ["'p'", "3"], {}, "With", "p"),
    ("with q 4", "With", ["'q'", "4"], {}, "With", "q"),
    ("with nonexistent 5", "With", ["'nonexistent'", "5"], {}, "With", "nonexistent"),
]
CLASSES = ["Object", "OrientedPoint", "Point", "A", "B", "Cyc", "Miss", "Fin", "Hd"]
WET_OK = {"With", "At", "Facing", "FacingToward", "FacingAwayFrom", "OffsetBy", "Beyond", "ApparentlyFacing"}

_LANG = {}   # state shared between run_language() and drive() (which is called from inside the Scenic program)


def atom_desc_class(a):
    """atoms with equal table key / property behave identically for resolution"""
    return (a[4], a[5], a[0] if a[4] == "With" and a[5] == "heading" else "")


def plan_cases(ctx, rng, mode2d):
    """-> list of groups; a group = (class name, [atom indices]) run in all orders"""
    allatoms = ATOMS + USER_ATOMS
    nb = len(ATOMS)
    groups = []
    builtin_idx = list(range(nb))
    # representatives per descriptor class
    reps = {}
    for i in builtin_idx:
        reps.setdefault(atom_desc_class(allatoms[i]), i)
    rep_idx = sorted(reps.values())
    for i in builtin_idx:                       # every atom alone, on the three built-in classes
        for c in ("Object", "OrientedPoint", "Point"):
            groups.append((c, [i]))
    if bud(ctx, 0, 1):
        pairs = list(itertools.combinations(builtin_idx, 2))           # every pair of atoms (both orders)
    else:
        pairs = list(itertools.combinations(rep_idx, 2))               # every pair of descriptor classes ...
        nonrep = [i for i in builtin_idx if i not in set(rep_idx)]
        for i in nonrep:                                               # ... and every other atom with a few partners
            for j in rng.sample(builtin_idx, k=8):
                if i != j:
                    pairs.append((i, j))
    for i, j in pairs:
        groups.append(("Object", [i, j]))
    triples = list(itertools.combinations(rep_idx, 3))
    if bud(ctx, 0, 1):
        chosen = triples
    else:
        # every triple containing one of the interesting low-priority / modifying specifiers, plus a sample
        key = {k for k, a in enumerate(allatoms) if a[4] in ("VisibleSpec", "NotVisibleSpec", "VisibleFrom", "NotVisibleFrom", "On/oriented", "On/plain")}
        inter = [t for t in triples if sum(1 for x in t if x in key) >= 2]
        rest = [t for t in triples if t not in set(inter)]
        chosen = inter + rng.sample(rest, k=min(len(rest), 300))
    for t in chosen:
        groups.append(("Object", list(t)))
    if bud(ctx, 0, 1):
        quads = list(itertools.combinations(rep_idx, 4))
        for q in rng.sample(quads, k=min(len(quads), 2500)):
            groups.append(("Object", list(q)))
    # user classes: all subsets up to size 2 of the class atoms (+ one built-in), all orders
    uidx = list(range(nb, len(allatoms)))
    some_builtin = [k for k, a in enumerate(allatoms) if a[0] in ("at (1,2,0)", "facing 0.3", "with width 2", "with heading 0.4", "on regOri", "visible", "left of op",
                                                                   "in regOri", "on regPlain", "with parentOrientation 0.2")]
    for c in ("A", "B", "Cyc", "Miss", "Fin") + (("Hd",) if mode2d else ()):
        groups.append((c, []))
        for i in uidx + some_builtin:
            groups.append((c, [i]))
        for i, j in itertools.combinations(uidx, 2):
            groups.append((c, [i, j]))
        for i in uidx:
            for j in some_builtin:
                groups.append((c, [i, j]))
        for t in rng.sample(list(itertools.combinations(uidx + some_builtin, 3)), k=bud(ctx, 25, 250)):
            groups.append((c, list(t)))
    return allatoms, groups


def build_atom(ns, atom):
    fn = ns[atom[1]]
    args = [eval(a, ns) for a in atom[2]]
    kw = {k: eval(v, ns) for k, v in atom[3].items()}
    return fn(*args, **kw)


def drive(ns):
    """Called from inside the running Scenic program (veneer active): the bulk of the language stream,
    calling the veneer functions the compiler would emit."""
    st = _LANG["state"]
    allatoms, groups, mode2d, rng, wet_every = st["atoms"], st["groups"], st["mode2d"], st["rng"], st["wet_every"]
    new = ns["new"]
    recs = st["records"]
    t0 = time.time()
    n = 0
    allow = st.get("allow")
    for gi, (cname, idxs) in enumerate(groups):
        if allow is not None and time.time() - t0 > allow:
            st["cut"] = (gi, len(groups))
            break
        cls = ns[cname]
        k = len(idxs)
        perms = list(itertools.permutations(range(k))) if k <= 3 else ([tuple(range(k))] + [tuple(rng.sample(range(k), k)) for _ in range(7)])
        for perm in dict.fromkeys(perms):
            order = [idxs[j] for j in perm]
            wet = (n % wet_every == 0) and all(allatoms[i][1] in WET_OK for i in order) and cname not in ("Cyc", "Miss")
            n += 1
            try:
                specs = [build_atom(ns, allatoms[i]) for i in order]
            except Exception as e:
                recs.append({"group": gi, "order": order, "cls": cname, "outcome": ("construction", type(e).__name__, str(e)[:120])})
                continue
            HOOKS.arm(dry=not wet, src="direct", group=gi, order=order)
            try:
                obj = new(cls, specs)
            except BaseException as e:  # the hook swallows everything raised inside `new`; this is about the hook itself
                raise Infra(f"hook failure: {type(e).__name__}: {e}")
            rec = HOOKS.records.pop() if HOOKS.records else {"outcome": ("nohook",)}
            rec.update(group=gi, order=order)
            if wet and obj is not None:
                rec["values"] = {p: repr(getattr(obj, p, None)) for p in ("foo", "a1", "a2", "b1", "tags", "f1", "d1", "p", "q")
                                 if hasattr(obj, p)}
            recs.append(finish_record(rec))
    st["drive_time"] = time.time() - t0


class _Done(Exception):
    pass


def syntax_case_lines(allatoms, cases):
    """real Scenic syntax for a list of (class, [atom indices])"""
    lines = []
    for ci, (cname, idxs) in enumerate(cases):
        specs = ", ".join(allatoms[i][0] for i in idxs)
        lines.append(f"_C06.arm_syntax({ci})")
        lines.append(f"new {cname} {specs}" if specs else f"new {cname}")
    return "\n".join(lines) + "\n"


def arm_syntax(ci):
    st = _LANG["state"]
    cname, idxs = st["syntax_cases"][ci]
    HOOKS.pending = dict(dry=True, src="syntax", sidx=ci, order=list(idxs))


def _run_program(code, mode2d, what):
    import scenic
    try:
        scenic.scenarioFromString(code, mode2D=mode2d)
        raise Infra(f"{what}: program ended without the sentinel")
    except Infra:
        raise
    except Exception as e:
        if type(e).__name__ != "_Done":
            raise Infra(f"{what} ({'2D' if mode2d else '3D'}) program failed: {type(e).__name__}: {str(e)[:300]}")


def run_language(ctx, mode2d, use_lean, entries):
    """two Scenic programs per mode: the bulk (veneer calls issued from inside the program) and a sample through
    the real parser/compiler; returns found"""
    rng = ctx.rng
    allatoms, groups = plan_cases(ctx, rng, mode2d)
    allow = allowance(ctx, 0.4)
    if allow is not None:
        # time-boxed escalated pass: singles first (they decide which atoms exist in this mode), the rest shuffled
        head = [g for g in groups if len(g[1]) <= 1]
        tail = [g for g in groups if len(g[1]) > 1]
        rng.shuffle(tail)
        groups = head + tail
    state = {"atoms": allatoms, "groups": groups, "mode2d": mode2d, "rng": rng, "records": [], "wet_every": 7,
             "syntax_cases": [], "syntax_records": [], "allow": allow}
    _LANG["state"] = state
    HOOKS.install()
    t0 = time.time()
    try:
        random.seed(rng.getrandbits(32))
        try:
            import numpy
            numpy.random.seed(rng.getrandbits(32))
        except Exception:
            pass
        _run_program(prelude(mode2d) + "_C06.drive(globals())\nraise _C06._Done()\n", mode2d, "language stream")
        # atoms whose specifier could not even be constructed in this mode are left out of the syntax sample
        badatoms = set()
        for r in state["records"]:
            if r["outcome"][0] == "construction" and len(r["order"]) == 1:
                badatoms.add(r["order"][0])
        syntax_cases = [("Object", [i]) for i in range(len(ATOMS)) if i not in badatoms]
        pool = [g for g in groups if len(g[1]) >= 2 and not (set(g[1]) & badatoms)]
        for g in rng.sample(pool, k=min(len(pool), bud(ctx, 40, 300))):
            idxs = list(g[1])
            syntax_cases.append((g[0], idxs))
            syntax_cases.append((g[0], list(reversed(idxs))))
        state["syntax_cases"] = syntax_cases
        HOOKS.records.clear()
        t1 = time.time()
        _run_program(prelude(mode2d) + syntax_case_lines(allatoms, syntax_cases) + "_C06.end_syntax()\nraise _C06._Done()\n",
                     mode2d, "syntax sample")
    finally:
        HOOKS.uninstall()
    if state.get("cut"):
        ctx.notes.append("escalated language stream (%s) cut off by the quick-tier time box after %d of %d groups"
                         % ("2D" if mode2d else "3D", state["cut"][0], state["cut"][1]))
    ctx.extra.setdefault("timing", {})["drive_%s" % ("2d" if mode2d else "3d")] = round(state.get("drive_time", 0), 1)
    ctx.extra["timing"]["syntax_%s" % ("2d" if mode2d else "3d")] = round(time.time() - t1, 1)
    return evaluate_language(ctx, state, mode2d, use_lean, entries)


def end_syntax():
    st = _LANG["state"]
    st["syntax_records"] = [finish_record(r) for r in HOOKS.records]
    HOOKS.records.clear()
    HOOKS.armed = None
    HOOKS.pending = None


def lean_spec_token(desc, atom, entries, force_raw=False):
    """`@key|prop|extra` when the real descriptor is an instance of the generated table entry, else raw"""
    if atom is None or force_raw or entries is None:
        return spec_token(desc)
    return "@" + atom[4] + "|" + san(atom[5]) + "|" + jl(map(san, sorted(set(desc["deps"]) - set(entries.get(atom[4], {}).get("deps", [])))))


def expected_from_entry(entry, atom, desc):
    """instantiate a table entry like the Lean `inst` does"""
    name = entry["name"].replace("$prop", atom[5])
    prios = [[atom[5] if p == "$prop" else p, k] for p, k in entry["prios"]]
    return name, prios


def evaluate_language(ctx, state, mode2d, use_lean, entries):
    found = False
    allatoms, groups = state["atoms"], state["groups"]
    mode = "2d" if mode2d else "3d"
    lines, items = [], []
    by_group = collections.defaultdict(list)
    docs_checked = set()
    allrecs = [(r, "syntax") for r in state.get("syntax_records", [])] + [(r, "direct") for r in state["records"]]
    direct_first = {}
    for rec, src in allrecs:
        out = rec["outcome"]
        order = rec.get("order", [])
        atoms = [allatoms[i] for i in order]
        if src == "syntax":
            cname = state["syntax_cases"][rec["sidx"]][0]
        else:
            cname = groups[rec["group"]][0]
        ctx.hist(f"lang_{mode}_outcome", out[0] + (":" + str(out[1]) if out[0] != "ok" else ""))
        if out[0] in ("construction", "nohook", "noresolve"):
            continue
        if "prepared" not in rec or "raw" not in rec:
            continue
        replay = {"kind": "language", "mode2D": mode2d, "class": cname, "specifiers": [a[0] for a in atoms]}
        rec["keytag"] = ""
        ctx.case(("lang", mode, cname, [a[0] for a in atoms]), nontrivial=len(atoms) >= 1)
        ctx.hist(f"lang_{mode}_size", len(atoms))
        ctx.hist(f"lang_class", cname)
        # (i) the descriptors of the real specifier objects vs the generated table and the manual
        if entries is not None and len(rec["raw"]) == len(atoms):
            for d, a in zip(rec["raw"], atoms):
                e = entries.get(a[4])
                if e is None:
                    continue
                name, prios = expected_from_entry(e, a, d)
                okd = (d["name"] == name and sorted(d["prios"]) == sorted(prios) and set(e["deps"]) <= set(d["deps"])
                       and (e["valueDeps"] or set(d["deps"]) == set(e["deps"])) and d["mod"] == e["modifying"]
                       and d["modifiable"] == e["modifiable"])
                if not okd and (a[0], mode) not in docs_checked:
                    docs_checked.add((a[0], mode))
                    ctx.broken("correspondence", "table of built-in specifiers vs the Specifier objects built by veneer",
                               f"`{a[0]}` ({mode}): real {d}, table entry {a[4]}: {e}")
        # (ii) the manual, directly (no model): S
        docs = _LANG.get("docs")
        if docs is not None and len(rec["raw"]) == len(atoms):
            for d, a in zip(rec["raw"], atoms):
                if (a[0], mode, "doc") in docs_checked:
                    continue
                docs_checked.add((a[0], mode, "doc"))
                msg = check_against_manual(d, a, docs)
                if msg:
                    if ctx.violation(f"manual:{a[4]}", f"`{a[0]}` ({mode}): {msg}",
                                     {"kind": "language", "mode2D": mode2d, "class": "Object", "specifiers": [a[0]], "manual": True}):
                        found = True
        # (iii) 2-D rewriting, directly
        msg = check_prepare(rec, mode2d, cname)
        if msg and ctx.violation("prepare2D", msg, replay):
            found = True
        # (iv) the property on the real outcome
        found |= oracle(ctx, rec, rec["prepared"], replay)
        # (v) tagged values of a really constructed object
        if rec.get("values") is not None and out[0] == "ok":
            ctx.hist("wet_objects", "checked")
            for d in rec["prepared"]:
                m = re.fullmatch(r"With\((\w+)\)", d["name"])
                if m and m.group(1) in rec["values"] and rec["assign"].get(m.group(1)) == "u:" + san(d["name"]):
                    a = next((a for a in atoms if a[5] == m.group(1)), None)
                    if a is not None and rec["values"][m.group(1)] != repr(eval(a[2][1])):
                        if ctx.violation("with-value-lost", f"`{a[0]}` won property {m.group(1)} but the object has {rec['values'][m.group(1)]}", replay):
                            found = True
        # group for the permutation oracle
        if src == "direct":
            by_group[rec["group"]].append(rec)
        # (vi) model
        if use_lean:
            toks = []
            raw = rec["raw"]
            if len(raw) != len(atoms):
                continue
            for d, a in zip(raw, atoms):
                e = entries.get(a[4]) if entries else None
                inst_ok = False
                if e is not None:
                    name, prios = expected_from_entry(e, a, d)
                    inst_ok = d["name"] == name and sorted(d["prios"]) == sorted(prios) and set(e["deps"]) <= set(d["deps"]) and d["mod"] == e["modifying"] and d["modifiable"] == e["modifiable"]
                toks.append(lean_spec_token(d, a, entries, force_raw=not inst_ok))
            if any(t is None for t in toks):
                continue
            m = "3"
            if mode2d and cname not in ("Point",):
                fld = any(a[0] == "with heading vf" for a in atoms)
                m = "2F" if fld else "2"
            line = f"C06 resolve {m} " + class_token(rec["classinfo"], rec.get("sampled")) + " " + " ".join(toks)
            lines.append(line.rstrip())
            items.append(rec)
    # permutation oracle on the real code
    for gi, recs in by_group.items():
        sigs = {}
        for r in recs:
            if r["outcome"][0] in ("ok", "err", "crash"):
                sigs.setdefault(signature(r), r)
        if len(sigs) > 1:
            (s1, r1), (s2, r2) = list(sigs.items())[:2]
            cname = groups[gi][0]
            a1 = [allatoms[i][0] for i in r1["order"]]
            a2 = [allatoms[i][0] for i in r2["order"]]
            if ctx.violation("order-dependence:" + "+".join(sorted({allatoms[i][4].split('/')[0] for i in r1["order"]})),
                             f"outcome depends on the order in which the specifiers are written: `new {cname} {', '.join(a1)}` -> {describe(r1)}; "
                             f"`new {cname} {', '.join(a2)}` -> {describe(r2)}",
                             {"kind": "language", "mode2D": mode2d, "class": cname, "specifiers": a1, "specifiers2": a2}):
                found = True
        ctx.hist("permutation_groups", f"size{len(groups[gi][1])}:{'same' if len(sigs) <= 1 else 'DIFFERENT'}")
    if use_lean and lines:
        t1 = time.time()
        outs = par_driver(ctx, lines)
        ctx.extra.setdefault("timing", {})[f"lean_driver_{mode}"] = round(time.time() - t1, 1)
        for line, out, rec in zip(lines, outs, items):
            compare_with_lean(ctx, rec, out, line, f"language-{mode}")
    # syntax path and direct path must describe the same specifiers
    found |= compare_syntax_direct(ctx, state, mode)
    return found


def describe(rec):
    out = rec["outcome"]
    if out[0] == "ok":
        interesting = {p: n for p, n in rec["assign"].items() if n.startswith("u:")}
        return f"created ({interesting}, modified: {rec['modifier']})"
    return f"{out[1]}: {out[-1][:80]}"


def compare_syntax_direct(ctx, state, mode):
    direct = {}
    for r in state["records"]:
        if "raw" in r:
            direct.setdefault((state["groups"][r["group"]][0], tuple(r["order"])), r)
    n = 0
    for r in state.get("syntax_records", []):
        if "raw" not in r:
            continue
        key = (state["syntax_cases"][r["sidx"]][0], tuple(r["order"]))
        d = direct.get(key)
        if d is None:
            continue
        n += 1
        if d["raw"] != r["raw"] or signature(d) != signature(r):
            ctx.broken("correspondence", "veneer calls issued by the harness vs the compiler",
                       f"{mode} {key}: via syntax {r['raw']} {signature(r)[:2]}, direct {d['raw']} {signature(d)[:2]}")
            break
    ctx.hist("syntax_vs_direct_compared", mode, n)
    return False


def check_against_manual(d, atom, docs):
    """real descriptor of a built-in specifier vs the reference manual (public properties)"""
    from translate import spectable
    title, cond = spectable.DOC_OF.get(tuple((atom[4] + "/").split("/")[:2]), (None, None))
    doc = next((x for x in docs if x["title"] == title), None)
    if doc is None:
        return None
    want = [[atom[5] if p == "$prop" else p, k] for p, k, c in doc["specifies"] if cond or not c]
    got = [[p, k] for p, k in d["prios"] if not p.startswith("_")]
    if sorted(map(tuple, got)) != sorted(map(tuple, want)):
        return f"specifies {got}, the reference ({title}) says {want}"
    if not set(doc["deps"]) <= set(d["deps"]):
        return f"depends on {d['deps']}, the reference ({title}) says {doc['deps']}"
    extra = set(d["deps"]) - set(doc["deps"])
    if extra and atom[4] != "Facing/value":
        return f"depends on {d['deps']}, the reference ({title}) says {doc['deps']}"
    if sorted(d["modifiable"]) != sorted(doc["modifies"]):
        return f"may modify {d['modifiable']}, the reference says {doc['modifies']}"
    return None


def check_prepare(rec, mode2d, cname):
    """`with heading X` <-> `facing X`: in 2-D mode, for oriented classes, and nothing else is touched"""
    raw, prep = rec["raw"], rec["prepared"]
    rewrite = mode2d and cname != "Point"
    if len(raw) != len(prep):
        return "the specifier list changed length before resolution"
    for a, b in zip(raw, prep):
        if rewrite and a["name"] == "With(heading)" and [p for p, _ in a["prios"]] == ["heading"]:
            if b["name"] != "Facing" or sorted(p for p, _ in b["prios"]) != ["pitch", "roll", "yaw"]:
                return f"2-D mode: `with heading` was not rewritten into `facing` (resolved as {b['name']} {b['prios']})"
        elif a != b:
            return f"specifier {a['name']} was rewritten into {b['name']} {b['prios']} ({'2-D' if mode2d else '3-D'} mode, class {cname})"
    return None


def language_merge(ctx, mode2d, use_lean):
    """MROs of the real classes of a compiled program against mergeDefaults"""
    import scenic
    code = prelude(mode2d) + "_C06.grab(globals())\nraise _C06._Done()\n"
    _LANG["grab"] = None
    try:
        scenic.scenarioFromString(code, mode2D=mode2d)
    except Exception as e:
        if type(e).__name__ != "_Done":
            raise Infra(f"class program failed: {type(e).__name__}: {e}")
    ns = _LANG["grab"]
    lines, items = [], []
    for cname in CLASSES:
        if cname not in ns:
            continue
        cls = ns[cname]
        decls = mro_decls(cls)
        if mode2d:
            # __init_subclass__ of OrientedPoint2D renamed `heading` before merging: nothing to undo, the
            # dictionaries read here are already the transformed ones
            pass
        lines.append(merge_line(decls))
        items.append((f"{cname} ({'2D' if mode2d else '3D'})", decls, real_merge(cls)))
        ctx.case(("merge-real", cname, mode2d))
    found = False
    # class definitions that must be refused
    from scenic.core.errors import InvalidScenarioError
    for label, snippet, want3, want2 in CLASS_ERROR_SNIPPETS:
        want_exc = want2 if mode2d else want3
        code = prelude(mode2d) + snippet + "raise _C06._Done()\n"
        got = None
        try:
            scenic.scenarioFromString(code, mode2D=mode2d)
        except Exception as e:
            got = type(e).__name__
        got = None if got == "_Done" else got
        ctx.case(("class-error", label, mode2d))
        ctx.hist("class_definition", f"{label}:{got}")
        if got != want_exc:
            if ctx.violation(f"class-definition:{label}", f"{'2D' if mode2d else '3D'}: `{snippet.strip()}` gave {got}, expected {want_exc}",
                             {"kind": "class", "mode2D": mode2d, "snippet": snippet}):
                found = True
    if use_lean:
        outs = ctx.driver(lines)
        for (label, decls, real), out in zip(items, outs):
            compare_merge(ctx, label, decls, real, out)
    return found


def grab(ns):
    _LANG["grab"] = dict(ns)


# =========================================================================== table of built-ins
def load_entries(ctx):
    """the generated table as the driver sees it"""
    from translate import spectable
    keys = sorted({a[4] for a in ATOMS})
    outs = ctx.driver([f"C06 entry {k}" for k in keys])
    entries = {}
    for k, o in zip(keys, outs):
        if o == "none" or o == "bad-op":
            continue
        d, v = o.rsplit(" ", 1)
        name, pr, deps, m, mods = d.split("|")
        entries[k] = {"name": name.replace("+", " "), "prios": [[e.split("=")[0], int(e.split("=")[1])] for e in pr.split(",")] if pr != "-" else [],
                      "deps": [] if deps == "-" else deps.split(","), "modifying": m == "M",
                      "modifiable": [] if mods == "-" else mods.split(","), "valueDeps": v == "V"}
    return entries


# =========================================================================== main
def run(ctx):
    ctx.rule = ("cases = (class, ordered list of specifiers): synthetic Specifier/ModifyingSpecifier lists over 2-5 "
                "properties with all orders; `new C ...` over every built-in specifier x kind of argument (all singles, "
                "all ordered pairs, triples -- all in the thorough tier --, sampled quads) and user classes with "
                "inherited/additive/dynamic/final defaults and self-dependencies, in 3-D and 2-D mode, every order; "
                "class hierarchies (MRO merging).  Non-trivial = at least one specifier (or two classes). "
                "Distinct by content hash.")
    ctx.assumptions += [
        "property values are abstracted: a specifier is a black box producing one value per property it specifies (geometry is C07)",
        "the harness replaces the value computation of specifiers by tags in most cases (dry run); every 7th cheap case constructs the real object",
        "user specifiers are identified by their name after the duplicate-name check, default specifiers by their property",
        "error kind = exception class + raise site (recognised by message); several defects in one list may be reported in either order",
        "order independence is claimed for lists with at most one modifying specifier (the built-ins have exactly one: `on`)",
    ]
    ctx.trusted_base += [
        "tools/translate/spectable.py (symbolic walk over veneer.py; parser of the reference manual; the association of manual sections to functions)",
        "tools/props/c06.py (hooks observing _withSpecifiers/_resolveSpecifiers/getValuesFor/_specify; declarative reference; generators)",
    ]
    ctx.fingerprint(FINGERPRINTS)
    from translate import spectable
    docs = None
    try:
        docs = spectable.extract_docs()
    except TemplateMismatch as e:
        ctx.escalated.append(f"reference manual not parsed: {e}")
        ctx.notes.append(f"reference manual not parsed ({e}); manual comparison skipped")
    _LANG["docs"] = docs
    try:
        code = spectable.extract_code()
        if docs is None:
            raise TemplateMismatch("no documentation table")
        ctx.gen("SpecTable", spectable.to_lean(code, docs, spectable.extract_modifier_order()))
    except TemplateMismatch as e:
        ctx.gen_restore("SpecTable")     # never leave a stale table from an earlier run
        ctx.escalated.append(f"translator tie lost (spectable): {e}")
        ctx.notes.append(f"translator tie lost for the table of built-in specifiers: {e}; relying on the correspondence at thorough budget")
    pr = ctx.prove(THEOREMS, side_conditions=SIDE)
    if ctx.tier == "thorough" and pr.build_ok:
        ctx.leanchecker(["ScenicModel.Props.C06"])
    use_lean = pr.build_ok
    if not use_lean:
        # the model may still be runnable with the previous table: try the driver alone
        rc, log = ctx.lake(["build", "drv_c06"])
        use_lean = rc == 0 and "side condition" not in log
    entries = None
    if use_lean:
        try:
            entries = load_entries(ctx)
        except Infra:
            use_lean = False
    import scenic  # noqa
    found = False
    streams = [("synthetic", lambda: synthetic_stream(ctx, use_lean)),
               ("override", lambda: override_stream(ctx, use_lean)),
               ("merge", lambda: synthetic_merge_stream(ctx, use_lean))]
    for mode2d in (False, True):
        streams.append((f"classes_{'2d' if mode2d else '3d'}", (lambda m: (lambda: language_merge(ctx, m, use_lean)))(mode2d)))
        streams.append((f"language_{'2d' if mode2d else '3d'}", (lambda m: (lambda: run_language(ctx, m, use_lean, entries)))(mode2d)))
    passes = ["quick", "full"] if ctx.budget(0, 1) else ["full"]
    ctx.extra["_esc"] = len(passes) == 2
    for pname in passes:
        ctx.extra["_pass"] = pname
        for name, fn in streams:
            if pname == "full" and len(passes) == 2 and name.startswith("classes_"):
                continue  # deterministic, already done in the first pass
            t = time.time()
            found |= bool(fn())
            key = name if len(passes) == 1 else f"{pname}:{name}"
            ctx.extra.setdefault("timing", {})[key] = round(time.time() - t, 1)
            if found:
                ctx.notes.append(f"a failing input was found in stream `{name}` ({pname} pass); the remaining streams were not run")
                break
        if found:
            break
    ctx.extra.pop("_pass", None)
    ctx.extra.pop("_esc", None)
    ctx.extra.pop("_nbad", None)
    ctx.resolve_brokens(found)


# =========================================================================== replay
class _ReplayCtx:
    """stands in for the check context while a replay file is re-executed: collects what the oracles report"""

    def __init__(self):
        self.found = []

    def violation(self, key, what, replay, no_input=False):
        self.found.append((key, what))
        return True

    def hist(self, *a, **k):
        pass

    def case(self, *a, **k):
        return True

    def broken(self, *a, **k):
        pass


def arm_replay():
    HOOKS.pending = dict(dry=True, src="replay")


def replay(ctx, path):
    """re-executes the recorded input on $SCENIC_REPO; exit status 1 (and a `reproduced` line) when the property
    is violated on it, 0 when it holds"""
    body = json.load(open(path))
    rep = body.get("replay", body)
    kind = rep.get("kind")
    rctx = _ReplayCtx()
    import scenic
    if kind == "synthetic":
        HOOKS.install()
        try:
            sigs = []
            for key in ("perm", "perm2"):
                if key in rep:
                    rec = run_synthetic_case(rep["case"], rep[key])
                    print(f"order {rep[key]}: specifiers {[s['name'] for s in rec.get('prepared', [])]}")
                    print("   outcome:", rec["outcome"], "exception:", rec.get("exception"))
                    print("   assignment:", rec.get("assign"), "modifier:", rec.get("modifier"))
                    print("   evaluation:", [n for n, _ in rec.get("trace", [])])
                    if "prepared" in rec:
                        oracle(rctx, rec, rec["prepared"], {})
                        sigs.append(signature(rec))
            if len(sigs) == 2 and sigs[0] != sigs[1]:
                rctx.violation("order-dependence:synthetic", f"outcome depends on the order: {sigs[0][:2]} vs {sigs[1][:2]}", {})
        finally:
            HOOKS.uninstall()
    elif kind == "override":
        sigs = []
        for key in ("perm", "perm2"):
            if key in rep:
                out, ci, dyn, plist = run_override_case(rep["case"], rep[key])
                print(f"override, order {rep[key]}: attrs {rep['case']['attrs']} specifiers {[(s['name'], s['prios']) for s in rep['case']['specs']]}")
                print("   outcome:", out)
                override_oracle(rctx, rep["case"], rep[key], out, dyn, plist)
                sigs.append(("ok", tuple(sorted(out[1].items()))) if out[0] == "ok" else (out[0],))
        if len(sigs) == 2 and sigs[0] != sigs[1]:
            rctx.violation("order-dependence:override", f"outcome of _override depends on the order: {sigs[0]} vs {sigs[1]}", {})
    elif kind == "language":
        from translate import spectable
        sigs = []
        for key in ("specifiers", "specifiers2"):
            if key not in rep:
                continue
            line = f"x = new {rep['class']} {', '.join(rep[key])}" if rep[key] else f"x = new {rep['class']}"
            print(f"--- {'2D' if rep['mode2D'] else '3D'}: {line}")
            try:
                scenic.scenarioFromString(prelude(rep["mode2D"]) + line + "\n_C06.show(x)\n", mode2D=rep["mode2D"])
            except Exception as e:
                print("   raised", type(e).__name__ + ":", str(e)[:300])
            # the same statement once more under the recording hooks, for the oracles
            HOOKS.install()
            HOOKS.records.clear()
            try:
                try:
                    scenic.scenarioFromString(prelude(rep["mode2D"]) + "_C06.arm_replay()\n" + line + "\n", mode2D=rep["mode2D"])
                except Exception as e:
                    print("   (recording run raised", type(e).__name__ + ")")
                recs = [finish_record(r) for r in HOOKS.records]
            finally:
                HOOKS.records.clear()
                HOOKS.armed = HOOKS.pending = None
                HOOKS.uninstall()
            for rec in recs:
                if "prepared" not in rec:
                    continue
                print("   outcome:", rec["outcome"][:2], "assignment of the specifiers:", {p: n for p, n in rec["assign"].items() if n.startswith("u:")},
                      "modifier:", rec["modifier"])
                rec["keytag"] = ""
                oracle(rctx, rec, rec["prepared"], {})
                msg = check_prepare(rec, rep["mode2D"], rep["class"])
                if msg:
                    rctx.violation("prepare2D", msg, {})
                if rep.get("manual"):
                    docs = spectable.extract_docs()
                    for d, syn in zip(rec["raw"], rep[key]):
                        atom = next((a for a in ATOMS + USER_ATOMS if a[0] == syn), None)
                        m = check_against_manual(d, atom, docs) if atom else None
                        if m:
                            rctx.violation(f"manual:{atom[4]}", f"`{syn}`: {m}", {})
                sigs.append(signature(rec))
        if len(sigs) == 2 and sigs[0] != sigs[1]:
            rctx.violation("order-dependence", f"outcome depends on the order: {sigs[0][:2]} vs {sigs[1][:2]}", {})
    elif kind == "merge":
        replay_merge(rep)
        check_merge_case(rctx, rep["shape"], rep["spec"], rep.get("props", ["p", "q", "r", "s"]))
    elif kind == "class":
        code = prelude(rep["mode2D"]) + rep["snippet"] + "raise _C06._Done()\n"
        got = None
        try:
            scenic.scenarioFromString(code, mode2D=rep["mode2D"])
        except Exception as e:
            got = type(e).__name__
            if got != "_Done":
                print("raised", got + ":", str(e)[:300])
        got = None if got == "_Done" else got
        if got is None:
            print("class definition accepted")
        want = next(((w3, w2) for _, sn, w3, w2 in CLASS_ERROR_SNIPPETS if sn == rep["snippet"]), None)
        if want is not None and got != (want[1] if rep["mode2D"] else want[0]):
            rctx.violation("class-definition", f"gave {got}, expected {want[1] if rep['mode2D'] else want[0]}", {})
    else:
        print(json.dumps(rep, indent=1)[:4000])
        print("(no concrete input recorded in this file: nothing to re-execute)")
        return 0
    if rctx.found:
        for key, what in rctx.found[:6]:
            print(f"reproduced: [{key}] {what[:400]}")
        return 1
    print("not reproduced: the property holds on this input")
    return 0


def show(obj):
    skip = {"shape", "mutator", "behavior", "regionContainedIn"}
    print("   created:", {p: getattr(obj, p) for p in obj.properties if p not in skip and not p.startswith("_")
                          and p in ("position", "yaw", "pitch", "roll", "parentOrientation", "width", "length", "height", "foo", "a1", "a2", "b1", "tags", "f1", "d1", "p", "q")})
