"""C07 — built-in specifiers and operators have their documented geometric meaning.

Proof:  lean/ScenicModel/Props/C07*.lean — theorems over an arbitrary field about the executable frame model
        lean/ScenicModel/Model/Frames.lean (vectors, rotation matrices, quaternions, (cos, sin) angles, the
        directional specifiers, beyond, offset by/along, relative to, on, the facing family, following,
        sides/corners, distance/angle/altitude/relative heading/apparent heading/distance past).
Tie:    (T) translate/frames.py regenerates the six offset formulas, the contact offsets, the side / corner
            tables and two structural flags from veneer.py / object_types.py into Gen/Frames.lean; the
            `gen_*` side conditions are re-proved on that data;
        (C) the compiled Lean model (exact rationals) vs the real Scenic (programs compiled and sampled by
            the real front end) on random rational poses, sizes, offsets and argument kinds, within 1e-9;
        (S) a model-free oracle on the real code: bounding-box gaps computed from the real corners,
            global orientation of `facing`, line-of-sight checks, rigid-motion metamorphic runs,
            numeric group laws / Euler round trips.
"""
import json
import math
import random
import sys
from fractions import Fraction as F

from vlib.ctx import Infra, TemplateMismatch

THEOREMS = [
    # orientation algebra
    "Scenic.C07.compose_assoc", "Scenic.C07.compose_identity", "Scenic.C07.compose_intrinsic",
    "Scenic.C07.inverse_two_sided", "Scenic.C07.rotations_closed", "Scenic.C07.inverse_compose",
    "Scenic.C07.quat_compose_assoc", "Scenic.C07.quat_compose_matrix", "Scenic.C07.quat_inverse_matrix",
    "Scenic.C07.quat_matrix_isRot", "Scenic.C07.quat_inverse_two_sided", "Scenic.C07.quat_scale_invariant",
    "Scenic.C07.heading_convention", "Scenic.C07.heading_zero_and_quarter", "Scenic.C07.heading_add",
    "Scenic.C07.rotatedBy_eq_rotZ", "Scenic.C07.heading_quaternion",
    "Scenic.C07.euler_forward", "Scenic.C07.euler_yaw_only", "Scenic.C07.euler_intrinsic", "Scenic.C07.euler_isRot",
    "Scenic.C07.euler_extract_construct", "Scenic.C07.euler_cos_pitch", "Scenic.C07.euler_construct_extract",
    # specifiers
    "Scenic.C07.inherited_orientation", "Scenic.C07.localCoords_relativePosition",
    "Scenic.C07.relativePosition_localCoords", "Scenic.C07.relativePosition_rigid",
    "Scenic.C07.side_operator", "Scenic.C07.front_is_face_midpoint", "Scenic.C07.corners_mem",
    "Scenic.C07.offsetBy_spec", "Scenic.C07.offsetAlong_spec",
    "Scenic.C07.relativeTo_vec_opoint", "Scenic.C07.relativeTo_vec_vec", "Scenic.C07.relativeTo_orient",
    "Scenic.C07.relativeTo_heading", "Scenic.C07.relativeTo_mixed",
    "Scenic.C07.on_base_contact", "Scenic.C07.facing_global", "Scenic.C07.facing_global_euler",
    "Scenic.C07.directional_local", "Scenic.C07.requestedGap_values", "Scenic.C07.directional_gap",
    "Scenic.C07.directional_opoint", "Scenic.C07.directional_vector", "Scenic.C07.directional_vector_midpoint",
    "Scenic.C07.directional_rigid",
    "Scenic.C07.azimuthOf_unit", "Scenic.C07.altitudeOf_unit", "Scenic.C07.beyond_frame", "Scenic.C07.beyond_local",
    "Scenic.C07.beyond_scalar", "Scenic.C07.beyond_parent_inherited",
    "Scenic.C07.facing_toward", "Scenic.C07.facing_directly_toward",
    "Scenic.C07.facing_family_generated", "Scenic.C07.facing_family_meaning",
    "Scenic.C07.facing_local_unique", "Scenic.C07.facing_number_global", "Scenic.C07.facing_yaw_difference_unsound",
    "Scenic.C07.following_uniform", "Scenic.C07.following_uniform_total", "Scenic.C07.following_step",
    "Scenic.C07.follow_step_rule",
    # operators
    "Scenic.C07.distance_symm", "Scenic.C07.distance_rigid", "Scenic.C07.distance_formula",
    "Scenic.C07.angle_spec", "Scenic.C07.angle_zero_iff_north", "Scenic.C07.altitude_spec",
    "Scenic.C07.altitude_directly_above", "Scenic.C07.relative_heading_spec", "Scenic.C07.apparent_heading_spec",
    "Scenic.C07.distance_past_spec", "Scenic.C07.yaw_of_heading",
    "Scenic.C07.apparently_facing_global_parent", "Scenic.C07.apparently_facing_parent_frame",
    "Scenic.C07.apparently_facing_respects_parent", "Scenic.C07.apparently_facing_general",
    # the (cos, sin) model at real angles
    "Scenic.C07.angOfReal_unit", "Scenic.C07.angOfReal_ops", "Scenic.C07.heading_convention_real",
    "Scenic.C07.heading_add_real", "Scenic.C07.euler_real", "Scenic.C07.ofHalf_real",
]
SIDE = [
    "Scenic.C07.gen_offset_axis", "Scenic.C07.gen_offset_other", "Scenic.C07.gen_components", "Scenic.C07.gen_contact",
    "Scenic.C07.gen_on_contact", "Scenic.C07.gen_beyond_scalar", "Scenic.C07.gen_corner_table",
    "Scenic.C07.gen_corner_signs", "Scenic.C07.gen_side_table", "Scenic.C07.gen_facing_table",
    # closed forms of the primitives instantiated on generated formulas (Lemmas/Frames.lean)
    "Scenic.Frames.euler_eq", "Scenic.Frames.gen_euler_axes", "Scenic.Frames.rotatedBy_eq",
    "Scenic.Frames.azimuthOf_eq", "Scenic.Frames.altitudeOf_eq", "Scenic.Frames.azimuthTo_eq",
    "Scenic.Frames.altitudeTo_eq", "Scenic.Frames.apparentHeading_eq",
]

V = "src/scenic/syntax/veneer.py"
VEC = "src/scenic/core/vectors.py"
OT = "src/scenic/core/object_types.py"
GEO = "src/scenic/core/geometry.py"
FINGERPRINTS = {
    **{f"veneer.{n}": (V, n) for n in (
        "LeftSpec", "RightSpec", "Ahead", "Behind", "Above", "Below", "directionalSpecHelper", "Beyond", "OffsetBy",
        "OffsetAlongSpec", "OffsetAlong", "On", "Following", "Facing", "FacingToward", "FacingDirectlyToward",
        "FacingAwayFrom", "FacingDirectlyAwayFrom", "ApparentlyFacing", "RelativeTo", "RelativePosition",
        "RelativeHeading", "ApparentHeading", "DistanceFrom", "DistancePast", "AngleFrom", "AltitudeFrom", "Follow")},
    **{f"Orientation.{n}": (VEC, f"Orientation.{n}") for n in (
        "_fromEuler", "_fromHeading", "fromQuaternion", "eulerAngles", "inverse", "__mul__", "__add__", "__radd__",
        "localAnglesFor", "_coerce")},
    **{f"Vector.{n}": (VEC, f"Vector.{n}") for n in (
        "applyRotation", "sphericalCoordinates", "rotatedBy", "offsetRotated", "offsetLocally", "distanceTo", "angleTo",
        "azimuthTo", "altitudeTo", "__add__", "__sub__", "dot", "cross")},
    "VectorField.followFrom": (VEC, "VectorField.followFrom"),
    "VectorField.__getitem__": (VEC, "VectorField.__getitem__"),
    **{f"OrientedPoint.{n}": (OT, f"OrientedPoint.{n}") for n in ("relativize", "relativePosition", "distancePast")},
    "OrientedPoint": (OT, "OrientedPoint"),
    "Object.corners": (OT, "Object.corners"),
    "Object.__init__": (OT, "Object.__init__"),
    **{f"Object.{n}": (OT, f"Object.{n}") for n in ("left", "right", "front", "back", "top", "bottom", "frontLeft",
                                                     "backRight", "topFrontLeft", "bottomBackRight")},
    "geometry.apparentHeadingAtPoint": (GEO, "apparentHeadingAtPoint"),
    "geometry.normalizeAngle": (GEO, "normalizeAngle"),
}

TOL = 1e-9
DIRS = ["left", "right", "ahead", "behind", "above", "below"]
DIR_SYNTAX = {"left": "left of", "right": "right of", "ahead": "ahead of", "behind": "behind", "above": "above",
              "below": "below"}
DIR_AXIS = {"left": (0, -1), "right": (0, 1), "ahead": (1, 1), "behind": (1, -1), "above": (2, 1), "below": (2, -1)}
SIDE_NAMES = {
    "left": "left of", "right": "right of", "front": "front of", "back": "back of", "top": "top of",
    "bottom": "bottom of", "frontLeft": "front left of", "frontRight": "front right of", "backLeft": "back left of",
    "backRight": "back right of", "topFrontLeft": "top front left of", "topFrontRight": "top front right of",
    "topBackLeft": "top back left of", "topBackRight": "top back right of",
    "bottomFrontLeft": "bottom front left of", "bottomFrontRight": "bottom front right of",
    "bottomBackLeft": "bottom back left of", "bottomBackRight": "bottom back right of",
}
SIDE_SIGNS = {
    "left": (-1, 0, 0), "right": (1, 0, 0), "front": (0, 1, 0), "back": (0, -1, 0), "top": (0, 0, 1),
    "bottom": (0, 0, -1), "frontLeft": (-1, 1, 0), "frontRight": (1, 1, 0), "backLeft": (-1, -1, 0),
    "backRight": (1, -1, 0), "topFrontLeft": (-1, 1, 1), "topFrontRight": (1, 1, 1), "topBackLeft": (-1, -1, 1),
    "topBackRight": (1, -1, 1), "bottomFrontLeft": (-1, 1, -1), "bottomFrontRight": (1, 1, -1),
    "bottomBackLeft": (-1, -1, -1), "bottomBackRight": (1, -1, -1),
}


# the `facing` family: how the new object gets its parent orientation x which member of the family is used
FACE_MODES = {
    "ex": ([], "new Ob at p, with parentOrientation Qn(pq)"),                       # explicit `with parentOrientation`
    "op": (["r = new OrientedPoint at p, facing Qn(pq)"], "new Ob ahead of r by 1"),  # inherited from an oriented point
    "sf": (["g = PointSetRegion('g', [p], orientation=VectorField('f', lambda pos: Qn(pq)))"],
           "new Ob on g"),                                                          # inherited from an oriented surface
}
FACE_SPECS = {
    "num": "facing a",                                  # a plain number (float or int)
    "tup": "facing (a[0], a[1], a[2])",                 # a (yaw, pitch, roll) tuple
    "ori": "facing Qn(a)",                              # an Orientation
    "vf": "facing VectorField('h', lambda pos: Hd(a))",  # a vector field (orientation- or heading-valued)
    "toward": "facing toward a", "away": "facing away from a",
    "dtoward": "facing directly toward a", "daway": "facing directly away from a",
    "app": "apparently facing a[0] from a[1]",
}


# --------------------------------------------------------------------------- exact helpers
def fr(x):
    x = F(x)
    return f"{x.numerator}/{x.denominator}"


def frs(xs):
    return " ".join(fr(x) for x in xs)


def fl(x):
    return repr(float(x))


def vec_s(v):
    return "(" + ", ".join(fl(c) for c in v) + ")"


class Quat:
    """exact quaternion (w, x, y, z) over Fractions (harness-side only: building test inputs)"""

    def __init__(self, w, x, y, z):
        self.c = (F(w), F(x), F(y), F(z))

    def __mul__(self, o):
        a, b = self.c, o.c
        return Quat(a[0] * b[0] - a[1] * b[1] - a[2] * b[2] - a[3] * b[3],
                    a[0] * b[1] + a[1] * b[0] + a[2] * b[3] - a[3] * b[2],
                    a[0] * b[2] - a[1] * b[3] + a[2] * b[0] + a[3] * b[1],
                    a[0] * b[3] + a[1] * b[2] - a[2] * b[1] + a[3] * b[0])

    def lean(self):
        return frs(self.c)

    def xyzw(self):
        n = math.sqrt(float(sum(c * c for c in self.c)))
        w, x, y, z = (float(c) / n for c in self.c)
        return (x, y, z, w)

    def scenic(self):
        return "Orientation.fromQuaternion((%r, %r, %r, %r))" % self.xyzw()

    def is_identity(self):
        return self.c[1] == 0 and self.c[2] == 0 and self.c[3] == 0

    def apply(self, v):
        """exact rotation of a Fraction vector"""
        w, x, y, z = self.c
        n = w * w + x * x + y * y + z * z
        m = [[(w * w + x * x - y * y - z * z), 2 * (x * y - w * z), 2 * (x * z + w * y)],
             [2 * (x * y + w * z), (w * w - x * x + y * y - z * z), 2 * (y * z - w * x)],
             [2 * (x * z - w * y), 2 * (y * z + w * x), (w * w - x * x - y * y + z * z)]]
        return tuple(sum(m[i][j] * v[j] for j in range(3)) / n for i in range(3))


def qz(a, b):
    return Quat(a, 0, 0, b)


def qx(a, b):
    return Quat(a, b, 0, 0)


def qy(a, b):
    return Quat(a, 0, b, 0)


def ang_f(h):
    """float angle of a half-angle pair"""
    return 2.0 * math.atan2(float(h[1]), float(h[0]))


def ang_cs(h):
    a, b = F(h[0]), F(h[1])
    n = a * a + b * b
    return ((a * a - b * b) / n, 2 * a * b / n)


# --------------------------------------------------------------------------- random inputs
def rnum(rng, big=20):
    r = rng.random()
    if r < 0.12:
        return F(0)
    if r < 0.3:
        return F(rng.randint(-big, big))
    return F(rng.randint(-8 * big, 8 * big), 8)


def rpos(rng, big=20):
    return tuple(rnum(rng, big) for _ in range(3))


def rdim(rng):
    return F(rng.choice([1, 2, 3, 4, 5, 6, 8, 10, 12, 20, 36]), 4)


def rdims(rng):
    return tuple(rdim(rng) for _ in range(3))


def rct(rng):
    return rng.choice([F(1, 8192), F(0), F(1, 8), F(1, 2), F(1, 1024)])


def rquat(rng, kind=None):
    kind = kind or rng.choice(["id", "yaw", "yaw", "axis", "gen", "gen", "gen", "gen"])
    if kind == "id":
        return Quat(1, 0, 0, 0), kind
    if kind == "yaw":
        a, b = rhalf(rng)
        return qz(a, b), kind
    if kind == "tilt":          # yaw * pitch * roll with non-zero pitch AND roll (pitch within (-90, 90) degrees)
        while True:
            y, pt, r = rhalf(rng), rhalf(rng, forward=True), rhalf(rng)
            if pt[1] != 0 and r[1] != 0 and r[0] != 0:
                return qz(*y) * qx(*pt) * qy(*r), kind
    if kind in ("pitch", "roll"):   # yaw and exactly one of pitch / roll
        y, t = rhalf(rng), rhalf(rng, forward=True)
        if t[1] == 0:
            t = (F(2), F(1))
        return qz(*y) * (qx(*t) if kind == "pitch" else qy(*t)), kind
    if kind == "axis":
        return rng.choice([Quat(1, 1, 0, 0), Quat(1, 0, 1, 0), Quat(1, 0, 0, 1), Quat(0, 1, 0, 0), Quat(0, 0, 1, 0),
                           Quat(0, 0, 0, 1), Quat(1, -1, 0, 0), Quat(1, 1, 1, 1)]), kind
    while True:
        c = [rng.randint(-5, 5) for _ in range(4)]
        if any(c):
            return Quat(*c), kind


def rhalf(rng, forward=False):
    """half-angle pair; forward=True keeps the angle within (-90°, 90°) with cos >= 0.1"""
    while True:
        a, b = rng.randint(-6, 6), rng.randint(-6, 6)
        if a == 0 and b == 0:
            continue
        if forward:
            if a <= 0:
                continue
            c = F(a * a - b * b, a * a + b * b)
            if c < F(1, 10):
                continue
        return (F(a), F(b))


def rdist(rng):
    k = rng.choice(["none", "s", "s", "v"])
    if k == "none":
        return k, None
    if k == "s":
        return k, rng.choice([F(0), F(1, 2), F(1), F(5, 4), F(3), F(-1, 2), F(10)])
    return k, (rnum(rng, 3), rnum(rng, 3), rnum(rng, 3))


def dist_lean(k, d):
    return {"none": "", "s": lambda: fr(d), "v": lambda: frs(d)}[k]() if k != "none" else ""


def dist_scenic(k, d):
    if k == "none":
        return ""
    if k == "s":
        return f" by ({fl(d)})"
    return f" by {vec_s(d)}"


def polar_direction(rng, vertical=False):
    """a rational direction with rational hypot witnesses: returns (d, h, rho)"""
    rho = rng.choice([F(1, 2), F(1), F(2), F(5), F(13, 2), F(10)])
    if vertical:
        s = rng.choice([1, -1])
        return (F(0), F(0), s * rho), F(0), rho
    th = rhalf(rng)
    ph = rhalf(rng, forward=True)
    ct, st = ang_cs(th)
    cp, sp = ang_cs(ph)
    d = (-st * cp * rho, ct * cp * rho, sp * rho)
    return d, cp * rho, rho


def vadd(a, b):
    return tuple(x + y for x, y in zip(a, b))


def vsub(a, b):
    return tuple(x - y for x, y in zip(a, b))


OBJ_TAIL = ", with allowCollisions True"


def obj_line(name, pos, q, dims, extra=""):
    return (f"{name} = new Object at {vec_s(pos)}, facing {q.scenic()}, with width {fl(dims[0])}, "
            f"with length {fl(dims[1])}, with height {fl(dims[2])}{extra}{OBJ_TAIL}")


def dims_s(d):
    return f", with width {fl(d[0])}, with length {fl(d[1])}, with height {fl(d[2])}"


# --------------------------------------------------------------------------- the Scenic library program
# Parsing Scenic source is slow (pure-Python PEG parser, ~0.2 s per object line), so every syntactic form is
# compiled ONCE, as a function of this library, by the real front end; the inputs of the individual cases
# come from a plain Python module (`c07_cases`) and all cases of a run are evaluated by one program.
def library_source():
    L = ["import c07_cases as _data",
         "from scenic.core.regions import PointSetRegion",
         "class Ob(Object):",
         "    allowCollisions: True",
         "def Qn(q):",
         "    return Orientation.fromQuaternion(q)",
         "def mkobj(a):",
         "    return new Ob at a[0], facing Qn(a[1]), with width a[2][0], with length a[2][1], with height a[2][2]",
         "def mkref(a):",
         "    if a[0] == 'obj':",
         "        return mkobj(a[1:])",
         "    if a[0] == 'op':",
         "        return new OrientedPoint at a[1], facing Qn(a[2])",
         "    if a[0] == 'ope':",
         "        return new OrientedPoint at a[1], facing (a[2][0], a[2][1], a[2][2])",
         "    if a[0] == 'obje':",
         "        return new Ob at a[1], facing (a[2][0], a[2][1], a[2][2])",
         "    if a[0] == 'objp':",
         "        return new Ob at a[1], with parentOrientation Qn(a[2]), with yaw a[3][0], with pitch a[3][1], with roll a[3][2]",
         "    if a[0] == 'heading':",
         "        return a[1]",
         "    if a[0] == 'orient':",
         "        return Qn(a[1])",
         "    return a[1]"]
    dims = "with width sd[0], with length sd[1], with height sd[2], with contactTolerance ct"
    for k in DIRS:
        syn = DIR_SYNTAX[k]
        L += [f"def dir_{k}_by(ref, sd, ct, d):", "    r = mkref(ref)", f"    return (r, new Ob {syn} r by d, {dims})",
              f"def dir_{k}_none(ref, sd, ct):", "    r = mkref(ref)", f"    return (r, new Ob {syn} r, {dims})",
              f"def dirvec_{k}_by(p, q, sd, ct, d):", f"    return new Ob {syn} p by d, facing Qn(q), {dims}",
              f"def dirvec_{k}_none(p, q, sd, ct):", f"    return new Ob {syn} p, facing Qn(q), {dims}"]
    for name, syn in SIDE_NAMES.items():
        L += [f"def side_{name}(r):", "    o = mkobj(r)", f"    return (o, {syn} o)"]
    L += ["def beyond_(p, off, frm):", "    f = mkref(frm)", "    return (f, new Ob beyond p by off from f)",
          "def offsetby_(r, off):", "    ego = mkobj(r)", "    return (ego, new Ob offset by off)",
          "def offsetalong_(r, h, off):", "    ego = mkobj(r)", "    hh = Qn(h) if isinstance(h, tuple) else h",
          "    return (ego, new Ob offset along hh by off)",
          "def on_vec(p, base, ct):", "    return new Ob on p, with baseOffset base, with contactTolerance ct",
          "def on_reg(p, q, base, ct):",
          "    g = PointSetRegion('g', [p], orientation=VectorField('f', lambda pos: Qn(q)))",
          "    return new Ob on g, with baseOffset base, with contactTolerance ct",
          "def Hd(a):", "    return Qn(a) if isinstance(a, tuple) else a"]
    # every member of the `facing` family under every way of getting a parent orientation
    for mode, (pre, head) in FACE_MODES.items():
        for member, spec in FACE_SPECS.items():
            L += [f"def ff_{mode}_{member}(p, pq, a):"] + ["    " + x for x in pre] + [f"    return {head}, {spec}"]
    L += ["def facing_(p, pq, tq):", "    return ff_ex_ori(p, pq, tq)",
          "def facing3_(p, pq, e):", "    return ff_ex_tup(p, pq, e)",
          "def toward_(p, pq, t):", "    return ff_ex_toward(p, pq, t)",
          "def away_(p, pq, t):", "    return ff_ex_away(p, pq, t)",
          "def dtoward_(p, pq, t):", "    return ff_ex_dtoward(p, pq, t)",
          "def daway_(p, pq, t):", "    return ff_ex_daway(p, pq, t)",
          "def appfacing_(p, pq, h, f):",
          "    n = new Ob at p, with parentOrientation Qn(pq), apparently facing h from f",
          "    return (n, apparent heading of n from f)",
          "def corners_(r):", "    return mkobj(r)",
          "def relto_(x, y):", "    return mkref(x) relative to mkref(y)",
          "def dist_(a, b):", "    return distance from mkref(a) to mkref(b)",
          "def angle_(a, b):", "    return angle from a to b",
          "def alt_(a, b):", "    return altitude from a to b",
          "def relh_(x, y):", "    return relative heading of x from y",
          "def apph_(a, hd, b):", "    o = new OrientedPoint at a, facing hd", "    return apparent heading of o from b",
          "def dpast_(a, hd, v):", "    o = new OrientedPoint at a, facing hd", "    return distance past v of o",
          "def follow_(x0, qa, qb, p, dist, ms, ss):",
          "    f = VectorField('f', lambda pos: Qn(qa) if pos.x < x0 else Qn(qb), minSteps=ms, defaultStepSize=ss)",
          "    return new Ob following f from p for dist",
          "def followcount_(x0, qa, qb, p, dist, ms, ss):",
          "    cnt = []",
          "    def val(pos):",
          "        cnt.append(1)",
          "        return Qn(qa) if pos.x < x0 else Qn(qb)",
          "    f = VectorField('f', val, minSteps=ms, defaultStepSize=ss)",
          "    n = new Ob following f from p for dist",
          "    return (n, len(cnt))",
          "_fns = globals()",
          "def safe(c):",
          "    try:",
          "        return _fns[c[0]](*c[1:])",
          "    except Exception as e:",
          "        return 'crash:' + type(e).__name__ + ': ' + str(e)[:160]",
          "param results = [safe(c) for c in _data.CASES]"]
    return "\n".join(L) + "\n"


def fv(v):
    return tuple(float(c) for c in v)


def tuplify(x):
    return tuple(tuplify(y) for y in x) if isinstance(x, (list, tuple)) else x


def run_calls_once(calls):
    import types
    import scenic
    mod = types.ModuleType("c07_cases")
    mod.CASES = [tuplify(c) for c in calls]
    sys.modules["c07_cases"] = mod
    try:
        sc = scenic.scenarioFromString(library_source())
        scene, _ = sc.generate(maxIterations=50)
        res = list(scene.params["results"])
    finally:
        sys.modules.pop("c07_cases", None)
    if len(res) != len(calls):
        raise Infra(f"library program returned {len(res)} results for {len(calls)} calls")
    return res


def run_calls(calls, depth=0):
    """evaluate library calls with the real Scenic; a failure of the whole program is bisected"""
    if not calls:
        return []
    try:
        return run_calls_once(calls)
    except Infra:
        raise
    except Exception as e:  # noqa
        if len(calls) == 1 or depth >= 6:
            return [f"crash:{type(e).__name__}: {str(e)[:160]}"] * len(calls)
        h = len(calls) // 2
        return run_calls(calls[:h], depth + 1) + run_calls(calls[h:], depth + 1)


# --------------------------------------------------------------------------- case generators
# a case: {"op", "lean": model query, "call": library call, "get": extractor, "pick": index in the returned tuple,
#          "scale", "code": the equivalent stand-alone Scenic program (used by --replay and for reading)}
def mag(*vs):
    m = 1.0
    for v in vs:
        for c in (v if isinstance(v, (tuple, list)) else [v]):
            m = max(m, abs(float(c)))
    return m


def dval(dk, d):
    return None if dk == "none" else float(d) if dk == "s" else fv(d)


def dir_call(k, ref, sd, ct, dk, d):
    if dk == "none":
        return (f"dir_{k}_none", ref, fv(sd), float(ct))
    return (f"dir_{k}_by", ref, fv(sd), float(ct), dval(dk, d))


def case_dirobj(rng):
    k = rng.choice(DIRS)
    rp, (rq, qk), rd, sd, ct = rpos(rng), rquat(rng), rdims(rng), rdims(rng), rct(rng)
    dk, d = rdist(rng)
    lean = f"C07 dirobj {k} {dk} {frs(rp)} {rq.lean()} {frs(rd)} {frs(sd)} {fr(ct)} {dist_lean(dk, d)}".strip()
    code = [obj_line("r", rp, rq, rd),
            f"n = new Object {DIR_SYNTAX[k]} r{dist_scenic(dk, d)}{dims_s(sd)}, with contactTolerance {fl(ct)}{OBJ_TAIL}"]
    return {"op": f"dirobj:{k}:{dk}:{qk}", "lean": lean, "code": code, "get": "pos_parent_ori", "pick": 1,
            "call": dir_call(k, ("obj", fv(rp), rq.xyzw(), fv(rd)), sd, ct, dk, d), "scale": mag(rp, rd, sd, d or 0)}


def case_dirop(rng):
    k = rng.choice(DIRS)
    rp, (rq, qk), sd = rpos(rng), rquat(rng), rdims(rng)
    dk, d = rdist(rng)
    ct = rct(rng)
    lean = f"C07 dirop {k} {dk} {frs(rp)} {rq.lean()} {frs(sd)} {dist_lean(dk, d)}".strip()
    code = [f"p = new OrientedPoint at {vec_s(rp)}, facing {rq.scenic()}",
            f"n = new Object {DIR_SYNTAX[k]} p{dist_scenic(dk, d)}{dims_s(sd)}, with contactTolerance {fl(ct)}{OBJ_TAIL}"]
    return {"op": f"dirop:{k}:{dk}:{qk}", "lean": lean, "code": code, "get": "pos_parent_ori", "pick": 1,
            "call": dir_call(k, ("op", fv(rp), rq.xyzw()), sd, ct, dk, d), "scale": mag(rp, sd, d or 0)}


def case_dirvec(rng):
    k = rng.choice(DIRS)
    p, (q, qk), sd, ct = rpos(rng), rquat(rng), rdims(rng), rct(rng)
    dk, d = rdist(rng)
    lean = f"C07 dirvec {k} {dk} {frs(p)} {q.lean()} {frs(sd)} {dist_lean(dk, d)}".strip()
    code = [f"n = new Object {DIR_SYNTAX[k]} {vec_s(p)}{dist_scenic(dk, d)}, facing {q.scenic()}{dims_s(sd)}, "
            f"with contactTolerance {fl(ct)}{OBJ_TAIL}"]
    call = (f"dirvec_{k}_none", fv(p), q.xyzw(), fv(sd), float(ct)) if dk == "none" else \
           (f"dirvec_{k}_by", fv(p), q.xyzw(), fv(sd), float(ct), dval(dk, d))
    return {"op": f"dirvec:{k}:{dk}:{qk}", "lean": lean, "code": code, "get": "pos", "pick": None, "call": call,
            "scale": mag(p, sd, d or 0)}


def case_beyond(rng):
    p = rpos(rng)
    d, h, rho = polar_direction(rng, vertical=rng.random() < 0.1)
    f = vsub(p, d)
    kind = rng.choice(["v", "v", "s"])
    off = (rnum(rng, 5), rnum(rng, 5), rnum(rng, 5)) if kind == "v" else rnum(rng, 5)
    fk = rng.choice(["vec", "op", "op"])
    code = []
    if fk == "op":
        fq, qk = rquat(rng)
        code.append(f"p = new OrientedPoint at {vec_s(f)}, facing {fq.scenic()}")
        frm, tail, ref = "p", " " + fq.lean(), ("op", fv(f), fq.xyzw())
    else:
        qk = "-"
        frm, tail, ref = vec_s(f), "", ("vec", fv(f))
    offs = vec_s(off) if kind == "v" else f"({fl(off)})"
    lean = f"C07 beyond {kind} {fk} {frs(p)} {frs(off) if kind == 'v' else fr(off)} {frs(f)} {fr(h)} {fr(rho)}{tail}"
    code += [f"n = new Object beyond {vec_s(p)} by {offs} from {frm}{OBJ_TAIL}"]
    return {"op": f"beyond:{kind}:{fk}:{qk}:{'vertical' if h == 0 else 'general'}", "lean": lean, "code": code,
            "get": "pos_parent", "pick": 1, "call": ("beyond_", fv(p), fv(off) if kind == "v" else float(off), ref),
            "scale": mag(p, f, off)}


def case_offsetby(rng):
    p, (q, qk), dims, off = rpos(rng), rquat(rng), rdims(rng), rpos(rng, 5)
    lean = f"C07 offsetby {frs(p)} {q.lean()} {frs(off)}"
    code = [obj_line("ego", p, q, dims), f"n = new Object offset by {vec_s(off)}{OBJ_TAIL}"]
    return {"op": f"offsetby:{qk}", "lean": lean, "code": code, "get": "pos_parent", "pick": 1,
            "call": ("offsetby_", (fv(p), q.xyzw(), fv(dims)), fv(off)), "scale": mag(p, off)}


def case_offsetalong(rng):
    p, (q, qk), dims, off = rpos(rng), rquat(rng), rdims(rng), rpos(rng, 5)
    if rng.random() < 0.4:
        hh = rhalf(rng)
        hq, hs, hk, ha = qz(*hh), f"({fl(ang_f(hh))})", "heading", ang_f(hh)
    else:
        hq, hk = rquat(rng)
        hs, ha = "(" + hq.scenic() + ")", hq.xyzw()
    lean = f"C07 offsetalong {frs(p)} {q.lean()} {hq.lean()} {frs(off)}"
    code = [obj_line("ego", p, q, dims), f"n = new Object offset along {hs} by {vec_s(off)}{OBJ_TAIL}"]
    return {"op": f"offsetalong:{qk}:{hk}", "lean": lean, "code": code, "get": "pos_parent", "pick": 1,
            "call": ("offsetalong_", (fv(p), q.xyzw(), fv(dims)), ha, fv(off)), "scale": mag(p, off)}


def case_on(rng):
    p, ct, base = rpos(rng), rct(rng), (rnum(rng, 2), rnum(rng, 2), rnum(rng, 2))
    if rng.random() < 0.5:
        lean = f"C07 on {frs(p)} {fr(ct)} {frs(base)}"
        code = [f"n = new Object on {vec_s(p)}, with baseOffset {vec_s(base)}, with contactTolerance {fl(ct)}{OBJ_TAIL}"]
        k, call = "vector", ("on_vec", fv(p), fv(base), float(ct))
    else:
        q, qk = rquat(rng)
        lean = f"C07 on {frs(p)} {fr(ct)} {frs(base)} {q.lean()}"
        code = ["from scenic.core.regions import PointSetRegion",
                f"g = PointSetRegion('g', [{vec_s(p)}], orientation=VectorField('f', lambda pos: {q.scenic()}))",
                f"n = new Object on g, with baseOffset {vec_s(base)}, with contactTolerance {fl(ct)}{OBJ_TAIL}"]
        k, call = "region:" + qk, ("on_reg", fv(p), q.xyzw(), fv(base), float(ct))
    return {"op": f"on:{k}", "lean": lean, "code": code, "get": "pos", "pick": None, "call": call, "scale": mag(p, base)}


def case_facing(rng):
    """`facing H` (H an Orientation, a number, a tuple, a vector field) under an explicit / inherited parent orientation:
    local angles and global orientation"""
    member = rng.choice(["ori", "ori", "num", "num", "tup", "vf", "vfh"])
    mode = rng.choice(["ex", "ex", "op", "sf"])
    (pq, pk), p = rquat(rng, rng.choice([None, "tilt"])), rpos(rng)
    if member in ("ori", "vf"):
        tq, tk = rquat(rng)
        a, src = tq.xyzw(), tq.scenic()
    elif member in ("num", "vfh"):
        hh = rhalf(rng)
        tq, tk, a = qz(*hh), "heading", ang_f(hh)
        src = f"({fl(a)})"
    else:
        y, pt, r = rhalf(rng), rhalf(rng, forward=True), rhalf(rng)
        tq, tk, a = qz(*y) * qx(*pt) * qy(*r), "euler", (ang_f(y), ang_f(pt), ang_f(r))
        src = f"({fl(a[0])}, {fl(a[1])}, {fl(a[2])})"
    if member in ("vf", "vfh"):
        src = f"VectorField('h', lambda pos: {src})"
    lean = f"C07 facing {pq.lean()} {tq.lean()}"
    pre, head = FACE_MODES[mode]
    code = [x.replace("Qn(pq)", "(" + pq.scenic() + ")").replace("[p]", "[" + vec_s(p) + "]").replace(" p,", " " + vec_s(p) + ",")
            for x in pre]
    code += ["n = " + head.replace("new Ob", "new Object").replace("Qn(pq)", "(" + pq.scenic() + ")")
             .replace("at p", "at " + vec_s(p)) + f", facing {src}{OBJ_TAIL}"]
    fn = "vf" if member == "vfh" else member
    return {"op": f"facing:{member}:{mode}:{pk}:{tk}", "lean": lean, "code": code, "get": "local_global", "pick": None,
            "call": (f"ff_{mode}_{fn}", fv(p), pq.xyzw(), a), "scale": 1.0}


def case_facingtoward(rng):
    away, directly = rng.random() < 0.5, rng.random() < 0.5
    (pq, pk), p = rquat(rng), rpos(rng)
    d, h, rho = polar_direction(rng)        # direction in the PARENT frame
    g = pq.apply(d)                         # global direction
    t = vsub(p, g) if away else vadd(p, g)
    kw = ("facing directly away from" if away else "facing directly toward") if directly else \
         ("facing away from" if away else "facing toward")
    fn = ("daway_" if away else "dtoward_") if directly else ("away_" if away else "toward_")
    spec = ("FacingDirectlyAwayFrom" if away else "FacingDirectlyToward") if directly else \
           ("FacingAwayFrom" if away else "FacingToward")
    lean = f"C07 facingtoward {spec} {'away' if away else 'toward'} {pq.lean()} {frs(p)} {frs(t)} {fr(h)} {fr(rho)}"
    code = [f"n = new Object at {vec_s(p)}, with parentOrientation {pq.scenic()}, {kw} {vec_s(t)}{OBJ_TAIL}"]
    return {"op": f"facingtoward:{fn}:{pk}", "lean": lean, "code": code, "get": "yaw_pitch_ori", "pick": None,
            "call": (fn, fv(p), pq.xyzw(), fv(t)), "scale": 1.0}


def case_appfacing(rng):
    (pq, pk) = rquat(rng, rng.choice(["id", "yaw", "yaw"]))
    p = rpos(rng)
    d, h, rho = polar_direction(rng)
    f = vsub(p, d)
    hd = rhalf(rng)
    lean = f"C07 appfacing {pq.lean()} {frs(p)} {frs(f)} {frs(hd)} {fr(h)}"
    code = [f"n = new Object at {vec_s(p)}, with parentOrientation {pq.scenic()}, apparently facing ({fl(ang_f(hd))}) "
            f"from {vec_s(f)}{OBJ_TAIL}"]
    return {"op": f"appfacing:{pk}", "lean": lean, "code": code, "get": "yaw", "pick": 0,
            "call": ("appfacing_", fv(p), pq.xyzw(), ang_f(hd), fv(f)), "scale": 1.0}


def case_side(rng):
    name = rng.choice(sorted(SIDE_NAMES))
    p, (q, qk), dims = rpos(rng), rquat(rng), rdims(rng)
    lean = f"C07 side {name} {frs(p)} {q.lean()} {frs(dims)}"
    code = [obj_line("r", p, q, dims), f"n = {SIDE_NAMES[name]} r"]
    return {"op": f"side:{name}", "lean": lean, "code": code, "get": "pos_ori", "pick": 1,
            "call": (f"side_{name}", (fv(p), q.xyzw(), fv(dims))), "scale": mag(p, dims)}


def case_corners(rng):
    p, (q, qk), dims = rpos(rng), rquat(rng), rdims(rng)
    lean = f"C07 corners {frs(p)} {q.lean()} {frs(dims)}"
    code = [obj_line("n", p, q, dims)]
    return {"op": f"corners:{qk}", "lean": lean, "code": code, "get": "corners", "pick": None,
            "call": ("corners_", (fv(p), q.xyzw(), fv(dims))), "scale": mag(p, dims)}


def rel_arg(rng, kind, code, nm):
    """returns (lean-args, scenic-expression, library reference)"""
    if kind == "vec":
        v = rpos(rng, 5)
        return frs(v), vec_s(v), ("vec", fv(v))
    if kind == "heading":
        h = rhalf(rng)
        return frs(h), f"({fl(ang_f(h))})", ("heading", ang_f(h))
    if kind == "orient":
        q, _ = rquat(rng)
        return q.lean(), "(" + q.scenic() + ")", ("orient", q.xyzw())
    # oriented point built from Euler angles so that cos(pitch) is a rational witness
    y, pt, r = rhalf(rng), rhalf(rng, forward=True), rhalf(rng)
    q = qz(*y) * qx(*pt) * qy(*r)
    p = rpos(rng)
    e = (ang_f(y), ang_f(pt), ang_f(r))
    if rng.random() < 0.5:
        code.append(f"{nm} = new OrientedPoint at {vec_s(p)}, facing ({fl(e[0])}, {fl(e[1])}, {fl(e[2])})")
        ref = ("ope", fv(p), e)
    else:
        code.append(f"{nm} = new Object at {vec_s(p)}, facing ({fl(e[0])}, {fl(e[1])}, {fl(e[2])}){OBJ_TAIL}")
        ref = ("obje", fv(p), e)
    return f"{frs(p)} {q.lean()} {fr(ang_cs(pt)[0])}", nm, ref


def case_relto(rng):
    kx, ky = rng.choice([("vec", "vec"), ("vec", "opoint"), ("opoint", "vec"), ("orient", "orient"),
                         ("heading", "heading"), ("heading", "orient"), ("orient", "heading"),
                         ("opoint", "orient"), ("orient", "opoint"), ("opoint", "heading"), ("heading", "opoint")])
    code = []
    ax, sx, rx = rel_arg(rng, kx, code, "ox")
    ay, sy, ry = rel_arg(rng, ky, code, "oy")
    lean = f"C07 relto {kx} {ky} {ax} {ay}"
    code.append(f"n = {sx} relative to {sy}")
    return {"op": f"relto:{kx}:{ky}", "lean": lean, "code": code, "get": "rel", "pick": None,
            "call": ("relto_", rx, ry), "scale": 25.0}


def case_operator(rng):
    which = rng.choice(["distsq", "azimuth", "altitude", "relheading", "appheading", "distpast"])
    a = rpos(rng)
    if which == "distsq":
        b = rpos(rng)
        return {"op": which, "lean": f"C07 distsq {frs(a)} {frs(b)}", "code": [f"n = distance from {vec_s(a)} to {vec_s(b)}"],
                "get": "square", "pick": None, "call": ("dist_", ("vec", fv(a)), ("vec", fv(b))), "scale": mag(a, b) ** 2}
    if which in ("azimuth", "altitude"):
        d, h, rho = polar_direction(rng, vertical=(which == "altitude" and rng.random() < 0.15))
        b = vadd(a, d)
        if which == "azimuth":
            return {"op": which, "lean": f"C07 azimuth {frs(a)} {frs(b)} {fr(h)}",
                    "code": [f"n = angle from {vec_s(a)} to {vec_s(b)}"], "get": "angle", "pick": None,
                    "call": ("angle_", fv(a), fv(b)), "scale": 1.0}
        return {"op": which + (":vertical" if h == 0 else ""), "lean": f"C07 altitude {frs(a)} {frs(b)} {fr(h)} {fr(rho)}",
                "code": [f"n = altitude from {vec_s(a)} to {vec_s(b)}"], "get": "angle", "pick": None,
                "call": ("alt_", fv(a), fv(b)), "scale": 1.0}
    if which == "relheading":
        x, y = rhalf(rng), rhalf(rng)
        return {"op": which, "lean": f"C07 relheading {frs(x)} {frs(y)}",
                "code": [f"n = relative heading of ({fl(ang_f(x))}) from ({fl(ang_f(y))})"],
                "get": "angle", "pick": None, "call": ("relh_", ang_f(x), ang_f(y)), "scale": 1.0}
    hd = rhalf(rng)
    if which == "appheading":
        d, h, rho = polar_direction(rng)
        b = vsub(a, d)
        return {"op": which, "lean": f"C07 appheading {frs(a)} {frs(hd)} {frs(b)} {fr(h)}",
                "code": [f"o = new OrientedPoint at {vec_s(a)}, facing ({fl(ang_f(hd))})",
                         f"n = apparent heading of o from {vec_s(b)}"], "get": "angle", "pick": None,
                "call": ("apph_", fv(a), ang_f(hd), fv(b)), "scale": 1.0}
    v = rpos(rng)
    return {"op": which, "lean": f"C07 distpast {frs(a)} {frs(hd)} {frs(v)}",
            "code": [f"o = new OrientedPoint at {vec_s(a)}, facing ({fl(ang_f(hd))})",
                     f"n = distance past {vec_s(v)} of o"], "get": "scalar", "pick": None,
            "call": ("dpast_", fv(a), ang_f(hd), fv(v)), "scale": mag(a, v)}


def case_follow(rng):
    x0 = rnum(rng, 5)
    (qa, ka), (qb, kb) = rquat(rng), rquat(rng)
    p = rpos(rng, 6)
    dist = rng.choice([F(1), F(3), F(10), F(21, 2), F(25), F(-4), F(1, 2)])
    ms, ss = rng.choice([1, 2, 4, 7]), rng.choice([F(5), F(1), F(5, 2), F(30)])
    lean = f"C07 follow {fr(x0)} {qa.lean()} {qb.lean()} {frs(p)} {fr(dist)} {ms} {fr(ss)}"
    code = [f"f = VectorField('f', lambda pos: ({qa.scenic()}) if pos.x < {fl(x0)} else ({qb.scenic()}), "
            f"minSteps={ms}, defaultStepSize={fl(ss)})",
            f"n = new Object following f from {vec_s(p)} for {fl(dist)}{OBJ_TAIL}"]
    return {"op": f"follow:{ka}:{kb}", "lean": lean, "code": code, "get": "pos_parent", "pick": None, "margin": True,
            "call": ("follow_", float(x0), qa.xyzw(), qb.xyzw(), fv(p), float(dist), ms, float(ss)), "scale": mag(p, dist)}


def case_api(rng):
    """direct calls of the Orientation / Vector API (no program)"""
    which = rng.choice(["euler", "eulerx", "qmul", "qinv", "qapply", "rotatedby", "orim"])
    if which in ("euler", "eulerx"):
        y, p, r = rhalf(rng), rhalf(rng, forward=(which == "eulerx")), rhalf(rng)
        return {"op": which, "lean": f"C07 {which} {frs(y)} {frs(p)} {frs(r)}", "api": [which, ang_f(y), ang_f(p), ang_f(r)],
                "scale": 1.0}
    if which == "qmul":
        (a, _), (b, _) = rquat(rng), rquat(rng)
        return {"op": which, "lean": f"C07 qmul {a.lean()} {b.lean()}", "api": [which, a.xyzw(), b.xyzw()], "scale": 1.0}
    if which in ("qinv", "orim"):
        a, _ = rquat(rng)
        return {"op": which, "lean": f"C07 {which} {a.lean()}", "api": [which, a.xyzw()], "scale": 1.0}
    v = rpos(rng)
    if which == "qapply":
        a, _ = rquat(rng)
        return {"op": which, "lean": f"C07 qapply {a.lean()} {frs(v)}", "api": [which, a.xyzw(), [float(c) for c in v]],
                "scale": mag(v)}
    h = rhalf(rng)
    return {"op": which, "lean": f"C07 rotatedby {frs(v)} {frs(h)}", "api": [which, [float(c) for c in v], ang_f(h)],
            "scale": mag(v)}


CASE_MIX = [(case_dirobj, 10), (case_dirop, 4), (case_dirvec, 4), (case_beyond, 5), (case_offsetby, 2),
            (case_offsetalong, 3), (case_on, 3), (case_facing, 4), (case_facingtoward, 5), (case_appfacing, 3),
            (case_side, 4), (case_corners, 1), (case_relto, 6), (case_operator, 7), (case_follow, 3), (case_api, 6)]


def gen_cases(rng, n):
    fns = [f for f, w in CASE_MIX for _ in range(w)]
    out = []
    for f, _ in CASE_MIX:     # every generator at least once, then by weight
        out.append(f(rng))
    while len(out) < n:
        out.append(rng.choice(fns)(rng))
    return out


# --------------------------------------------------------------------------- reading results of the real code
def mat(o):
    return [float(x) for row in o.r.as_matrix() for x in row]


def cs(a):
    return [math.cos(a), math.sin(a)]


def extract(kind, v):
    from scenic.core.object_types import OrientedPoint
    from scenic.core.vectors import Orientation, Vector
    if kind == "pos_parent_ori":
        # position, parentOrientation, and the resulting orientation (default yaw/pitch/roll) must equal it
        return [float(c) for c in v.position] + mat(v.parentOrientation) + mat(v.orientation)
    if kind == "pos_parent":
        return [float(c) for c in v.position] + mat(v.parentOrientation)
    if kind == "pos":
        return [float(c) for c in v.position]
    if kind == "pos_ori":
        return [float(c) for c in v.position] + mat(v.orientation)
    if kind == "local_global":
        return mat(Orientation.fromEuler(v.yaw, v.pitch, v.roll)) + mat(v.orientation)
    if kind == "yaw_pitch_ori":
        return cs(v.yaw) + cs(v.pitch) + mat(v.orientation)
    if kind == "yaw":
        return cs(v.yaw)
    if kind == "corners":
        return [float(x) for c in v.corners for x in c]
    if kind == "square":
        return [float(v) ** 2]
    if kind == "scalar":
        return [float(v)]
    if kind == "angle":
        return cs(float(v))
    if kind == "rel":
        if isinstance(v, OrientedPoint):
            return ["opoint"] + [float(c) for c in v.position] + mat(v.parentOrientation)
        if isinstance(v, Orientation):
            return ["orient"] + mat(v)
        if isinstance(v, Vector):
            return ["vec"] + [float(c) for c in v]
        if isinstance(v, (int, float)) or hasattr(v, "__float__"):
            return ["heading"] + cs(float(v))
        return ["other:" + type(v).__name__]
    raise ValueError(kind)


def run_api(spec):
    from scenic.core.vectors import Orientation, Vector
    which = spec[0]
    if which == "euler":
        return mat(Orientation.fromEuler(*spec[1:]))
    if which == "eulerx":
        e = Orientation.fromEuler(*spec[1:]).eulerAngles
        return cs(e[0]) + cs(e[1]) + cs(e[2])
    if which == "qmul":
        m = mat(Orientation.fromQuaternion(spec[1]) * Orientation.fromQuaternion(spec[2]))
        return m + m
    if which == "qinv":
        return mat(Orientation.fromQuaternion(spec[1]).inverse)
    if which == "orim":
        return mat(Orientation.fromQuaternion(spec[1]))
    if which == "qapply":
        return [float(c) for c in Vector(*spec[2]).applyRotation(Orientation.fromQuaternion(spec[1]))]
    if which == "rotatedby":
        return [float(c) for c in Vector(*spec[1]).rotatedBy(spec[2])]
    raise ValueError(which)


def result_of(case, raw):
    """canonical python-side value of one case from the raw library result"""
    if isinstance(raw, str):
        return "python " + raw
    try:
        v = raw if case.get("pick") is None else raw[case["pick"]]
        return extract(case["get"], v)
    except Exception as e:  # noqa
        return f"python crash:{type(e).__name__}: {str(e)[:120]}"


def parse_lean(line):
    res = []
    for t in line.split():
        if "/" in t or t.lstrip("-").isdigit():
            res.append(float(F(t)))
        else:
            res.append(t)
    return res


def compare(case, lean_line, py):
    """-> None if equal, 'SKIP', or a description of the difference"""
    if isinstance(py, str):
        return py
    if lean_line in ("bad-op", "bad-witness"):
        raise Infra(f"lean driver answered {lean_line} for {case['lean']}")
    lv = parse_lean(lean_line)
    if case.get("margin"):
        # follow: "<n> <margin> ..."; skip when the walk passes too close to the field's discontinuity
        if lv[1] < 1e-6:
            return "SKIP"
        lv = lv[2:]
    if len(lv) != len(py):
        return f"shape differs: lean {len(lv)} values, python {len(py)}"
    tol = TOL * max(1.0, case["scale"])
    for a, b in zip(lv, py):
        if isinstance(a, str) or isinstance(b, str):
            if a != b:
                return f"kind differs: lean {a}, python {b}"
        elif not (abs(a - b) <= tol):
            return f"value differs: lean {a!r}, python {b!r} (tolerance {tol:g})"
    return None


class Batch:
    """all library calls of a run are evaluated by ONE program"""

    def __init__(self):
        self.calls, self.res = [], None

    def add(self, call):
        self.calls.append(call)
        return len(self.calls) - 1

    def run(self):
        self.res = run_calls(self.calls)


def plan_correspondence(ctx, batch, n):
    cases = gen_cases(ctx.rng, n)
    for c in cases:
        if "call" in c:
            c["idx"] = batch.add(c["call"])
    return cases


def finish_correspondence(ctx, batch, cases):
    py = []
    for c in cases:
        if "api" in c:
            try:
                py.append(run_api(c["api"]))
            except Exception as e:  # noqa
                py.append(f"python crash:{type(e).__name__}: {str(e)[:120]}")
        else:
            py.append(result_of(c, batch.res[c["idx"]]))
    lean = ctx.driver([c["lean"] for c in cases])
    bad = 0
    for c, a, b in zip(cases, lean, py):
        ctx.case(c["lean"], nontrivial=":id" not in c["op"])
        ctx.hist("op", c["op"].split(":")[0])
        ctx.hist("variant", c["op"])
        r = compare(c, a, b)
        if r == "SKIP":
            ctx.hist("outcome", "skipped-near-discontinuity")
            continue
        ctx.hist("outcome", "agree" if r is None else "DISAGREE")
        if r is not None:
            bad += 1
            if bad <= 5:
                ctx.broken("correspondence", f"frame model vs real code ({c['op'].split(':')[0]})",
                           f"{c['lean']}: {r}; program: {' ; '.join(c.get('code', [str(c.get('api'))]))[:600]}")
    return bad


# --------------------------------------------------------------------------- direct oracle (no model)
def np_():
    import numpy
    return numpy


def box_corners(o):
    np = np_()
    R = o.orientation.r
    hw, hl, hh = o.width / 2, o.length / 2, o.height / 2
    return [np.array(o.position) + R.apply([sx * hw, sy * hl, sz * hh])
            for sx in (1, -1) for sy in (1, -1) for sz in (1, -1)]


def angdiff(a, b):
    d = (a - b) % (2 * math.pi)
    return min(d, 2 * math.pi - d)


def enc(x):
    """JSON-able encoding of a case (Fractions, exact quaternions, tuples)"""
    if isinstance(x, F):
        return {"__F": f"{x.numerator}/{x.denominator}"}
    if isinstance(x, Quat):
        return {"__Q": [f"{c.numerator}/{c.denominator}" for c in x.c]}
    if isinstance(x, tuple):
        return {"__T": [enc(y) for y in x]}
    if isinstance(x, list):
        return [enc(y) for y in x]
    if isinstance(x, dict):
        return {k: enc(v) for k, v in x.items()}
    return x


def dec(x):
    if isinstance(x, dict):
        if "__F" in x:
            return F(x["__F"])
        if "__Q" in x:
            return Quat(*[F(c) for c in x["__Q"]])
        if "__T" in x:
            return tuple(dec(y) for y in x["__T"])
        return {k: dec(v) for k, v in x.items()}
    if isinstance(x, list):
        return [dec(y) for y in x]
    return x


def rep_of(c, what, family=None):
    """replay record: the library call (readable) and the whole case, from which `replay` re-runs the call on the
    real code and re-evaluates the same oracle"""
    return {"kind": "oracle", "family": family or c.get("family"), "call": c.get("call"), "what": what,
            "case": enc({k: v for k, v in c.items() if k != "idx"})}


def crashed(ctx, c, raw, family):
    """a library call that raised inside the real code"""
    if isinstance(raw, str):
        name = raw.split(":")[1] if ":" in raw else "Exception"
        return ctx.violation(f"{family}:crash:{name}", f"{c['call'][0]} raised: {raw}", rep_of(c, family))
    return None


def plan_directional(ctx, batch, n):
    rng = ctx.rng
    cases = []
    for _ in range(n):
        k = rng.choice(DIRS)
        rp, (rq, qk), rd, sd, ct = rpos(rng), rquat(rng), rdims(rng), rdims(rng), rct(rng)
        dk, d = rdist(rng)
        refkind = rng.choice(["obj", "obj", "op", "vec"])
        c = dict(family="directional", k=k, rp=rp, rq=rq, qk=qk, rd=rd, sd=sd, ct=ct, dk=dk, d=d, refkind=refkind)
        if refkind == "vec":
            c["call"] = (f"dirvec_{k}_none", fv(rp), rq.xyzw(), fv(sd), float(ct)) if dk == "none" else \
                        (f"dirvec_{k}_by", fv(rp), rq.xyzw(), fv(sd), float(ct), dval(dk, d))
        else:
            ref = ("obj", fv(rp), rq.xyzw(), fv(rd)) if refkind == "obj" else ("op", fv(rp), rq.xyzw())
            c["call"] = dir_call(k, ref, sd, ct, dk, d)
        c["idx"] = batch.add(c["call"])
        cases.append(c)
    return cases


def finish_directional(ctx, batch, cases):
    np = np_()
    found = False
    for c in cases:
        raw = batch.res[c["idx"]]
        ctx.evaluations += 1
        ctx.hist("oracle_directional", f"{c['refkind']}:{c['dk']}")
        v = crashed(ctx, c, raw, "directional")
        if v is not None:
            found |= v
            continue
        what = f"{c['k']} of <{c['refkind']}> by {c['dk']}"
        rep = rep_of(c, what)
        nobj = raw if c["refkind"] == "vec" else raw[1]
        axis, sgn = DIR_AXIS[c["k"]]
        tol = 1e-8 * mag(c["rp"], c["rd"], c["sd"], c["d"] or 0)
        D = 0.0 if c["dk"] == "none" else float(c["d"]) if c["dk"] == "s" else float(c["d"][axis])
        others = [0.0, 0.0, 0.0] if c["dk"] != "v" else [float(x) for x in c["d"]]
        # the bounding box reported by the real code agrees with position/orientation/dimensions
        mine = box_corners(nobj)
        real = [np.array(x) for x in nobj.corners]
        if len(real) != 8 or not all(min(np.linalg.norm(m - r) for r in real) <= tol for m in mine):
            found |= ctx.violation("corners:mismatch", "Object.corners is not position + orientation·(±w/2, ±l/2, ±h/2)", rep)
        if c["refkind"] == "vec":
            # own frame: the given point is at -sgn*(size/2 + D) along the axis, offsets on the others
            R = nobj.orientation.r
            loc = R.inv().apply(np.array(nobj.position) - np.array([float(x) for x in c["rp"]]))
            size = (nobj.width, nobj.length, nobj.height)[axis]
            want = list(others)
            want[axis] = sgn * (size / 2 + D)
            if max(abs(loc - np.array(want))) > tol:
                found |= ctx.violation(f"directional-vector:{c['k']}:{c['dk']}",
                                       f"{what}: centre at {list(loc)} in own frame, expected {want}", rep)
            continue
        ref = raw[0]
        R = ref.orientation.r
        if np.abs(nobj.parentOrientation.r.as_matrix() - R.as_matrix()).max() > 1e-9:
            found |= ctx.violation(f"directional-inherit:{c['k']}:{c['refkind']}",
                                   f"{what}: the new object does not inherit the reference's orientation", rep)
        to_local = lambda p: R.inv().apply(np.array(p) - np.array(ref.position))
        ncs = [to_local(x) for x in real]
        if c["refkind"] == "obj":
            xcs = [to_local(x) for x in ref.corners]
            want = D + (float(c["ct"]) / 2 if c["dk"] == "none" else 0.0)
        else:
            xcs = [np.zeros(3)]
            want = D
        if sgn > 0:
            gap = min(x[axis] for x in ncs) - max(x[axis] for x in xcs)
        else:
            gap = min(x[axis] for x in xcs) - max(x[axis] for x in ncs)
        if abs(gap - want) > tol:
            found |= ctx.violation(f"gap:{c['k']}:{c['refkind']}:{c['dk']}",
                                   f"{what}: gap between the boxes along the axis is {gap!r}, expected {want!r}", rep)
        ctr = to_local(nobj.position)
        for ax in range(3):
            if ax != axis and abs(ctr[ax] - others[ax]) > tol:
                found |= ctx.violation(f"directional-offsets:{c['k']}:{c['refkind']}:{c['dk']}",
                                       f"{what}: local coordinate {ax} of the new centre is {ctr[ax]!r}, expected {others[ax]!r}", rep)
    return found


FACE_KINDS = ["num", "num", "int", "tup", "ori", "vf", "vfh", "toward", "away", "dtoward", "daway", "app", "apparent", "apparent"]


def plan_facing(ctx, batch, n):
    """every member of the `facing` family (`facing H` with H a number / int / tuple / Orientation / vector field,
    `facing [directly] toward / away from`, `apparently facing`) x every way of getting the parent orientation
    (explicit `with parentOrientation`, inherited from an oriented point, from an oriented surface) x parents with
    non-zero pitch and roll"""
    rng = ctx.rng
    cases = []
    combos = [(k, m) for k in dict.fromkeys(FACE_KINDS) for m in FACE_MODES if k != "apparent"]
    rng.shuffle(combos)
    for i in range(n):
        if i < len(combos):          # every (member, mode) combination at least once, under a tilted parent
            kind, mode = combos[i]
            pk = "tilt"
        else:
            kind, mode = rng.choice(FACE_KINDS), rng.choice(["ex", "ex", "op", "sf"])
            pk = rng.choice(["tilt", "tilt", "gen", "pitch", "roll", None])
        if kind == "apparent":
            mode = "ex"
            if rng.random() < 0.6:
                pk = "yaw"
        c = dict(family="facing", kind=kind, mode=mode, pq=rquat(rng, pk),
                 tq=rquat(rng), p=rpos(rng), t=rpos(rng), e=(rhalf(rng), rhalf(rng, True), rhalf(rng)), h=rhalf(rng),
                 n=rng.choice([-3, -2, -1, 0, 1, 2, 3]))
        if rng.random() < 0.15:      # boundary headings: 0, +-pi/2, pi, 2 pi
            c["h"] = tuple(F(x) for x in rng.choice([(1, 0), (1, 1), (1, -1), (0, 1), (-1, 0)]))
        p, pq = fv(c["p"]), c["pq"][0].xyzw()
        if kind == "apparent":
            c["call"] = ("appfacing_", p, pq, ang_f(c["h"]), fv(c["t"]))
        else:
            a = {"num": lambda: ang_f(c["h"]), "int": lambda: c["n"], "tup": lambda: tuple(ang_f(x) for x in c["e"]),
                 "ori": lambda: c["tq"][0].xyzw(), "vf": lambda: c["tq"][0].xyzw(), "vfh": lambda: ang_f(c["h"]),
                 "app": lambda: (ang_f(c["h"]), fv(c["t"]))}.get(kind, lambda: fv(c["t"]))()
            fn = {"int": "num", "vfh": "vf"}.get(kind, kind)
            c["call"] = (f"ff_{mode}_{fn}", p, pq, a)
        c["idx"] = batch.add(c["call"])
        cases.append(c)
    return cases


def rot_zxy(y, p, r):
    """matrix of the intrinsic yaw (Z), pitch (X), roll (Y) rotation — plain numpy, independent of Scenic"""
    np = np_()
    cy, sy, cp, sp, cr, sr = math.cos(y), math.sin(y), math.cos(p), math.sin(p), math.cos(r), math.sin(r)
    Z = np.array([[cy, -sy, 0.0], [sy, cy, 0.0], [0.0, 0.0, 1.0]])
    X = np.array([[1.0, 0.0, 0.0], [0.0, cp, -sp], [0.0, sp, cp]])
    Y = np.array([[cr, 0.0, sr], [0.0, 1.0, 0.0], [-sr, 0.0, cr]])
    return Z @ X @ Y


def quat_matrix(q):
    """matrix of an exact quaternion (harness arithmetic only)"""
    np = np_()
    return np.array([[float(x) for x in q.apply(e)] for e in ((1, 0, 0), (0, 1, 0), (0, 0, 1))]).T


def finish_facing(ctx, batch, cases):
    np = np_()
    found = False
    for c in cases:
        raw = batch.res[c["idx"]]
        kind, mode, pk = c["kind"], c.get("mode", "ex"), c["pq"][1]
        ctx.evaluations += 1
        ctx.hist("oracle_facing", f"{kind}:{mode}:{pk}")
        v = crashed(ctx, c, raw, "facing")
        if v is not None:
            found |= v
            continue
        rep = rep_of(c, f"{kind} ({mode})")
        o = raw[0] if kind == "apparent" else raw
        P = o.parentOrientation.r
        G = o.orientation.r.as_matrix()
        PQ = quat_matrix(c["pq"][0])
        how = {"ex": "given by `with parentOrientation`", "op": "inherited from an oriented point (`ahead of P by 1`)",
               "sf": "inherited from an oriented surface (`on R`)"}[mode]
        if np.abs(P.as_matrix() - PQ).max() > 1e-9:
            found |= ctx.violation(f"facing-parent:{mode}", f"the parent orientation {how} is not the stated one", rep)
            continue
        if kind in ("num", "int", "tup", "ori", "vf", "vfh", "facing", "facing3"):
            if kind in ("num", "vfh"):
                T, arg = rot_zxy(ang_f(c["h"]), 0.0, 0.0), f"the number {ang_f(c['h'])!r}"
            elif kind == "int":
                T, arg = rot_zxy(float(c["n"]), 0.0, 0.0), f"the integer {c['n']}"
            elif kind in ("tup", "facing3"):
                e = tuple(ang_f(x) for x in c["e"])
                T, arg = rot_zxy(*e), f"the tuple {e!r}"
            else:
                T, arg = quat_matrix(c["tq"][0]), f"the orientation {c['tq'][0].xyzw()!r} (x,y,z,w)"
            if np.abs(G - T).max() > 1e-8:
                found |= ctx.violation(f"facing-global:{kind}:{mode}:{pk}",
                                       f"`facing X` with X {arg}{' (as a vector field)' if kind in ('vf', 'vfh') else ''} under the "
                                       f"parent orientation {c['pq'][0].xyzw()!r} (x,y,z,w) {how} does not give the global "
                                       f"orientation X: max matrix deviation {np.abs(G - T).max():.3g}", rep)
            continue
        d = np.array([float(x) for x in c["t"]]) - np.array(o.position)
        if kind in ("away", "daway"):
            d = -d
        if np.linalg.norm(d) < 1e-3:
            continue
        fwd = G @ np.array([0.0, 1.0, 0.0])
        if kind in ("dtoward", "daway"):
            if np.linalg.norm(fwd - d / np.linalg.norm(d)) > 1e-8:
                found |= ctx.violation(f"facing-directly:{kind}:{mode}:{pk}",
                                       f"forward axis {list(fwd)} does not point along {list(d / np.linalg.norm(d))}", rep)
            continue
        if kind in ("toward", "away"):
            u = P.inv().apply(d)
            f = P.inv().apply(fwd)
            hn = math.hypot(u[0], u[1])
            if hn < 1e-3:
                continue
            # only yaw is specified (pitch = roll = 0 by default): forward is horizontal in the parent frame
            if abs(f[2]) > 1e-9 or math.hypot(f[0] - u[0] / hn, f[1] - u[1] / hn) > 1e-8:
                found |= ctx.violation(f"facing-toward:{kind}:{mode}:{pk}",
                                       f"in the parent frame forward is {list(f)}, target direction {list(u / hn)}", rep)
            continue
        # apparently facing H from T
        H = ang_f(c["h"])
        los = np.array(o.position) - np.array([float(x) for x in c["t"]])
        if kind == "apparent" and math.hypot(d[0], d[1]) >= 1e-3:
            # the apparent heading of the result from T must be H (parents without pitch / roll)
            got = float(raw[1])
            az = math.atan2(los[1], los[0]) - math.pi / 2
            hdg = math.atan2(-G[0][1], G[1][1])
            if angdiff(hdg - az, got) > 1e-8:
                found |= ctx.violation("apparent-heading:inconsistent",
                                       f"`apparent heading of` returned {got!r}, heading - azimuth is {hdg - az!r}", rep)
            if pk in ("id", "yaw") and angdiff(hdg - az, H) > 1e-8:
                key = "apparently-facing:global-parent" if c["pq"][0].is_identity() else "apparently-facing:yaw-parent"
                found |= ctx.violation(key, f"`apparently facing {H!r} from P` with parent orientation {c['pq'][0].xyzw()} "
                                            f"(x,y,z,w) gives apparent heading {(hdg - az)!r}", rep)
        # any parent orientation: in the parent frame the forward axis is the horizontal line of sight turned by H
        u = P.inv().apply(los)
        f = P.inv().apply(fwd)
        hn = math.hypot(u[0], u[1])
        if hn > 1e-3:
            want = np.array([math.cos(H) * u[0] - math.sin(H) * u[1], math.sin(H) * u[0] + math.cos(H) * u[1], 0.0]) / hn
            if np.abs(f - want).max() > 1e-8:
                found |= ctx.violation("apparently-facing:parent-frame" + ("" if mode == "ex" else ":" + mode),
                                       f"`apparently facing {H!r} from P` (parent orientation {how}): in the parent frame forward "
                                       f"is {list(f)}, the line of sight turned by H is {list(want)}", rep)
    return found


def plan_offsets(ctx, batch, n):
    rng = ctx.rng
    cases = []
    for _ in range(n):
        kind = rng.choice(["beyond", "beyond", "offsetby", "offsetalong", "side", "on"])
        c = dict(family="offsets", kind=kind, p=rpos(rng), f=rpos(rng), q=rquat(rng), q2=rquat(rng), off=rpos(rng, 5),
                 dims=rdims(rng), scalar=rng.random() < 0.4, fromop=rng.random() < 0.6,
                 side=rng.choice(sorted(SIDE_NAMES)), ct=rct(rng), base=(rnum(rng, 2), rnum(rng, 2), rnum(rng, 2)))
        r = (fv(c["p"]), c["q"][0].xyzw(), fv(c["dims"]))
        if kind == "beyond":
            frm = ("op", fv(c["f"]), c["q"][0].xyzw()) if c["fromop"] else ("vec", fv(c["f"]))
            c["call"] = ("beyond_", fv(c["p"]), float(c["off"][1]) if c["scalar"] else fv(c["off"]), frm)
        elif kind == "offsetby":
            c["call"] = ("offsetby_", r, fv(c["off"]))
        elif kind == "offsetalong":
            c["call"] = ("offsetalong_", r, c["q2"][0].xyzw(), fv(c["off"]))
        elif kind == "side":
            c["call"] = (f"side_{c['side']}", r)
        else:
            c["call"] = ("on_reg", fv(c["p"]), c["q"][0].xyzw(), fv(c["base"]), float(c["ct"]))
        c["idx"] = batch.add(c["call"])
        cases.append(c)
    return cases


def finish_offsets(ctx, batch, cases):
    np = np_()
    from scenic.core.vectors import Orientation
    found = False
    for c in cases:
        raw = batch.res[c["idx"]]
        k = c["kind"]
        ctx.evaluations += 1
        ctx.hist("oracle_offsets", k)
        v = crashed(ctx, c, raw, k)
        if v is not None:
            found |= v
            continue
        rep = rep_of(c, k)
        tol = 1e-8 * mag(c["p"], c["f"], c["off"], c["dims"])
        if k == "on":
            o = raw
            pos = np.array(o.position)
            R = Orientation.fromQuaternion(c["q"][0].xyzw()).r
            base_pt = pos + R.apply([float(x) for x in c["base"]])
            want = np.array([float(x) for x in c["p"]]) + R.apply([0.0, 0.0, float(c["ct"]) / 2])
            if np.abs(base_pt - want).max() > tol:
                found |= ctx.violation("on:base", f"on: base of the object at {list(base_pt)}, expected {list(want)}", rep)
            if np.abs(o.parentOrientation.r.as_matrix() - R.as_matrix()).max() > 1e-9:
                found |= ctx.violation("on:parent-orientation", "on <oriented region>: parentOrientation is not the region's", rep)
            continue
        ref, o = raw
        pos = np.array(o.position)
        if k == "beyond":
            P, Fp = (np.array([float(x) for x in c[key]]) for key in ("p", "f"))
            los = P - Fp
            if np.linalg.norm(los[:2]) < 1e-3:
                continue
            fwd = los / np.linalg.norm(los)
            right = np.array([los[1], -los[0], 0.0]) / np.linalg.norm(los[:2])
            up = np.cross(right, fwd)
            off = np.array([0.0, float(c["off"][1]), 0.0]) if c["scalar"] else np.array([float(x) for x in c["off"]])
            want = P + off[0] * right + off[1] * fwd + off[2] * up
            if np.abs(pos - want).max() > tol:
                found |= ctx.violation("beyond:position", f"beyond: position {list(pos)}, expected {list(want)} "
                                       "(offset in the line-of-sight frame at X)", rep)
            Q = Orientation.fromQuaternion(c["q"][0].xyzw()).r.as_matrix() if c["fromop"] else np.eye(3)
            got = o.parentOrientation.r.as_matrix()
            if np.abs(got - Q).max() > 1e-9:
                found |= ctx.violation("beyond:parent-orientation",
                                       "`beyond X by v from P`: parentOrientation is not P's orientation (P an OrientedPoint) "
                                       "resp. the global orientation (P a vector), as the reference says", rep)
            continue
        R = ref.orientation.r
        loc_frame = Orientation.fromQuaternion(c["q2"][0].xyzw()).r if k == "offsetalong" else R
        loc = loc_frame.inv().apply(pos - np.array(ref.position))
        if k == "side":
            s = SIDE_SIGNS[c["side"]]
            want = np.array([s[0] * ref.width / 2, s[1] * ref.length / 2, s[2] * ref.height / 2])
        else:
            want = np.array([float(x) for x in c["off"]])
        if np.abs(loc - want).max() > tol:
            found |= ctx.violation(f"{k}:position" + (":" + c["side"] if k == "side" else ""),
                                   f"{k}: local coordinates {list(loc)}, expected {list(want)}", rep)
        inherit = o.parentOrientation.r.as_matrix() if k in ("offsetby", "offsetalong") else o.orientation.r.as_matrix()
        if np.abs(inherit - R.as_matrix()).max() > 1e-9:
            found |= ctx.violation(f"{k}:orientation", f"{k}: the result does not inherit the reference's orientation", rep)
    return found


def plan_operators(ctx, batch, n):
    """scalar operators, `relative to`, and the step rule of `following`, against their documented meaning"""
    rng = ctx.rng
    cases = []
    for _ in range(n):
        kind = rng.choice(["dist", "angle", "alt", "relh", "dpast", "relorient", "relvecop", "relopori", "relophead",
                           "followsteps", "followsteps"])
        c = dict(family="operators", kind=kind, a=rpos(rng), b=rpos(rng), h1=rhalf(rng), h2=rhalf(rng), q1=rquat(rng)[0], q2=rquat(rng)[0],
                 dims=rdims(rng), off=rpos(rng, 5))
        if kind == "dist":
            c["call"] = ("dist_", ("vec", fv(c["a"])), ("vec", fv(c["b"])))
        elif kind == "angle":
            c["call"] = ("angle_", fv(c["a"]), fv(c["b"]))
        elif kind == "alt":
            c["call"] = ("alt_", fv(c["a"]), fv(c["b"]))
        elif kind == "relh":
            c["call"] = ("relh_", ang_f(c["h1"]), ang_f(c["h2"]))
        elif kind == "dpast":
            c["call"] = ("dpast_", fv(c["a"]), ang_f(c["h1"]), fv(c["b"]))
        elif kind == "relorient":
            c["call"] = ("relto_", ("orient", c["q1"].xyzw()), ("orient", c["q2"].xyzw()))
        elif kind == "relvecop":
            c["swap"] = rng.random() < 0.5
            x, y = ("vec", fv(c["off"])), ("obj", fv(c["a"]), c["q1"].xyzw(), fv(c["dims"]))
            c["call"] = ("relto_", y, x) if c["swap"] else ("relto_", x, y)
        elif kind in ("relopori", "relophead"):
            # <oriented point with a non-global parent AND its own yaw/pitch/roll> relative to <orientation | heading>
            c["swap"] = rng.random() < 0.5
            c["e"] = (rhalf(rng), rhalf(rng, True), rhalf(rng))
            x = ("objp", fv(c["a"]), c["q1"].xyzw(), tuple(ang_f(t) for t in c["e"]))
            y = ("orient", c["q2"].xyzw()) if kind == "relopori" else ("heading", ang_f(c["h1"]))
            c["call"] = ("relto_", y, x) if c["swap"] else ("relto_", x, y)
        else:
            c["dist"] = rng.choice([F(1), F(3), F(10), F(21, 2), F(25), F(1, 2), F(49, 2), F(5), F(6), F(27, 4)])
            c["ms"], c["ss"] = rng.choice([1, 2, 4, 7]), rng.choice([F(5), F(1), F(5, 2), F(30)])
            c["x0"] = rnum(rng, 5)
            c["call"] = ("followcount_", float(c["x0"]), c["q1"].xyzw(), c["q2"].xyzw(), fv(c["a"]), float(c["dist"]),
                         c["ms"], float(c["ss"]))
        c["idx"] = batch.add(c["call"])
        cases.append(c)
    return cases


def finish_operators(ctx, batch, cases):
    np = np_()
    from scenic.core.vectors import Orientation
    found = False
    for c in cases:
        raw = batch.res[c["idx"]]
        k = c["kind"]
        ctx.evaluations += 1
        ctx.hist("oracle_operators", k)
        v = crashed(ctx, c, raw, "operator:" + k)
        if v is not None:
            found |= v
            continue
        rep = rep_of(c, k)
        A, B = (np.array([float(x) for x in c[key]]) for key in ("a", "b"))
        d = B - A
        tol = 1e-8 * mag(c["a"], c["b"])
        if k == "dist":
            if abs(float(raw) - float(np.linalg.norm(d))) > tol:
                found |= ctx.violation("operator:distance", f"distance from A to B = {raw!r}, |B - A| = {np.linalg.norm(d)!r}", rep)
        elif k == "angle":
            if math.hypot(d[0], d[1]) > 1e-3 and angdiff(float(raw), math.atan2(d[1], d[0]) - math.pi / 2) > 1e-8:
                found |= ctx.violation("operator:angle", f"angle from A to B = {raw!r}: not the heading (0 = +Y, ccw) of B - A = {list(d)}", rep)
        elif k == "alt":
            if np.linalg.norm(d) > 1e-3 and angdiff(float(raw), math.atan2(d[2], math.hypot(d[0], d[1]))) > 1e-8:
                found |= ctx.violation("operator:altitude", f"altitude from A to B = {raw!r}: not the elevation of B - A = {list(d)}", rep)
        elif k == "relh":
            if angdiff(float(raw), ang_f(c["h1"]) - ang_f(c["h2"])) > 1e-8:
                found |= ctx.violation("operator:relative-heading", f"relative heading of x from y = {raw!r}, x - y = {ang_f(c['h1']) - ang_f(c['h2'])!r}", rep)
        elif k == "dpast":
            h = ang_f(c["h1"])
            want = float((A - B) @ np.array([-math.sin(h), math.cos(h), 0.0]))
            if abs(float(raw) - want) > tol:
                found |= ctx.violation("operator:distance-past", f"distance past V of P = {raw!r}; (P - V) along P's heading is {want!r}", rep)
        elif k == "relorient":
            X, Y = (Orientation.fromQuaternion(c[key].xyzw()).r.as_matrix() for key in ("q1", "q2"))
            if not hasattr(raw, "r") or np.abs(raw.r.as_matrix() - Y @ X).max() > 1e-9:
                found |= ctx.violation("operator:relative-to-orientation",
                                       "`X relative to Y` on orientations is not `start in Y, then rotate by X` (Y * X)", rep)
        elif k == "relvecop":
            R = Orientation.fromQuaternion(c["q1"].xyzw()).r
            want = A + R.apply([float(x) for x in c["off"]])
            if not hasattr(raw, "position") or np.abs(np.array(raw.position) - want).max() > tol or \
                    np.abs(raw.orientation.r.as_matrix() - R.as_matrix()).max() > 1e-9:
                found |= ctx.violation("operator:relative-to-oriented-point",
                                       "`v relative to P` is not the point at local coordinates v of P inheriting P's orientation", rep)
        elif k == "relopori":
            P = Orientation.fromQuaternion(c["q1"].xyzw()).r.as_matrix()
            E = Orientation.fromEuler(*(ang_f(t) for t in c["e"])).r.as_matrix()
            Q = Orientation.fromQuaternion(c["q2"].xyzw()).r.as_matrix()
            O = P @ E                                   # global orientation of the oriented point
            want = (O @ Q) if c["swap"] else (Q @ O)    # `X relative to Y` = Y * X
            if not hasattr(raw, "r") or np.abs(raw.r.as_matrix() - want).max() > 1e-9:
                found |= ctx.violation("operator:relative-to-opoint-orientation",
                                       "`X relative to Y` with an oriented point and an orientation is not Y * X "
                                       "(with the point's global orientation)", rep)
        elif k == "relophead":
            P = Orientation.fromQuaternion(c["q1"].xyzw()).r.as_matrix()
            E = Orientation.fromEuler(*(ang_f(t) for t in c["e"])).r.as_matrix()
            O = P @ E
            if math.hypot(O[0][1], O[1][1]) > 1e-3:
                hdg = math.atan2(-O[0][1], O[1][1])     # global yaw of the point
                ok = isinstance(raw, (int, float)) or hasattr(raw, "__float__")
                if not ok or angdiff(float(raw), hdg + ang_f(c["h1"])) > 1e-8:
                    found |= ctx.violation("operator:relative-to-opoint-heading",
                                           f"`<heading> relative to <oriented point>` = {raw!r}: not the point's global heading "
                                           f"{hdg!r} plus the heading {ang_f(c['h1'])!r}", rep)
        else:
            nobj = raw[0]
            x0 = float(c["x0"])
            px = float(nobj.position[0])
            if abs(px - x0) > 1e-6:
                Q = Orientation.fromQuaternion((c["q1"] if px < x0 else c["q2"]).xyzw()).r.as_matrix()
                if np.abs(nobj.parentOrientation.r.as_matrix() - Q).max() > 1e-9:
                    found |= ctx.violation("following:orientation",
                                           "`following F from P for D`: parentOrientation is not the field's orientation at the "
                                           "final position", rep)
            # documented step rule of followFrom: at least minSteps steps, no step longer than defaultStepSize,
            # and no more steps than that requires; the field is evaluated once per step and once at the end
            steps = int(raw[1]) - 1
            dist, ms, ss = c["dist"], c["ms"], c["ss"]
            want = max(ms, math.ceil(dist / ss))
            if steps != want:
                found |= ctx.violation("following:step-count",
                                       f"following for {float(dist)} (minSteps {ms}, step size {float(ss)}) took {steps} steps, "
                                       f"the documented rule gives {want}", rep)
    return found


def plan_rigid(ctx, batch, n):
    """metamorphic: apply a common rigid motion to every input; results must move rigidly"""
    rng = ctx.rng
    cases = []
    for _ in range(n):
        g, _ = rquat(rng, "gen")
        t = rpos(rng)
        k = rng.choice(DIRS)
        c = dict(family="rigid", g=g, t=t, k=k, rp=rpos(rng), rq=rquat(rng)[0], rd=rdims(rng), sd=rdims(rng), dist=rdist(rng),
                 side=rng.choice(sorted(SIDE_NAMES)), tq=rquat(rng)[0], tp=rpos(rng), ct=rct(rng))

        def calls(move):
            rp, rq, tq, tp = c["rp"], c["rq"], c["tq"], c["tp"]
            if move:
                rp, rq, tq, tp = vadd(g.apply(rp), t), g * rq, g * tq, vadd(g.apply(tp), t)
            ref = (fv(rp), rq.xyzw(), fv(c["rd"]))
            return [dir_call(k, ("obj",) + ref, c["sd"], c["ct"], *c["dist"]),
                    (f"side_{c['side']}", ref),
                    ("facing_", fv(tp), rq.xyzw(), tq.xyzw()),
                    ("dtoward_", fv(tp), rq.xyzw(), fv(rp)),
                    ("dist_", ("vec", fv(tp)), ("obj",) + ref)]
        c["calls"] = [calls(False), calls(True)]
        c["idx"] = [[batch.add(x) for x in cs_] for cs_ in c["calls"]]
        cases.append(c)
    return cases


def finish_rigid(ctx, batch, cases):
    np = np_()
    from scenic.core.vectors import Orientation
    found = False
    names = ["directional", "side", "facing", "facing-directly-toward", "distance"]
    for c in cases:
        G = Orientation.fromQuaternion(c["g"].xyzw()).r
        T = np.array([float(x) for x in c["t"]])
        tol = 1e-7 * mag(c["rp"], c["t"], c["rd"], c["tp"], c["sd"])
        for j, nm in enumerate(names):
            r0, r1 = batch.res[c["idx"][0][j]], batch.res[c["idx"][1][j]]
            ctx.evaluations += 1
            ctx.hist("oracle_rigid", nm)
            rep = {"kind": "oracle", "family": "rigid", "call": c["calls"][0][j], "moved": c["calls"][1][j],
                   "g_xyzw": list(c["g"].xyzw()), "t": [float(x) for x in c["t"]],
                   "case": enc({k: v for k, v in c.items() if k != "idx"})}
            if isinstance(r0, str) or isinstance(r1, str):
                found |= ctx.violation(f"rigid:crash:{nm}", f"{nm}: {r0 if isinstance(r0, str) else r1}", rep)
                continue
            if nm == "distance":
                if abs(float(r0) - float(r1)) > tol:
                    found |= ctx.violation("rigid:distance", "`distance from` changes under a rigid motion of both arguments", rep)
                continue
            x0, x1 = (r[1] if isinstance(r, tuple) else r for r in (r0, r1))
            if np.abs(G.apply(np.array(x0.position)) + T - np.array(x1.position)).max() > tol or \
                    np.abs(G.as_matrix() @ x0.orientation.r.as_matrix() - x1.orientation.r.as_matrix()).max() > 1e-8:
                found |= ctx.violation(f"rigid:{nm}", f"`{nm}` does not commute with a rigid motion of its inputs", rep)
    return found


def algebra_case(viol, qa, qb, qc, v, hh, e3):
    """numeric group laws, Euler round trips and heading convention for one input"""
    np = np_()
    from scenic.core.vectors import Orientation, Vector

    def M(o):
        return o.r.as_matrix()
    a, b, c = (Orientation.fromQuaternion(q.xyzw()) for q in (qa, qb, qc))
    v = [float(x) for x in v]
    rep = {"qa": enc(qa), "qb": enc(qb), "qc": enc(qc), "v": enc([F(x) for x in v]), "hh": enc(hh), "e3": enc(e3)}
    if np.abs(M((a * b) * c) - M(a * (b * c))).max() > 1e-9:
        viol("assoc", "(a*b)*c != a*(b*c)", rep)
    if np.abs(M(a * a.inverse) - np.eye(3)).max() > 1e-9 or np.abs(M(a.inverse * a) - np.eye(3)).max() > 1e-9:
        viol("inverse", "a * a.inverse is not the identity", rep)
    if np.abs(M(a * b) - M(a) @ M(b)).max() > 1e-9:
        viol("compose-matrix", "the matrix of a*b is not matrix(a) @ matrix(b)", rep)
    lhs = np.array(Vector(*v).applyRotation(a * b))
    rhs = np.array(Vector(*Vector(*v).applyRotation(b)).applyRotation(a))
    if np.abs(lhs - rhs).max() > 1e-8 * mag(v):
        viol("intrinsic-order", "(a*b) applied to v is not a applied to (b applied to v)", rep)
    e = a.eulerAngles
    if np.abs(M(Orientation.fromEuler(*e)) - M(a)).max() > 1e-8:
        viol("euler-roundtrip", "fromEuler(eulerAngles(a)) != a", rep)
    la = b.localAnglesFor(a)
    if np.abs(M(b * Orientation.fromEuler(*la)) - M(a)).max() > 1e-8:
        viol("local-angles", "b * fromEuler(b.localAnglesFor(a)) != a", rep)
    h = ang_f(hh)
    w = np.array(Vector(0, 1, 0).applyRotation(Orientation._fromHeading(h)))
    w2 = np.array(Vector(0, 1, 0).rotatedBy(h))
    w3 = np.array(Vector(0, 1, 0).applyRotation(Orientation.fromEuler(h, 0, 0)))
    want = np.array([-math.sin(h), math.cos(h), 0.0])
    if max(np.abs(w - want).max(), np.abs(w2 - want).max(), np.abs(w3 - want).max()) > 1e-9:
        viol("heading-convention", f"heading {h} does not map +Y to (-sin h, cos h, 0)", rep)
    # h + orientation / orientation + h (Orientation.__radd__ / __add__): heading applied first / last
    if np.abs(M(h + a) - M(Orientation._fromHeading(h)) @ M(a)).max() > 1e-9 or \
            np.abs(M(a + h) - M(a) @ M(Orientation._fromHeading(h))).max() > 1e-9:
        viol("heading-plus-orientation", "h + a is not heading(h) * a, or a + h is not a * heading(h)", rep)
    x = np.array(Vector(*v).rotatedBy(h))
    if np.abs(x - np.array([math.cos(h) * v[0] - math.sin(h) * v[1], math.sin(h) * v[0] + math.cos(h) * v[1], v[2]])).max() \
            > 1e-8 * mag(v):
        viol("rotated-by", f"Vector.rotatedBy({h}) is not the counter-clockwise rotation about Z", rep)
    y, p, r = (ang_f(t) for t in e3)
    o = Orientation.fromEuler(y, p, r)
    if angdiff(o.yaw, y) > 1e-8 or angdiff(o.pitch, p) > 1e-8 or angdiff(o.roll, r) > 1e-8:
        viol("euler-extract", f"eulerAngles(fromEuler({y},{p},{r})) = {tuple(o.eulerAngles)}", rep)
    fw = M(o) @ np.array([0.0, 1.0, 0.0])
    if np.abs(fw - np.array([-math.sin(y) * math.cos(p), math.cos(y) * math.cos(p), math.sin(p)])).max() > 1e-9:
        viol("euler-forward", "forward axis of fromEuler(y,p,r) is not (-sin y cos p, cos y cos p, sin p)", rep)
    # spherical coordinates of the forward axis give back yaw and pitch
    sph = Vector(*fw).sphericalCoordinates()
    if math.cos(p) > 1e-3 and (angdiff(sph[1], y) > 1e-8 or angdiff(sph[2], p) > 1e-8 or abs(sph[0] - 1) > 1e-9):
        viol("spherical", f"sphericalCoordinates of the forward axis of fromEuler({y},{p},..) = {tuple(sph)}", rep)
    # Vector.cross (used nowhere by the specifiers, but part of the anchored vector algebra)
    try:
        cr = np.array(Vector(*v).cross(Vector(1, 2, 3)))
        if np.abs(cr - np.cross(np.array(v), np.array([1.0, 2.0, 3.0]))).max() > 1e-8 * mag(v):
            viol("vector-cross:value", f"Vector{tuple(v)}.cross(Vector(1,2,3)) = {list(cr)}", rep)
    except Exception as ex:  # noqa
        viol("vector-cross:" + type(ex).__name__, f"Vector.cross raises {type(ex).__name__}: {ex}", rep)


def oracle_algebra(ctx, n):
    """numeric group laws, Euler round trips and heading convention on the real Orientation / Vector"""
    rng = ctx.rng
    found = False

    def viol(key, what, rep):
        nonlocal found
        found |= ctx.violation("algebra:" + key, what, dict(rep, kind="oracle", family="algebra"))
    for _ in range(n):
        qa, qb, qc = (rquat(rng)[0] for _ in range(3))
        v = rpos(rng)
        hh = rhalf(rng)
        e3 = (rhalf(rng), rhalf(rng, True), rhalf(rng))
        ctx.evaluations += 1
        ctx.hist("oracle_algebra", "laws")
        algebra_case(viol, qa, qb, qc, v, hh, e3)
    return found


# --------------------------------------------------------------------------- main
def restore_gen(ctx):
    """template mismatch: never run on a Gen file produced from a *different* tree in an earlier run. Put back the
    committed Gen/Frames.lean; if the committed one predates the current format of the generated data (it is
    committed by the coordinator, not by the check) keep the file of the last successful extraction instead."""
    import os
    import subprocess
    rel = "lean/ScenicModel/Gen/Frames.lean"
    p = subprocess.run(["git", "-C", ctx.root, "show", f"HEAD:{rel}"], capture_output=True, text=True)
    if p.returncode == 0 and "def facingTable" in p.stdout and "def sphThetaArgs" in p.stdout:
        ctx.gen_restore("Frames")
        return "committed"
    cur = os.path.join(ctx.root, rel)
    if os.path.exists(cur) and "def facingTable" in open(cur).read():
        return "kept"
    raise Infra("Gen/Frames.lean is missing or stale and the translator cannot regenerate it")


def run(ctx):
    ctx.rule = ("cases = one specifier / operator application on random exact-rational inputs: positions (dyadic), "
                "orientations (integer quaternions: identity, yaw-only, axis, general), dimensions, contact tolerances, "
                "scalar / vector / omitted distances, argument kinds (vector, oriented point, object, heading, orientation); "
                "non-trivial = at least one non-identity orientation involved; distinct by content hash of the model query")
    ctx.assumptions += [
        "SciPy Rotation (quaternion <-> matrix <-> Euler) and math.atan2/hypot are trusted; they are exercised numerically "
        "by the correspondence run (1e-9) but trigonometric identities are not re-proved",
        "angles are modelled as (cos, sin) pairs and square roots as witnessed values; normalizeAngle's choice of "
        "representative in (-pi, pi] is not modelled (angles are compared modulo 2*pi)",
        "floating-point rounding is not modelled: real-code results are compared with exact rational results within "
        "1e-9 x the magnitude of the inputs",
        "specifier resolution (priorities, dependency order) is C06's subject; here objects use one position and one "
        "orientation specifier each; each syntactic form is compiled once (as a function of a library program) by the "
        "real front end and applied to the inputs of every case",
    ]
    ctx.trusted_base += ["tools/translate/frames.py (template extraction of formulas, tables, flags)",
                         "tools/props/c07.py (case generators, exact rational input construction, comparison, direct oracle)"]
    ctx.fingerprint(FINGERPRINTS)
    from translate import frames
    try:
        data = frames.extract()
        ctx.gen("Frames", frames.to_lean(data))
        ctx.extra["generated"] = {"facingTable": {k: list(v) for k, v in data["facing"].items()},
                                  "eulerAxes": list(data["eulerAxes"]), "followNumSteps": data["follow"]}
    except TemplateMismatch as e:
        restore_gen(ctx)
        ctx.escalated.append(f"translator tie lost (frames): {str(e)[:600]}")
        ctx.notes.append(f"translator tie lost: {str(e)[:600]}; Gen/Frames.lean holds the data of the last committed / last "
                         "extracted source and the tie rests on the correspondence run at the escalated budget")
    pr = ctx.prove(THEOREMS, side_conditions=SIDE)
    if ctx.tier == "thorough" and pr.build_ok:
        ctx.leanchecker(["ScenicModel.Props.C07", "ScenicModel.Props.C07Algebra", "ScenicModel.Props.C07Spec", "ScenicModel.Props.C07Dir", "ScenicModel.Props.C07Real",
                         "ScenicModel.Props.C07Ops"])
    random.seed(ctx.rng.getrandbits(32))
    try:
        import numpy
        numpy.random.seed(ctx.rng.getrandbits(32))
    except Exception:
        pass
    batch = Batch()
    corr = plan_correspondence(ctx, batch, ctx.budget(500, 8000)) if pr.build_ok else None
    pd = plan_directional(ctx, batch, ctx.budget(150, 1600))
    pf = plan_facing(ctx, batch, ctx.budget(150, 1600))
    po = plan_offsets(ctx, batch, ctx.budget(150, 1600))
    pop = plan_operators(ctx, batch, ctx.budget(150, 1600))
    prg = plan_rigid(ctx, batch, ctx.budget(40, 400))
    batch.run()
    ctx.extra["library_calls"] = len(batch.calls)
    if corr is not None:
        finish_correspondence(ctx, batch, corr)
    found = False
    found |= finish_directional(ctx, batch, pd)
    found |= finish_facing(ctx, batch, pf)
    found |= finish_offsets(ctx, batch, po)
    found |= finish_operators(ctx, batch, pop)
    found |= finish_rigid(ctx, batch, prg)
    found |= oracle_algebra(ctx, ctx.budget(200, 2000))
    ctx.resolve_brokens(found)


def describe(v):
    if isinstance(v, tuple):
        return "(" + ", ".join(describe(x) for x in v) + ")"
    if hasattr(v, "position") and hasattr(v, "orientation"):
        return (f"<{type(v).__name__} position={tuple(v.position)} orientation(xyzw)={tuple(v.orientation.q)} "
                f"parentOrientation(xyzw)={tuple(v.parentOrientation.q)} yaw={v.yaw} pitch={v.pitch} roll={v.roll}>")
    return repr(v)


class ReplayCtx:
    """collects what the oracle reports when a recorded case is re-evaluated"""

    def __init__(self):
        self.found, self.evaluations = [], 0

    def violation(self, key, what, replay=None, no_input=False):
        self.found.append((key, what))
        return True

    def hist(self, *a, **k):
        pass

    def case(self, *a, **k):
        return True


FINISH = {"directional": "finish_directional", "facing": "finish_facing", "offsets": "finish_offsets",
          "operators": "finish_operators", "rigid": "finish_rigid"}


def replay(ctx, path):
    """re-executes the recorded input against $SCENIC_REPO and re-evaluates the oracle that reported it:
    exit 1 (violation reproduced) / 0 (the property holds on this input)"""
    body = json.load(open(path))
    rep = body.get("replay", body)
    print("property: C07   key:", body.get("key"))
    print("what:", body.get("what", ""))
    if body.get("no_failing_input_found") or "broken" in rep:
        print("this record names a proof obligation / correspondence that no longer checks; no concrete input was found:")
        print(json.dumps(rep, indent=1)[:4000])
        print("re-run ./check C07 to re-evaluate it")
        return 0
    fam = rep.get("family")
    rc = ReplayCtx()
    if fam == "algebra":
        algebra_case(lambda k, w, r: rc.violation("algebra:" + k, w), dec(rep["qa"]), dec(rep["qb"]), dec(rep["qc"]),
                     dec(rep["v"]), dec(rep["hh"]), dec(rep["e3"]))
    elif fam in FINISH:
        c = dec(rep["case"])
        batch = Batch()
        if fam == "rigid":
            c["idx"] = [[batch.add(tuplify(x)) for x in cs_] for cs_ in c["calls"]]
        else:
            c["call"] = tuplify(c["call"])
            c["idx"] = batch.add(c["call"])
        for call in batch.calls:
            print(f"--- library call: {call}")
        print("    (the library program is tools/props/c07.py:library_source(); it is compiled by the real front end)")
        batch.run()
        for r in batch.res:
            print("    result:", describe(r))
        globals()[FINISH[fam]](rc, batch, [c])
    else:
        print(json.dumps(rep, indent=1)[:4000])
        print("unknown replay record")
        return 2
    if rc.found:
        for k, w in rc.found:
            print(f"VIOLATION reproduced [{k}]: {w}")
        return 1
    print("OK: the property holds on this input")
    return 0
