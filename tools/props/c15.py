"""C15 — same program, options and seed give identical scenes and runs, every time.

Proof:  lean/ScenicModel/Props/C15.lean over Model/Determinism.lean (sampleAll as an identity-memoised DFS
        over an explicit pair of generator streams, the rejection loop of _generateInner with the
        save/restore bracket, several scenes sharing a budget, the sequential requirement checkers):
        independence of the checker (history, timing order, internal consumption), of the arrangement of
        the checks, and of the memory layout (injective renaming of identities); witnesses that the
        dependency order, the bracket, private generators and redundancy of optional requirements are
        each needed.  Instantiated on data regenerated from /repo by translate/determinism.py (container
        kinds on the way into Scenario.dependencies, the bracket, the activation comparator, the private
        generator sites, the shape of the weighted checker).
        Props/C15Deps.lean over Model/DepOrder.lean (how Scenario.dependencies is put together at compile time:
        closures per atomic proposition, closure cells, per-requirement dependencies, accumulated requirement
        dependencies, the concatenation; parametric in the container kinds, the order of the segments and the
        order of the sources, all three regenerated from /repo): the tuple is independent of object addresses,
        hence compile + generate as a whole is; witness that one address-hashed set breaks it.
Tie:    (T) the translator; (C) the Lean driver against the real code: (a) binding order of the real
        Samplable.sampleAll on the object graphs of generated programs, (a') every stage of the construction of
        Scenario.dependencies by the real compiler under passive hooks, (b) the real
        Scenario.generateBatch/_generateInner and the real WeightedAcceptanceChecker/BasicChecker run on
        stub nodes and stub requirements over the real generator streams (values, iteration counts and the
        exact positions of both generators afterwards).
Direct: (S) the property itself: every generated program is compiled, sampled and simulated in N fresh
        subprocesses with the same seeds and different PYTHONHASHSEED, environment size, heap
        pre-allocation, injected timing jitter in the checker, extra randomness burnt inside requirement
        checking and different numbers of scenes generated in between; canonical dumps must be identical.
"""
import concurrent.futures
import hashlib
import json
import os
import random
import struct
import subprocess
import sys
import time as _time

THEOREMS = [
    "Scenic.C15.generate_indep_of_checker",
    "Scenic.C15.check_does_not_perturb",
    "Scenic.C15.checker_timing_irrelevant",
    "Scenic.C15.sorted_checker_timing_irrelevant",
    "Scenic.C15.weighted_equals_basic",
    "Scenic.C15.verdict_is_mandatory_any",
    "Scenic.C15.layout_independent",
    "Scenic.C15.sampleAll_layout_independent",
    "Scenic.C15.dependencies_canonical",
    "Scenic.C15.compile_and_generate_layout_independent",
    "Scenic.C15.requirement_deps_exact",
    "Scenic.C15.activation_consumption_fixed",
    "Scenic.C15.earlier_scenes_unaffected",
    "Scenic.C15.order_matters_witness",
    "Scenic.C15.no_restore_perturbs_witness",
    "Scenic.C15.impure_requirement_order_witness",
    "Scenic.C15.optional_nonredundant_witness",
    "Scenic.C15.set_order_layout_dependent_witness",
    "Scenic.C15.closure_set_layout_dependent_witness",
    "Scenic.C15.stored_dependencies_canonical",
    "Scenic.C15.stored_dependencies_exact",
    "Scenic.C15.sample_iteration_canonical",
    "Scenic.C15.construct_and_sample_layout_independent",
    "Scenic.C15.child_set_layout_dependent_witness",
    "Scenic.Det.initDependencies_ren",
    "Scenic.Det.buildTable_ren",
    "Scenic.Det.sampleAllK_ordered",
    "Scenic.Det.loop_indep_of_checker",
    "Scenic.Det.generateMany_indep_of_checker",
    "Scenic.Det.arranged_verdict",
    "Scenic.Det.sampleAll_ren",
    "Scenic.Det.generateMany_ren",
    "Scenic.Det.dependencies_ren",
    "Scenic.Det.orderedDedup_map",
    "Scenic.Det.nodup_orderedDedup",
    "Scenic.Det.mem_sortByCost",
    "Scenic.Det.sorted_sortByCost",
]
SIDE = [
    "Scenic.C15.gen_bracket_full",
    "Scenic.C15.gen_sites_all_ordered",
    "Scenic.C15.gen_no_unordered_roots",
    "Scenic.C15.gen_site_lists_agree",
    "Scenic.C15.gen_segments_complete",
    "Scenic.C15.gen_private_sites",
    "Scenic.C15.gen_sample_sites_ordered",
]

FINGERPRINTS = {
    "Scenario.__init__": ("src/scenic/core/scenarios.py", "Scenario.__init__"),
    "Scenario._generateInner": ("src/scenic/core/scenarios.py", "Scenario._generateInner"),
    "Scenario.generateBatch": ("src/scenic/core/scenarios.py", "Scenario.generateBatch"),
    "Scenario.generateDefaultRequirements": ("src/scenic/core/scenarios.py", "Scenario.generateDefaultRequirements"),
    "PendingRequirement.__init__": ("src/scenic/core/requirements.py", "PendingRequirement.__init__"),
    "PendingRequirement.compile": ("src/scenic/core/requirements.py", "PendingRequirement.compile"),
    "getNameBindings": ("src/scenic/core/requirements.py", "getNameBindings"),
    "DynamicScenario.__init__": ("src/scenic/core/dynamics/scenarios.py", "DynamicScenario.__init__"),
    "DynamicScenario._compileRequirements": ("src/scenic/core/dynamics/scenarios.py", "DynamicScenario._compileRequirements"),
    "DynamicScenario._toScenario": ("src/scenic/core/dynamics/scenarios.py", "DynamicScenario._toScenario"),
    "Samplable.sampleAll": ("src/scenic/core/distributions.py", "Samplable.sampleAll"),
    "Samplable.sample": ("src/scenic/core/distributions.py", "Samplable.sample"),
    "Samplable.__init__": ("src/scenic/core/distributions.py", "Samplable.__init__"),
    "LazilyEvaluable.__init__": ("src/scenic/core/lazy_eval.py", "LazilyEvaluable.__init__"),
    "SampleChecker": ("src/scenic/core/sample_checking.py", "SampleChecker"),
    "BasicChecker": ("src/scenic/core/sample_checking.py", "BasicChecker"),
    "WeightedAcceptanceChecker": ("src/scenic/core/sample_checking.py", "WeightedAcceptanceChecker"),
    "findMeshInteriorPoint": ("src/scenic/core/utils.py", "findMeshInteriorPoint"),
    "DefaultIdentityDict": ("src/scenic/core/utils.py", "DefaultIdentityDict"),
    "canSee": ("src/scenic/core/visibility.py", "canSee"),
    "MeshRegion.mesh": ("src/scenic/core/regions.py", "MeshRegion.mesh"),
}

# families whose programs never sample from numpy.random outside requirement checking (no mesh-volume sampling)
NP_FREE_FAMILIES = {"reqonly", "closure", "closure2", "behavior", "mode2d"}
# data extracted from the pinned tree (written together with the fingerprints); used when the templates no longer match
PINNED = os.path.join(os.path.dirname(os.path.dirname(os.path.abspath(__file__))), "translate", "determinism_pinned.json")
MOD = 1000003
TWO53 = 2 ** 53


# =========================================================================== program generator
def _pos(rng, n, discrete=False):
    if discrete:
        return f"(DiscreteRange({3 * n}, {3 * n + 2}), DiscreteRange(-1, 1), 0)"
    return f"(Range({6 * n}, {6 * n + 4}), Range(-3, 3), {rng.choice(['0', 'Range(0, 1)'])})"


def fam_reqonly(rng):
    """random values referenced only from requirements (regression for 91f00b8e): one requirement reads many of
    them (its dependency collection has more than 5 members, so an address-keyed set would no longer keep the
    insertion order), several read two; several random global parameters"""
    n = rng.randint(6, 10)
    ls = ["ego = new Object at (0, 0, 0), with allowCollisions True"]
    for i in range(n):
        ls.append(f"a{i} = {rng.choice(['Range(0, 1)', 'Range(0, 1)', 'Range(0, 2)', 'Normal(0.5, 0.2)', 'Uniform(0.1, 0.5, 0.9)'])}")
    big = " + ".join(f"{i + 1} * a{i}" for i in range(n))
    ls.append(f"require {big} < {round(0.5 * n * (n + 1) / 2 * rng.choice([0.9, 1.0, 1.1]), 3)}")
    idx = list(range(n))
    rng.shuffle(idx)
    for k in range(0, n - 1, 2):
        i, j = idx[k], idx[k + 1]
        ls.append(rng.choice([f"require a{i} + 2 * a{j} < {rng.choice([1.8, 2.2, 2.6])}",
                              f"require a{i} < a{j} + {rng.choice([0.2, 0.4])}",
                              f"require[{rng.choice([0.3, 0.6, 0.9])}] a{i} < a{j}"]))
    for k in range(rng.randint(2, 8)):
        ls.append(f"param p{k} = {rng.choice(['Range(0, 1)', '(DiscreteRange(0, 9), Range(0, 1))', 'Normal(0, 1)', 'Range(0, 1) + Range(0, 1)'])}")
    ls.append(f"o = new Object at {_pos(rng, 1)}, with allowCollisions True")
    return "\n".join(ls) + "\n", {}, False


def fam_closure(rng):
    """random values reachable only through the closure cells of functions called by a requirement"""
    n = rng.randint(3, 6)
    ls = ["def mk(x):", "    def h():", "        return x", "    return h"]
    for i in range(n):
        ls.append(f"f{i} = mk(Range(0, 1))")
    ls.append("ego = new Object at (0, 0, 0), with allowCollisions True")
    # asymmetric in the f's, so that the order in which they are sampled shows in the attempt count
    terms = " + ".join(f"{i + 1} * f{i}()" for i in range(n))
    ls.append(f"require {terms} < {round(0.5 * n * (n + 1) / 2 * rng.choice([0.8, 0.9, 1.0]), 3)}")
    ls.append(f"require f0() + {rng.choice([0.1, 0.2])} < f{n - 1}()")
    ls.append("param p = Range(0, 1)")
    return "\n".join(ls) + "\n", {}, False


def fam_closure2(rng):
    """requirements with several atomic propositions reading functions with one or two closure cells, some
    functions met several times, a shared cell value, random values bound to two names, `can see`"""
    n = rng.randint(3, 5)
    ls = ["def mk(x):", "    def h():", "        return x", "    return h",
          "def mk2(x, y):", "    def h():", "        return x + y", "    return h",
          "shared = Range(0, 1)"]
    for i in range(n):
        ls.append(f"f{i} = mk(Range(0, 1))")
    ls.append("g0 = mk2(Range(0, 1), shared)")
    ls.append("g1 = mk2(shared, Range(0, 1))")
    ls.append("alias = f0")
    ls.append("ego = new Object at (0, 0, 0), with allowCollisions True")
    ls.append(f"o1 = new Object at {_pos(rng, 1)}, with allowCollisions True")
    fs = [f"f{i}" for i in range(n)] + ["g0", "g1", "alias"]

    def atom():
        a, b = rng.sample(fs, 2)
        return rng.choice([f"{a}() + {rng.choice([1, 2, 3])} * {b}() < {rng.choice([2.5, 3.5, 4.5])}",
                           f"{a}() < {b}() + {rng.choice([0.3, 0.6, 0.9])}", f"{a}() + shared < 1.9"])
    for _ in range(rng.randint(2, 4)):
        k = rng.random()
        if k < 0.4:
            ls.append(f"require ({atom()}) and ({atom()})")
        elif k < 0.6:
            ls.append(f"require ({atom()}) or ({atom()})")
        elif k < 0.8:
            ls.append(f"require[{rng.choice([0.5, 0.9])}] {atom()}")
        else:
            ls.append(f"require {atom()}")
    if rng.random() < 0.5:
        ls.append("require (ego can see o1) or shared > 2")
    ls.append("param p = shared")
    ls.append("param q = Range(0, 1)")
    ls.append(f"param r = {rng.choice(['shared', '3', 'ego'])}")
    return "\n".join(ls) + "\n", {}, False


BEHAVIOR = """behavior B(k):
    while True:
        x = Range(0, 1) * gspeed
        n = DiscreteRange(0, 5)
        c = Uniform('l', 'r', 7)
        take x, n, c, gturn * k
        if Uniform(True, False, False):
            wait
monitor M():
    while True:
        if ego.position.x > gmax:
            terminate
        wait
"""


def fam_behavior(rng):
    ls = ["gspeed = Range(1, 2)", "gturn = Uniform(-1, 1, 0.5)", f"gmax = Range({rng.choice([5, 15, 40])}, 50)",
          "gthr = Range(1, 2)", BEHAVIOR.rstrip("\n")]
    nobj = rng.randint(1, 3)
    for n in range(nobj):
        tgt = "ego" if n == 0 else f"o{n}"
        beh = f", with behavior B({n + 1})" if n == 0 or rng.random() < 0.6 else ""
        ls.append(f"{tgt} = new Object at {_pos(rng, n)}{beh}, with allowCollisions True")
    ls += ["require monitor M()", "record ego.position as pos", "record final ego.position.x as fx",
           "record initial gthr as thr0",
           "require always ego.position.x > -gthr",
           f"terminate when ego.position.x > Range({rng.choice([20, 30])}, 45)"]
    if rng.random() < 0.5:
        ls.append("require gspeed + gthr < 3.7")
    return "\n".join(ls) + "\n", {}, True


def fam_objects(rng):
    ls = [f"ego = new Object at (0, 0, 0), facing Range(-0.5, 0.5){rng.choice(['', ', with viewAngle 150 deg'])}"]
    nobj = rng.randint(2, 4)
    for n in range(1, nobj + 1):
        extra = rng.choice(["", ", with width Range(0.5, 2)", ", with shape SpheroidShape()", ", facing Range(-1, 1)",
                            ", with shape ConeShape(), with height Range(1, 2)"])
        if rng.random() < 0.5:
            ls.append(f"o{n} = new Object at (DiscreteRange(1, 4), DiscreteRange(-2, 2), 0){extra}")
        else:
            ls.append(f"o{n} = new Object at (Range(1, 7), Range(-3, 3), 0){extra}")
        if rng.random() < 0.3:
            ls.append(f"mutate o{n}")
    if rng.random() < 0.7:
        ls.append(f"require ego can see o{rng.randint(1, nobj)}")
    if rng.random() < 0.4:
        ls.append(f"ov = new Object visible from ego, with allowCollisions True")
    if rng.random() < 0.4:
        ls.append(f"require (distance from ego to o1) > {rng.choice([1.5, 2.5])}")
    ls.append("param q = (DiscreteRange(0, 3), Range(0, 1))")
    return "\n".join(ls) + "\n", {}, False


def fam_regions(rng):
    ls = ["r1 = RectangularRegion(5 @ 0, Range(0, 1), 6, 4)", "r2 = CircularRegion(0 @ 8, Range(2, 3))",
          "r3 = PolygonalRegion([0 @ -10, 6 @ -10, 6 @ -6, 3 @ -4, 0 @ -6])",
          "ego = new Object in r1, with allowCollisions True",
          "a = new Object in r2, with allowCollisions True",
          f"b = new Object {rng.choice(['in', 'on'])} r3, with allowCollisions True, facing Range(0, 1)"]
    if rng.random() < 0.6:
        ls.append("c = new Object in BoxRegion(dimensions=(4, 4, 4), position=(20, 0, 2)), with allowCollisions True")
    if rng.random() < 0.6:
        ls.append("d = new Object in r1.intersect(RectangularRegion(6 @ 0, 0, 6, 2)), with allowCollisions True")
    if rng.random() < 0.5:
        ls.append("require (distance from ego to a) < 14")
    ls.append("param w = Range(0, 1)")
    return "\n".join(ls) + "\n", {}, False


def fam_mode2d(rng):
    ls = ["ego = new Object at Range(0, 3) @ Range(-2, 2), facing Range(-1, 1)"]
    for n in range(1, rng.randint(2, 4)):
        ls.append(f"o{n} = new Object at Range({4 * n}, {4 * n + 3}) @ Range(-2, 2), with width Range(0.5, 1.5)")
    ls.append("v = Range(0, 1)")
    ls.append("require v > 0.2")
    ls.append("require ego can see o1")
    ls.append("param p = v + Range(0, 1)")
    return "\n".join(ls) + "\n", {"mode2D": True}, False


def fam_numpyuser(rng):
    ls = ["import numpy", "from scenic.core.distributions import distributionFunction", "@distributionFunction",
          "def noisy(x):", "    return x + numpy.random.random()",
          "ego = new Object at (0, 0, 0)",
          f"o1 = new Object at (Range(1, 6), Range(-3, 3), 0){rng.choice(['', ', with shape SpheroidShape()'])}",
          "require ego can see o1", "param n = noisy(Range(0, 1))", "a = noisy(Range(0, 1))", "require a < 1.6"]
    return "\n".join(ls) + "\n", {}, False


FAMILIES = [("reqonly", fam_reqonly), ("closure", fam_closure), ("closure2", fam_closure2), ("behavior", fam_behavior),
            ("objects", fam_objects), ("regions", fam_regions), ("mode2d", fam_mode2d), ("numpyuser", fam_numpyuser)]


# =========================================================================== worker (fresh subprocess)
_KEEP = []


_SLOT_CLASSES = []


def _perturb_heap(n, seed):
    """allocate (and partly free) objects of many size classes so that later allocations land elsewhere:
    functions, closures, plain instances, slotted instances of 1..24 slots, tuples, lists, dicts, strings"""
    r = random.Random(seed)
    if not _SLOT_CLASSES:
        for k in range(1, 25):
            _SLOT_CLASSES.append(type(f"J{k}", (), {"__slots__": tuple(f"a{i}" for i in range(k))}))

    class Plain:
        pass

    def mk(x):
        def h():
            return x
        return h
    junk = []
    for i in range(n):
        k = r.randrange(9)
        if k == 0:
            o = mk(i)
        elif k == 1:
            o = object()
        elif k == 2:
            o = [i] * r.randrange(1, 40)
        elif k == 3:
            o = {i: i}
        elif k == 4:
            o = "s" * r.randrange(1, 200) + str(i)
        elif k == 5:
            o = (lambda: i)
        elif k == 6:
            o = Plain()
            for a in range(r.randrange(0, 4)):
                setattr(o, f"x{a}", a)
        elif k == 7:
            o = r.choice(_SLOT_CLASSES)()
        else:
            o = tuple(range(r.randrange(1, 30)))
        junk.append(o)
    for i in range(0, len(junk), 3):
        if r.random() < 0.5:
            junk[i] = None
    _KEEP.append(junk)


def canon_value(v, depth=0):
    import numpy
    from scenic.core.vectors import Orientation, Vector
    if isinstance(v, (bool, int, str, type(None))):
        return repr(v)
    if isinstance(v, float):
        return struct.pack("<d", v).hex()
    if isinstance(v, Vector):
        return "V(" + ",".join(canon_value(float(c)) for c in v) + ")"
    if isinstance(v, Orientation):
        return "O(" + ",".join(canon_value(float(c)) for c in v.q) + ")"
    if isinstance(v, (tuple, list)) and depth < 4:
        return "[" + ",".join(canon_value(x, depth + 1) for x in v) + "]"
    if isinstance(v, dict) and depth < 4:
        return "{" + ",".join(f"{k}:{canon_value(x, depth + 1)}" for k, x in sorted(v.items(), key=lambda t: str(t[0]))) + "}"
    if isinstance(v, (numpy.floating, numpy.integer)):
        return canon_value(v.item())
    if isinstance(v, numpy.ndarray) and v.size <= 64:
        return "A" + canon_value([float(x) for x in v.ravel()])
    return f"<{type(v).__name__}>"


SKIP_PROPS = {"behavior", "regionContainedIn", "mutator", "lastActions"}


def canon_scene(scene):
    objs = []
    for o in scene.objects:
        objs.append({p: canon_value(getattr(o, p)) for p in sorted(o.properties) if p not in SKIP_PROPS})
    params = {k: canon_value(v) for k, v in sorted(scene.params.items()) if not k.startswith("_")}
    return {"objects": objs, "params": params}


def rng_fingerprint():
    import numpy
    st = random.getstate()
    ns = numpy.random.get_state()
    h1 = hashlib.sha256(repr(st).encode()).hexdigest()[:16]
    h2 = hashlib.sha256(ns[1].tobytes() + repr(ns[2:]).encode()).hexdigest()[:16]
    return h1, h2


def make_sim_classes():
    from scenic.core.simulators import Simulation, Simulator
    from scenic.core.vectors import Vector

    class KinSimulator(Simulator):
        def createSimulation(self, scene, **kw):
            return KinSimulation(scene, **kw)

    class KinSimulation(Simulation):
        def __init__(self, scene, **kw):
            self.pending, self.pos, self.spd = [], {}, {}
            super().__init__(scene, **kw)

        def createObjectInSimulator(self, obj):
            self.pos[obj] = obj.position
            self.spd[obj] = 0.0

        def actionsAreCompatible(self, agent, actions):
            return True

        def executeActions(self, allActions):
            for obj, acts in allActions.items():
                if len(acts) == 4:
                    x, n, c, u = acts
                    d = Vector(float(x), (1 if c == "l" else -1 if c == "r" else 0.5) * float(u), 0)
                    self.pending.append((obj, d, n))

        def step(self):
            for obj, d, n in self.pending:
                self.pos[obj] = self.pos[obj] + d
                self.spd[obj] = float(n)
            self.pending = []

        def getProperties(self, obj, properties):
            vals = dict(position=self.pos[obj], yaw=obj.yaw, pitch=obj.pitch, roll=obj.roll, velocity=Vector(0, 0, 0),
                        angularVelocity=Vector(0, 0, 0), speed=self.spd[obj], angularSpeed=0.0)
            for p in properties:
                vals.setdefault(p, None)
            return vals

    return KinSimulator


def canon_sim(sim):
    r = sim.result
    return {
        "trajectory": [[canon_value(p) for p in st] for st in r.trajectory],
        "actions": [sorted((str(i), repr(v)) for i, v in enumerate(a.values())) for a in r.actions],
        "records": {k: canon_value(list(v) if isinstance(v, (list, tuple)) else v) for k, v in sorted(r.records.items())},
        "termination": [str(r.terminationType), str(r.terminationReason)],
    }


class FakeTime:
    """replacement for the `time` module inside sample_checking: seeded jitter instead of the wall clock"""

    def __init__(self, seed):
        self.r, self.t = random.Random(seed), 0.0

    def perf_counter(self):
        self.t += self.r.choice([1e-7, 1e-4, 0.3, 5.0]) * self.r.random()
        return self.t

    def __getattr__(self, name):
        return getattr(_time, name)


def run_once(spec, pert):
    """seed, compile, sample and simulate once under the perturbation `pert`; returns the canonical dump"""
    import numpy
    import scenic
    from scenic.core.distributions import RejectionException
    import scenic.core.sample_checking as SC
    if pert.get("prealloc2"):
        _perturb_heap(pert["prealloc2"], pert.get("prealloc_seed", 1) + 7)
    SC.time = FakeTime(pert["jitter"]) if pert.get("jitter") is not None else _time
    out = {"scenes": [], "errors": []}
    try:
        random.seed(spec["seed"])
        numpy.random.seed(spec["seed"])
        try:
            sc = scenic.scenarioFromString(spec["program"], **spec.get("options", {}))
        except Exception as e:  # a generator-invalid program: same in every process
            out["errors"].append(f"compile:{type(e).__name__}:{str(e)[:200]}")
            return out
        if pert.get("burn"):
            k = pert["burn"]
            orig = sc.checker.checkRequirements

            def burning(sample):
                for _ in range(k):
                    random.random()
                    numpy.random.random()
                random.gauss(0, 1)
                return orig(sample)
            sc.checker.checkRequirements = burning
        np_before = rng_fingerprint()[1]
        max_it = spec.get("max_iterations", 300)
        scene = None
        for i in range(spec.get("nscenes", 2)):
            try:
                scene, its = sc.generate(maxIterations=max_it)
                out["scenes"].append({"scene": canon_scene(scene), "iterations": its, "rng": rng_fingerprint()})
            except RejectionException:
                out["scenes"].append({"scene": None, "iterations": "exhausted", "rng": rng_fingerprint()})
            except Exception as e:
                out["errors"].append(f"generate:{type(e).__name__}:{str(e)[:200]}")
                break
            if pert.get("warm"):
                st, nst = random.getstate(), numpy.random.get_state()
                for _ in range(pert["warm"]):
                    try:
                        sc.generate(maxIterations=60)
                    except RejectionException:
                        pass
                random.setstate(st)
                numpy.random.set_state(nst)
        out["np_untouched"] = (rng_fingerprint()[1] == np_before)
        if spec.get("sim") and scene is not None and not out["errors"]:
            try:
                sim = make_sim_classes()().simulate(scene, maxSteps=spec.get("steps", 8), maxIterations=5)
                out["sim"] = None if sim is None else canon_sim(sim)
            except Exception as e:
                out["errors"].append(f"simulate:{type(e).__name__}:{str(e)[:200]}")
            out["sim_rng"] = rng_fingerprint()
        return out
    finally:
        SC.time = _time


def worker(spec):
    """One pristine process per program: the first perturbation variant runs fresh (nothing was ever compiled
    in this process), the following ones run in the same process (cheap search for layout / timing / history
    dependence; a divergence found there is re-checked in fresh processes before it is reported)."""
    return {"variants": [run_once(spec, pert) for pert in spec.get("variants", [{}])]}


def zygote_main(payload):
    """A fresh interpreter (own hash seed, environment, pre-import heap state) that imports Scenic once and
    then forks one pristine child per job; each child compiles, samples and simulates one program."""
    z, jobs = payload["z"], payload["jobs"]
    if z.get("prealloc"):
        _perturb_heap(z["prealloc"], z.get("prealloc_seed", 1))
    import numpy  # noqa
    import scenic  # noqa
    import scenic.core.sample_checking  # noqa
    import scenic.core.simulators  # noqa
    import gc
    import signal
    gc.collect()
    gc.freeze()  # keep the collector from touching (and so copying) every inherited page in the children
    results = []
    par = max(1, int(z.get("parallel", 1)))

    def spawn(spec):
        r, w = os.pipe()
        pid = os.fork()
        if pid == 0:
            os.close(r)
            try:
                signal.alarm(int(spec.get("child_timeout", 900)))
                res = worker(spec)
            except BaseException as e:  # noqa
                res = {"worker_failed": f"{type(e).__name__}: {str(e)[:300]}"}
            try:
                with os.fdopen(w, "w") as f:
                    f.write(json.dumps(res, sort_keys=True))
            finally:
                os._exit(0)
        os.close(w)
        return pid, r

    def collect(pid, r):
        with os.fdopen(r) as f:
            data = f.read()
        os.waitpid(pid, 0)
        try:
            return json.loads(data)
        except Exception:
            return {"skipped": True, "reason": "child produced no output (killed by its alarm on an overloaded machine)"}

    deadline = (_time.time() + z["budget_s"]) if z.get("budget_s") else None  # counted from after the import
    for i in range(0, len(jobs), par):
        if deadline is not None and _time.time() > deadline:
            results += [{"skipped": True}] * (len(jobs) - i)
            break
        running = [spawn(spec) for spec in jobs[i:i + par]]
        results += [collect(pid, r) for pid, r in running]
    return results


def run_zygote(z, jobs, timeout=3000):
    env = dict(os.environ)
    env["PYTHONHASHSEED"] = str(z.get("hashseed", 0))
    env["C15_PAD"] = "x" * z.get("pad", 0)
    for k in ("OMP_NUM_THREADS", "OPENBLAS_NUM_THREADS", "MKL_NUM_THREADS"):
        env[k] = "1"
    env.pop("VERIF_SEED", None)
    root = os.environ.get("VERIF_ROOT") or os.path.dirname(os.path.dirname(os.path.dirname(os.path.abspath(__file__))))
    repo = os.environ.get("SCENIC_REPO", "/repo")
    env["PYTHONPATH"] = os.path.join(root, "tools") + ":" + os.path.join(repo, "src")
    p = subprocess.run([sys.executable, "-W", "ignore", os.path.abspath(__file__), "--zygote"],
                       input=json.dumps({"z": z, "jobs": jobs}), capture_output=True, text=True, env=env, timeout=timeout)
    if p.returncode != 0:
        return [{"worker_failed": p.returncode, "stderr": p.stderr[-1500:]}] * len(jobs)
    try:
        return json.loads(p.stdout.strip().splitlines()[-1])
    except Exception:
        return [{"worker_failed": "bad-output", "stderr": (p.stdout + p.stderr)[-1500:]}] * len(jobs)


# =========================================================================== (S) process-level oracle
def make_zygotes(rng, n):
    zs = [{"hashseed": 0, "pad": 0}]
    for _ in range(1, n):
        z = {"hashseed": rng.randrange(1, 2 ** 31), "pad": rng.choice([1, 7, 100, 4096, 20000])}
        if rng.random() < 0.7:
            z["prealloc"] = rng.choice([1, 2, 3, 5, 8, 13, 100, 1000, 5000])
            z["prealloc_seed"] = rng.randrange(1000)
        zs.append(z)
    return zs


def make_perturbation(rng):
    pert = {"prealloc2": rng.choice([3, 5, 7, 11, 20, 50, 200, 700, 3000]), "prealloc_seed": rng.randrange(1000)}
    if rng.random() < 0.7:
        pert["jitter"] = rng.randrange(10 ** 6)
    if rng.random() < 0.4:
        pert["warm"] = rng.choice([1, 2, 5])
    if rng.random() < 0.5:
        pert["burn"] = rng.choice([1, 3, 10])
    return pert


def first_difference(a, b, path=""):
    if type(a) != type(b):
        return f"{path}: {str(a)[:80]} vs {str(b)[:80]}"
    if isinstance(a, dict):
        for k in sorted(set(a) | set(b)):
            if k not in a or k not in b:
                return f"{path}/{k}: present in only one"
            d = first_difference(a[k], b[k], f"{path}/{k}")
            if d:
                return d
        return None
    if isinstance(a, list):
        if len(a) != len(b):
            return f"{path}: lengths {len(a)} vs {len(b)}"
        for i, (x, y) in enumerate(zip(a, b)):
            d = first_difference(x, y, f"{path}[{i}]")
            if d:
                return d
        return None
    return None if a == b else f"{path}: {str(a)[:60]} vs {str(b)[:60]}"


def direct_processes(ctx, roots, Infra):
    rng = ctx.rng
    nprog = ctx.budget(12, 84)
    nproc = ctx.budget(3, 8)       # fresh interpreters (own hash seed / environment / pre-import heap)
    nvar = ctx.budget(4, 6)        # perturbation variants per (program, interpreter); the first runs fresh
    wave = 12                      # programs per wave; the search stops after the wave in which a violation was found
    fams = list(FAMILIES)
    progs = []
    for i in range(nprog):
        name, fn = fams[i % len(fams)]
        code, options, sim = fn(rng)
        progs.append({"family": name, "program": code, "options": options, "sim": sim, "seed": rng.randrange(2 ** 31),
                      "nscenes": rng.choice([2, 3]), "steps": rng.choice([5, 8, 12])})
    zygotes = make_zygotes(rng, nproc)
    nwaves = (nprog + wave - 1) // wave
    budget_s = float(os.environ.get("VERIF_C15_ORACLE_S") or ctx.budget(100, 1000))
    for z in zygotes:
        z["parallel"] = int(os.environ.get("VERIF_C15_PAR") or max(1, min(6, (os.cpu_count() or 4) // nproc)))
        # soft, per wave: on an overloaded machine the remaining programs are skipped, never failed
        z["budget_s"] = budget_s / nwaves
    jobs = []
    for zi in range(nproc):
        row = []
        for pr in progs:
            variants = [make_perturbation(rng) for _ in range(nvar)]
            if zi == 0:
                variants[0] = {}  # the unperturbed baseline
            row.append(dict(pr, variants=variants))
        jobs.append(row)
    t0 = _time.time()
    info = ctx.extra["process_oracle"] = {"programs": nprog, "fresh_interpreters": nproc, "variants_per_process": nvar,
                                          "runs": 0, "fresh_runs": 0, "skipped_at_deadline": 0,
                                          "inprocess_divergences_not_reproduced_fresh": 0, "waves_run": 0}
    found = False
    for w in range(nwaves):
        lo, hi = w * wave, min(nprog, (w + 1) * wave)
        results = [None] * nproc
        with concurrent.futures.ThreadPoolExecutor(max_workers=nproc) as ex:
            futs = {ex.submit(run_zygote, zygotes[zi], jobs[zi][lo:hi]): zi for zi in range(nproc)}
            for f in concurrent.futures.as_completed(futs):
                try:
                    results[futs[f]] = f.result()
                except subprocess.TimeoutExpired:
                    raise Infra("a C15 process-oracle interpreter timed out")
        info["waves_run"] += 1
        found |= compare_wave(ctx, roots, Infra, info, progs, zygotes, jobs, results, lo, hi, nproc, nvar)
        if found:
            if hi < nprog:
                ctx.notes.append(f"process oracle: stopped after wave {w + 1} of {nwaves} (a violation was found)")
            break
    info["wall_s"] = round(_time.time() - t0, 1)
    if info["skipped_at_deadline"]:
        ctx.notes.append(f"process oracle: {info['skipped_at_deadline']} of {nprog * nproc * nvar} runs skipped at the "
                         f"soft deadline ({budget_s:.0f} s after the interpreters had imported Scenic; machine overloaded)")
    return found


def compare_wave(ctx, roots, Infra, info, progs, zygotes, jobs, results, lo, hi, nproc, nvar):
    found = False
    for pi in range(lo, hi):
        pr = progs[pi]
        base_res = results[0][pi - lo]
        if base_res.get("skipped"):
            info["skipped_at_deadline"] += nproc * nvar
            continue
        if "worker_failed" in base_res:
            raise Infra(f"C15 worker failed: {base_res}")
        base = base_res["variants"][0]
        if base.get("errors"):
            ctx.hist("program", f"{pr['family']}:invalid:{base['errors'][0].split(':')[1]}")
        else:
            ctx.hist("program", f"{pr['family']}:ok")
            for sc in base["scenes"]:
                ctx.hist("iterations", sc["iterations"] if isinstance(sc["iterations"], str) else min(sc["iterations"], 10))
            if pr["sim"]:
                ctx.hist("simulation", "none" if not base.get("sim") else base["sim"]["termination"][0])
        nontrivial = not base.get("errors") and any(sc["scene"] for sc in base["scenes"])
        ctx.case(("proc", pr["program"], pr["seed"], json.dumps(base, sort_keys=True)), nontrivial=nontrivial)
        if pr["family"] in NP_FREE_FAMILIES and base.get("np_untouched") is False:
            key = "numpy-stream-perturbed:" + pr["family"]
            if ctx.violation(key, "generating scenes of a program that never draws from numpy.random changed the state "
                                  "of the global NumPy generator (internal sampling leaks into the user-visible stream)",
                             {"kind": "np_perturbed", "z": zygotes[0], "spec": dict(pr, variants=[{}])}):
                found = True
        reported = False
        for zi in range(nproc):
            res = results[zi][pi - lo]
            if res.get("skipped"):
                info["skipped_at_deadline"] += nvar
                continue
            if "worker_failed" in res:
                raise Infra(f"C15 worker failed: {res}")
            for vi, other in enumerate(res["variants"]):
                if zi == 0 and vi == 0:
                    continue
                pert = jobs[zi][pi]["variants"][vi]
                info["runs"] += 1
                info["fresh_runs"] += vi == 0
                ctx.evaluations += 1
                for k in pert:
                    if k != "prealloc_seed":
                        ctx.hist("perturbation", k)
                diff = first_difference(base, other)
                if diff is None or reported:
                    continue
                a = {"z": zygotes[0], "spec": dict(pr, variants=[{}])}
                b = {"z": zygotes[zi], "spec": dict(pr, variants=[pert])}
                if vi > 0:
                    # found by the in-process search: must also differ between two *fresh* processes
                    b, diff = confirm_fresh(base, zygotes[zi], pr, pert)
                    if b is None:
                        info["inprocess_divergences_not_reproduced_fresh"] += 1
                        continue
                reported = True
                key = f"process-divergence:{pr['family']}"
                what = (f"same program ({pr['family']}), options and seed {pr['seed']} gave different results in two "
                        f"fresh processes (PYTHONHASHSEED 0 vs {b['z']['hashseed']}, perturbations "
                        f"{sorted(set(b['spec']['variants'][0]) - {'prealloc_seed'})}): first difference at {diff}"
                        + (f"; containers iterated in an address-dependent order according to the translator: {roots}" if roots else ""))
                if ctx.violation(key, what, {"kind": "processes", "a": a, "b": b}):
                    found = True
    return found


def confirm_fresh(base, z, pr, pert):
    """re-run a divergence found in-process in pristine processes (neighbouring heap perturbations, since
    address layouts are not exactly reproducible); returns (replay half, first difference) or (None, None)"""
    perts = [pert] + [dict(pert, prealloc2=k, prealloc_seed=k) for k in (1, 2, 3, 5, 8, 13, 21)]
    zz = dict(z, parallel=4)
    zz.pop("budget_s", None)
    res = run_zygote(zz, [dict(pr, variants=[p]) for p in perts])
    for p, r in zip(perts, res):
        if "variants" in r:
            d = first_difference(base, r["variants"][0])
            if d:
                return {"z": zz, "spec": dict(pr, variants=[p])}, d
    return None, None


# =========================================================================== (C-a) real object graphs
def extract_graph(scenario):
    from scenic.core.lazy_eval import needsSampling
    ids, keep, table = {}, [], {}

    def visit(q):
        if id(q) in ids:
            return ids[id(q)]
        n = len(ids) + 1
        ids[id(q)] = n
        keep.append(q)
        if needsSampling(q):
            c = getattr(q, "_conditioned", q)
            table[n] = [visit(ch) for ch in c._dependencies]
        return n
    order = [visit(q) for q in scenario.dependencies]
    return ids, table, order, keep


class GraphCorr:
    """(C-a) binding order of the real Samplable.sampleAll on the object graph of a compiled scenario, for three
    dependency orders (as compiled, reversed, shuffled), against the model's sampleAll"""

    def __init__(self, ctx):
        self.ctx, self.lines, self.expected, self.metas = ctx, [], [], []

    def add(self, sc, name, code):
        from scenic.core.distributions import RejectionException, Samplable
        ctx, rng = self.ctx, self.ctx.rng
        log = []
        orig = Samplable.sample

        def logged(self_, subsamples=None):
            r = orig(self_, subsamples)
            log.append(id(self_))
            return r
        ids, table, order, keep = extract_graph(sc)
        # also a permuted order (the model must follow whatever order it is given)
        for variant in ("dependencies", "reversed", "shuffled"):
            deps = list(sc.dependencies)
            if variant == "reversed":
                deps.reverse()
            elif variant == "shuffled":
                rng.shuffle(deps)
            log.clear()
            Samplable.sample = logged
            try:
                Samplable.sampleAll(deps)
                rejected = False
            except RejectionException:
                rejected = True
            finally:
                Samplable.sample = orig
            real = [ids[i] for i in log if i in ids]
            unknown = [i for i in log if i not in ids]
            o = [ids[id(q)] for q in deps if ids[id(q)] in table]
            nodes = " ".join(f"{n}:no:0:{','.join(map(str, ds)) or '-'}" for n, ds in sorted(table.items()))
            self.lines.append(f"C15 sample | | | {' '.join(map(str, o))} | {nodes}")
            self.expected.append((real, rejected, len(unknown)))
            self.metas.append((name, variant, code))
            ctx.hist("graph_nodes", min(len(table) // 10 * 10, 100))

    def finish(self):
        ctx = self.ctx
        if not self.lines:
            return
        outs = ctx.driver(self.lines)
        bad = 0
        for ln, out, (real, rejected, unknown), (name, variant, code) in zip(self.lines, outs, self.expected, self.metas):
            ctx.case(("graph", ln), nontrivial=len(real) > 3)
            ctx.hist("graph_case", f"{name}:{variant}:{'rejected' if rejected else 'sampled'}")
            toks = out.split()
            model = [int(t.split("=")[0]) for t in toks[1:] if "=" in t and not t.startswith(("py=", "np="))]
            # identities outside the extracted graph are nested sampling done inside some sampleGiven: not the traversal
            if unknown:
                ctx.hist("graph_nested_sampling", name)
            ok = toks and toks[0] == "ok" and (model[:len(real)] == real if rejected else model == real)
            if not ok:
                bad += 1
                if bad <= 3:
                    ctx.broken("correspondence", "binding order of Samplable.sampleAll vs model",
                               f"{name}/{variant}: real={real[:40]} model={model[:40]} unknown={unknown} program={code[:300]!r}")


# =========================================================================== (C-c) construction of the dependency tuple
def _expected_closure_sequence(req):
    """the functions with closure cells in the order getNameBindings meets them (may repeat): the requirement
    itself if it has nonlocals, then the function values of its globals, then of its nonlocals"""
    import inspect
    ext = inspect.getclosurevars(req)
    seq = []
    if ext.nonlocals:
        seq.append(req)
    for bindings in (ext.globals, ext.nonlocals):
        for value in bindings.values():
            if inspect.isfunction(value) and value.__closure__ is not None:
                seq.append(value)
    return seq


def corr_initdeps(ctx):
    """(C-a'') the real `Samplable.__init__` / `LazilyEvaluable.__init__` on argument lists mixing lazy and non-lazy
    values, repeated values, empty / all-constant lists vs the model's `initDependencies` (driver line `initdeps`)"""
    from scenic.core.distributions import Samplable, Range, Options
    rng = ctx.rng
    n = ctx.budget(40, 600)
    cases = []
    for c in range(n):
        pool = [Range(0, 1) for _ in range(rng.randint(0, 4))] + [Options([1, 2])] * rng.randint(0, 1)
        consts = [3, 2.5, "s", None, (1, 2), Samplable(())]   # Samplable(()) needs no sampling: not lazy
        k = rng.choice([0, 1, 2, 3, 5, 8])
        args = [rng.choice(pool) if pool and rng.random() < 0.6 else rng.choice(consts) for _ in range(k)]
        objs = list({id(a): a for a in args}.values())
        rng.shuffle(objs)                      # model identities are unrelated to the argument order
        ident = {id(a): i + 1 for i, a in enumerate(objs)}
        lazy = [ident[id(a)] for a in objs if getattr(a, "_isLazy", False)]
        real = Samplable(args if c % 2 else tuple(args))._dependencies
        cases.append((lazy, [ident[id(a)] for a in args], [ident[id(a)] for a in real], args))
    lines = ["initdeps | " + " ".join(map(str, lz)) + " | " + " ".join(map(str, ar)) for lz, ar, _, _ in cases]
    outs = ctx.driver(lines)
    for (lz, ar, real, args), line, out in zip(cases, lines, outs):
        want = "ok " + (",".join(map(str, real)) if real else "-")
        ctx.case(("initdeps", tuple(lz), tuple(ar)), nontrivial=len(real) >= 2)
        ctx.hist("initdeps_args", len(ar))
        if out.strip() != want:
            ctx.broken("correspondence", "initdeps", f"{line!r}: model {out!r}, real {want!r}")
            break


def corr_compile(ctx):
    """(C-a) and (C-c) on the same compilations.  (C-c): run the real compiler on generated programs with passive hooks recording what the construction of
    Scenario.dependencies reads (bindings, closure functions and their cells, objects, ego, parameters,
    behavior globals) and what it produces at every stage (closures per atomic proposition, dependencies per
    requirement, accumulated requirement dependencies, the final tuple); the Lean model of the construction
    (Model/DepOrder.lean with the generated kinds / segment order / source order) must produce the same"""
    import inspect
    import numpy
    import scenic
    import scenic.core.requirements as R
    import scenic.core.scenarios as S
    from scenic.core.distributions import Samplable
    from scenic.core.lazy_eval import needsSampling
    rng = ctx.rng
    rec = {}
    orig_gnb, orig_init, orig_compile, orig_sinit = (R.getNameBindings, R.PendingRequirement.__init__,
                                                     R.PendingRequirement.compile, S.Scenario.__init__)

    def gnb(req, restrictTo=None):
        res = orig_gnb(req, restrictTo)
        if restrictTo is None and rec.get("cur") is not None:
            rec["cur"].append((req, _expected_closure_sequence(req), tuple(res[2])))
        return res

    def pinit(self, *a, **kw):
        rec["cur"] = []
        try:
            orig_init(self, *a, **kw)
        finally:
            rec["atoms"][id(self)] = rec["cur"]
            rec["keep"].append(self)
            rec["cur"] = None

    def pcompile(self, namespace, scenario, syntax=None):
        cr = orig_compile(self, namespace, scenario, syntax)
        fv = dict(zip(cr.closure.__code__.co_freevars, cr.closure.__closure__))
        cells = fv["cells"].cell_contents if "cells" in fv else ()
        rec["compiled"].append({"preq": self, "deps": tuple(cr.dependencies), "cellvals": {id(c): v for c, v in cells},
                                "cells_keep": cells, "objects": tuple(scenario.objects)})
        return cr

    def sinit(self, *a, **kw):
        ba = inspect.signature(orig_sinit).bind(self, *a, **kw)
        rec["scenario_args"] = dict(ba.arguments)
        return orig_sinit(self, *a, **kw)

    fams = [f for f in FAMILIES if f[0] != "numpyuser"]
    graph = GraphCorr(ctx)
    lines, expected, metas = [], [], []
    R.getNameBindings, R.PendingRequirement.__init__, R.PendingRequirement.compile, S.Scenario.__init__ = gnb, pinit, pcompile, sinit
    try:
        for pi in range(ctx.budget(18, 200)):
            name, fn = fams[(pi // 2) % len(fams)] if pi % 2 else ("closure2", fam_closure2)
            code, options, _ = fn(rng)
            rec.clear()
            rec.update(atoms={}, keep=[], compiled=[], cur=None)
            random.seed(rng.getrandbits(32))
            numpy.random.seed(rng.getrandbits(32))
            try:
                sc = scenic.scenarioFromString(code, **options)
            except Exception as e:
                ctx.hist("deps_program", f"{name}:invalid:{type(e).__name__}")
                continue
            args = rec.get("scenario_args")
            if args is None:
                ctx.broken("correspondence", "construction of Scenario.dependencies vs model", "Scenario.__init__ was not called")
                continue
            ids, keep = {}, []

            def n(o):
                if id(o) not in ids:
                    ids[id(o)] = len(ids) + 1
                    keep.append(o)
                return ids[id(o)]
            needs, samp = set(), set()

            def seen(v):
                k = n(v)
                if needsSampling(v):
                    needs.add(k)
                if isinstance(v, Samplable):
                    samp.add(k)
                return k
            inst = [seen(o) for o in args["instances"]]
            params = [seen(v) for v in dict(args["params"]).values()]
            beh = [seen(v) for ns in args["behaviorNamespaces"].values() for v in ns.values()]
            groups, real_c, real_d, objs = [], [], [], None
            natoms = nfuncs = 0
            for comp in rec["compiled"]:
                preq = comp["preq"]
                objs = [seen(o) for o in comp["objects"]]
                atoms = rec["atoms"].get(id(preq), [])
                atom_txt, atom_real = [], []
                for _req, seq, closures in atoms:
                    toks = []
                    for f in seq:
                        cv = [seen(comp["cellvals"][id(c)]) for c in f.__closure__ if id(c) in comp["cellvals"]]
                        toks.append(f"{n(f)}:{','.join(map(str, cv)) or '-'}")
                    atom_txt.append(" ".join(toks))
                    atom_real.append(",".join(str(n(f)) for f in closures) or "-")
                    natoms += 1
                    nfuncs += len(seq)
                allb = dict(preq.globalBindings)
                allb.update(preq.closureBindings)
                bvals = [seen(v) for v in allb.values()]
                ego = "-" if preq.egoObject is None else str(seen(preq.egoObject))
                groups.append(f"{' / '.join(atom_txt)} | {' '.join(map(str, bvals))} | {int('CanSee' in preq.globalBindings)} {ego}")
                real_c.append("/".join(atom_real))
                real_d.append(",".join(str(seen(v)) for v in comp["deps"]) or "-")
            real_R = ",".join(str(seen(v)) for v in args["requirementDeps"]) or "-"
            real_D = ",".join(str(seen(v)) for v in sc.dependencies) or "-"
            if objs is None:
                objs = [seen(o) for o in args["objects"]]
            head = (f"C15 deps | {' '.join(map(str, inst))} | {' '.join(map(str, params))} | {' '.join(map(str, objs))} | "
                    f"{' '.join(map(str, beh))} | {' '.join(map(str, sorted(needs)))} | {' '.join(map(str, sorted(samp)))}")
            lines.append(" | ".join([head] + groups))
            expected.append((real_c, real_d, real_R, real_D))
            metas.append((name, code, keep))
            ctx.hist("deps_program", f"{name}:ok")
            ctx.hist("deps_requirements", min(len(groups), 8))
            ctx.hist("deps_atoms", min(natoms, 12))
            ctx.hist("deps_closure_functions", min(nfuncs // 4 * 4, 24))
            ctx.hist("deps_tuple_length", min(len(sc.dependencies) // 5 * 5, 40))
            graph.add(sc, name, code)
    finally:
        R.getNameBindings, R.PendingRequirement.__init__, R.PendingRequirement.compile, S.Scenario.__init__ = \
            orig_gnb, orig_init, orig_compile, orig_sinit
    graph.finish()
    if not lines:
        return
    outs = ctx.driver(lines)
    bad = 0
    for ln, out, (real_c, real_d, real_R, real_D), (name, code, _keep) in zip(lines, outs, expected, metas):
        ctx.case(("deps", ln), nontrivial=len(real_d) > 0 and real_R != "-")
        toks = dict(t.split("=", 1) for t in out.split()[1:] if "=" in t)
        m_c = [x if x else "/".join("-" for _ in rc.split("/")) for x, rc in zip(toks.get("c", "").split(";"), real_c)] if real_c else []
        m_d = toks.get("d", "").split(";") if real_d else []
        ok = out.startswith("ok ") and m_c == real_c and m_d == real_d and toks.get("R") == real_R and toks.get("D") == real_D
        if not ok:
            bad += 1
            stage = ("closures" if m_c != real_c else "requirement dependencies" if m_d != real_d else
                     "accumulated requirement dependencies" if toks.get("R") != real_R else "Scenario.dependencies")
            ctx.hist("deps_disagreement", stage)
            if bad <= 3:
                ctx.broken("correspondence", "construction of Scenario.dependencies vs model",
                           f"{name}: first disagreement at {stage}: real c={real_c} d={real_d} R={real_R} D={real_D}; "
                           f"model {out[:400]}; program={code[:400]!r}")
    ctx.extra["deps_correspondence"] = {"compilations": len(lines), "disagreements": bad}


# =========================================================================== (C-b) stub scenario through the real loop
def stub_value(tag, drawn, vals):
    return (drawn + tag + sum((k + 2) * v for k, v in enumerate(vals))) % MOD


def corr_generate(ctx):
    import numpy
    import scenic  # noqa
    import scenic.core.sample_checking as SC
    from scenic.core.distributions import Distribution, RejectionException
    from scenic.core.requirements import SamplingRequirement
    from scenic.core.scenarios import Scenario

    class StubNode(Distribution):
        def __init__(self, nid, src, tag, deps):
            super().__init__(*deps, valueType=float)
            self.nid, self.src, self.tag, self.deps = nid, src, tag, deps

        def sampleGiven(self, value):
            if self.src == "py":
                drawn = int(random.random() * TWO53)
            elif self.src == "np":
                drawn = int(numpy.random.random() * TWO53)
            else:
                drawn = 0
            v = stub_value(self.tag, drawn, [value[d] for d in self.deps])
            if self.tag % 8 == 7 and v % 3 == 0:
                raise RejectionException("stub")
            return v

    class StubReq(SamplingRequirement):
        def __init__(self, a, b, prob=None, optional=False):
            super().__init__(optional=optional)
            self.a, self.b, self.prob = a, b, prob

        def falsifiedByInner(self, sample):
            for _ in range(3):
                random.random()
            numpy.random.random(2)
            return (sample[self.a] + sample[self.b]) % 5 == 0

        @property
        def violationMsg(self):
            return "stub requirement"

    class StubScenario:
        externalSampler = None
        objects = ()
        generateBatch = Scenario.generateBatch
        _generateInner = Scenario._generateInner

        def _makeSceneFromSample(self, sample):
            return [sample[v] for v in self.view]

    class FakeTime:
        def __init__(self, seed):
            self.r, self.t = random.Random(seed), 0.0

        def perf_counter(self):
            self.t += self.r.choice([1e-7, 1e-4, 0.3, 5.0]) * self.r.random()
            return self.t

    rng = ctx.rng
    lines, py_out = [], []
    real_time = SC.time
    N = 400  # more than any run can consume: <= 30 iterations x 9 nodes + 3 x 3 activation draws
    try:
        for ci in range(ctx.budget(150, 3000)):
            n = rng.randint(1, 9)
            nodes = []
            for i in range(1, n + 1):
                deps = sorted(rng.sample(range(1, i), rng.randint(0, min(3, i - 1)))) if i > 1 else []
                rng.shuffle(deps)
                src = rng.choice(["py", "py", "np", "no"])
                tag = rng.choice([0, 1, 2, 3, 7, 15] if rng.random() < 0.5 else [0, 1, 2, 3])
                nodes.append(StubNode(i, src, tag, [nodes[d - 1] for d in deps]))
            order_ids = rng.sample(range(1, n + 1), rng.randint(1, n))
            if rng.random() < 0.3:
                order_ids.append(n + 5)  # a value that needs no sampling
            consts = {n + 5: 0}
            view_ids = rng.sample(order_ids, rng.randint(1, len(order_ids)))
            nuser = rng.randint(0, 3)
            reqs, specs, probs = [], [], []
            for u in range(nuser):
                a, b = rng.randint(1, n), rng.randint(1, n)
                p = rng.choice([0, TWO53 // 4, TWO53 // 2, TWO53 - 1, TWO53])
                reqs.append(StubReq(nodes[a - 1], nodes[b - 1], prob=p / TWO53))
                specs.append(f"{a}:{b}:{u}")
                probs.append(p)
            defaults = []
            for _ in range(rng.randint(0, 2)):
                a, b = rng.randint(1, n), rng.randint(1, n)
                defaults.append(StubReq(nodes[a - 1], nodes[b - 1]))
                specs.append(f"{a}:{b}:-")
                if rng.random() < 0.5:  # a redundant optional twin (BlanketCollisionRequirement)
                    defaults.insert(0, StubReq(nodes[a - 1], nodes[b - 1], optional=True))
            # only sample nodes reachable in `order`: requirements may only look at sampled nodes
            reach = set()

            def mark(i):
                if i in reach or i > n:
                    return
                reach.add(i)
                for d in nodes[i - 1].deps:
                    mark(d.nid)
            for i in order_ids:
                mark(i)
            if any(int(x) not in reach for s in specs for x in s.split(":")[:2]):
                continue
            stub = StubScenario()
            stub.userRequirements = tuple(reqs)
            stub.dependencies = tuple(nodes[i - 1] if i <= n else consts[i] for i in order_ids)
            stub.view = [nodes[i - 1] if i <= n else consts[i] for i in view_ids]
            kind = rng.choice(["weighted", "weighted", "basic"])
            if kind == "weighted":
                stub.checker = SC.WeightedAcceptanceChecker(bufferSize=rng.choice([1, 3, 100]))
                SC.time = FakeTime(rng.randrange(10 ** 6))
            else:
                stub.checker = SC.BasicChecker(rng.random() < 0.5)
                SC.time = real_time
            stub.checker.setRequirements(tuple(defaults) + tuple(reqs))
            nscenes, max_it = rng.randint(1, 3), rng.choice([1, 2, 5, 30])
            seed = rng.getrandbits(32)
            random.seed(seed)
            numpy.random.seed(seed)
            py = [int(random.random() * TWO53) for _ in range(N)]
            npst = [int(numpy.random.random() * TWO53) for _ in range(N)]
            random.seed(seed)
            numpy.random.seed(seed)
            try:
                scenes, total = Scenario.generateBatch(stub, nscenes, max_it)
                ok = 1
            except RejectionException:
                scenes, ok = None, 0
            nxt_py, nxt_np = int(random.random() * TWO53), int(numpy.random.random() * TWO53)
            node_txt = " ".join(f"{x.nid}:{x.src}:{x.tag}:{','.join(str(d.nid) for d in x.deps) or '-'}" for x in nodes)
            lines.append(f"C15 gen {nscenes} {max_it} | {' '.join(map(str, py))} | {' '.join(map(str, npst))} | "
                         f"{' '.join(map(str, order_ids))} | {node_txt} | {' '.join(map(str, probs))} | "
                         f"{' '.join(map(str, view_ids))} | {' '.join(specs)}")
            py_out.append((ok, scenes, total if ok else None, nxt_py, nxt_np, py, npst, kind, nscenes))
            ctx.hist("stub_checker", kind)
            ctx.hist("stub_outcome", "generated" if ok else "exhausted")
    finally:
        SC.time = real_time
    outs = ctx.driver(lines)
    bad = 0
    for ln, out, (ok, scenes, total, nxt_py, nxt_np, py, npst, kind, nscenes) in zip(lines, outs, py_out):
        short = ln.split("|")[0] + "|…|" + "|".join(ln.split("|")[3:])
        toks = dict(t.split("=", 1) for t in out.split() if "=" in t and not t[0].isdigit())
        try:
            m_ok = int(toks["ok"])
            m_py, m_np = int(toks["py"]), int(toks["np"])
            m_sc = out.split("scenes=")[1].rsplit(" py=", 1)[0].split()
            m_scenes = [([int(x) for x in s.split(";")[0].split(",") if x], int(s.split(";")[1])) for s in m_sc]
        except Exception:
            ctx.broken("correspondence", "model driver output", f"{short[:200]} -> {out[:200]}")
            continue
        its = sum(i for _, i in m_scenes)
        ctx.case(("stub", short), nontrivial=its > nscenes or not ok)
        ctx.hist("stub_iterations", min(its, 12))
        good = m_ok == ok and m_py < N - 1 and m_np < N - 1 and py[m_py] == nxt_py and npst[m_np] == nxt_np
        if ok and good:
            good = [list(s) for s in scenes] == [s for s, _ in m_scenes] and total == its
        if not good:
            bad += 1
            if bad <= 3:
                ctx.broken("correspondence", f"Scenario.generateBatch/_generateInner + {kind} checker vs model",
                           f"{short[:400]}: real ok={ok} scenes={scenes} iterations={total} next_py_matches="
                           f"{m_py < N and py[m_py] == nxt_py} next_np_matches={m_np < N and npst[m_np] == nxt_np}; model {out[:200]}")


# =========================================================================== main
def run(ctx):
    from vlib.ctx import Infra, TemplateMismatch
    ctx.rule = ("cases = (a) object graphs of generated programs x 3 dependency orders: binding order of the real "
                "sampleAll vs model; (a') the same compilations under passive hooks: closures per atomic proposition, "
                "dependencies per requirement, accumulated requirement dependencies and Scenario.dependencies of the "
                "real compiler vs the model of the construction; (b) random stub DAGs/requirements/checkers/budgets "
                "through the real generateBatch vs model, exact generator positions; (c) generated programs of 8 families x N fresh "
                "processes with different hash seeds, environment sizes, heap pre-allocations, checker timing "
                "jitter, burnt randomness inside checks and interleaved extra scenes; non-trivial = at least one "
                "rejection or more than 3 nodes / a scene was produced; distinct by content hash")
    ctx.assumptions += [
        "requirement verdicts are functions of the sample (internal sampling uses private generators: the "
        "anchored sites are re-extracted on every run; other third-party randomness is only observed)",
        "a falsified optional requirement (BlanketCollisionRequirement) implies a falsified mandatory one",
        "CPython's allocator and hashing, NumPy and trimesh are explored by fresh processes, not modelled",
    ]
    ctx.trusted_base += ["tools/translate/determinism.py (template extraction + local container-kind tracker)",
                         "tools/props/c15.py (correspondence harness, process-level oracle)"]
    ctx.fingerprint(FINGERPRINTS)
    from translate import determinism
    roots = []
    try:
        d = determinism.extract()
        roots = d["roots"]
        ctx.gen("Determinism", determinism.to_lean(d))
        ctx.extra["order_sites"] = {n: o for n, o, _ in d["sites"]}
        ctx.extra["unordered_roots"] = roots
        ctx.extra["dependency_segments"] = d["segments"]
        ctx.extra["compile_sources"] = d["sources"]
        ctx.extra["sample_sites"] = {n: o for n, o, _ in d["sample_sites"]}
        if os.environ.get("VERIF_UPDATE_FINGERPRINTS") == "1":
            with open(PINNED, "w") as f:
                json.dump(d, f, indent=1, sort_keys=True)
    except TemplateMismatch as e:
        # never leave the data of another tree behind: fall back to the data of the pinned tree
        try:
            with open(PINNED) as f:
                ctx.gen("Determinism", determinism.to_lean(json.load(f)))
        except (OSError, ValueError, KeyError):
            ctx.gen_restore("Determinism")
        ctx.escalated.append(f"translator tie lost (determinism): {e}")
        ctx.notes.append(f"translator tie lost: {e}; relying on the correspondence and the process oracle at thorough budget")
    pr = ctx.prove(THEOREMS, side_conditions=SIDE)
    if ctx.tier == "thorough" and pr.build_ok:
        ctx.leanchecker(["ScenicModel.Props.C15", "ScenicModel.Props.C15Core", "ScenicModel.Props.C15Deps", "ScenicModel.Props.C15Sample",
                         "ScenicModel.Lemmas.Determinism", "ScenicModel.Lemmas.DepOrder",
                         "ScenicModel.Model.Determinism", "ScenicModel.Model.DepOrder",
                         "ScenicModel.Model.SampleOrder"])
    found = False
    driver_ok = pr.build_ok
    if not driver_ok:
        # a side condition on the regenerated data no longer holds: the model itself (Model/ + Gen/) may still
        # build, and then the correspondence still says whether the model follows the code
        rc, _log = ctx.lake(["build", "drv_c15"])
        driver_ok = rc == 0
    if driver_ok:
        corr_initdeps(ctx)
        corr_compile(ctx)
        corr_generate(ctx)
    found |= direct_processes(ctx, roots, Infra)
    ctx.resolve_brokens(found)


def replay(ctx, path):
    body = json.load(open(path))
    rep = body.get("replay", body)
    kind = rep.get("kind")
    if kind == "processes":
        print(rep["a"]["spec"]["program"])
        a = run_zygote(rep["a"]["z"], [rep["a"]["spec"]])[0]["variants"][0]
        # address layouts are not exactly reproducible: retry with neighbouring heap perturbations
        pert = rep["b"]["spec"]["variants"][0]
        for extra in [None] + list(range(1, 13)):
            p = dict(pert) if extra is None else dict(pert, prealloc2=extra, prealloc_seed=extra)
            b = run_zygote(rep["b"]["z"], [dict(rep["b"]["spec"], variants=[p])])[0]["variants"][0]
            d = first_difference(a, b)
            if d:
                print(f"PYTHONHASHSEED {rep['a']['z'].get('hashseed')} vs {rep['b']['z'].get('hashseed')}, "
                      f"perturbation {p}: first difference:", d)
                return 1
        print("no difference reproduced")
        return 0
    if kind == "np_perturbed":
        a = run_zygote(rep["z"], [rep["spec"]])[0]["variants"][0]
        print(rep["spec"]["program"])
        print("numpy generator untouched:", a.get("np_untouched"))
        return 0 if a.get("np_untouched") else 1
    print(json.dumps(rep, indent=1)[:3000])
    return 0


if __name__ == "__main__":
    if "--zygote" in sys.argv:
        payload = json.loads(sys.stdin.read())
        res = zygote_main(payload)
        sys.stdout.write("\n" + json.dumps(res, sort_keys=True) + "\n")
