"""C05, delayed arguments of lifted calls (positional AND keyword, nested, inside containers).

`delayed_programs(rng, n)` generates Scenic programs in which a property of the object under construction is reached
only through a lazily evaluated value (`(c relative to field).yaw`, needing `position`; an explicit DelayedArgument
needing a user property) that is passed to a lifted function / method (`distributionFunction`, `distributionMethod`,
`vectorDistributionMethod`, Vector operators) positionally or by keyword, nested in further lifted calls, inside
tuple / list literals, combined with operators and with random values.  The specifiers of the object are listed in
several orders (dependent specifier before / after the provider) and the provider may be changed by a modifying
specifier (`on`), so that the *final* value of the property differs from the first value assigned to it.

Oracle (no model): the value of every such property in the generated scene equals what plain Python computes with
the undecorated functions from the final property values of the object and the sampled random leaves.

`unit_trees(rng, n)` / `unit_real(tree)` build the same kind of delayed values through the real API without
compiling a program and report (declared required properties, properties read while evaluating); used for the
correspondence with `Delayed.required` / `Delayed.reads` (Lean driver).
"""
import math
import random
import traceback

PRELUDE = '''from scenic.core.distributions import distributionFunction, distributionMethod
from scenic.core.lazy_eval import DelayedArgument

@distributionFunction
def fA(a, b=0, *, k=0):
    return a + 2 * b + 4 * k

@distributionFunction
def fS(a, k=()):
    return a + sum(k)

@distributionFunction
def fT(a, k=0):
    return (k, a)

def _m(self, a, k=0):
    return a - 3 * k

H = type("Helper", (), {"m": distributionMethod(_m)})()
vf = VectorField("vf", lambda pos: 0.04 * pos.x + 0.03 * pos.y + 0.1 * pos.z)
dq = DelayedArgument({"q"}, lambda context: context.q)
ground = new Object at (0, 0, 0), with width 40, with length 40, with height 0.2
box = BoxRegion(dimensions=(16, 16, 2), position=(0, 0, 2))

class Thing(Object):
    q: 7
    width: 0.5
    length: 0.5
    height: 0.5
    allowCollisions: True
    requireVisible: False
'''


# ---------------------------------------------------------------------------- plain Python twins of the prelude
def fA(a, b=0, *, k=0):
    return a + 2 * b + 4 * k


def fS(a, k=()):
    return a + sum(k)


def fT(a, k=0):
    return (k, a)


class Helper:
    def m(self, a, k=0):
        return a - 3 * k


def field_heading(pos):
    return 0.04 * pos[0] + 0.03 * pos[1] + 0.1 * pos[2]


def normalize(a):
    while a > math.pi:
        a -= math.tau
    while a < -math.pi:
        a += math.tau
    return a


def twin_env(pos, q, params):
    from scenic.core.vectors import Vector
    env = {"fA": fA, "fS": fS, "fT": fT, "H": Helper(), "Vector": Vector, "abs": abs, "max": max, "min": min,
           "__builtins__": {}}
    env["YAW"] = lambda c: normalize(c + field_heading(pos))
    env["Q"] = q
    env.update(params)
    return env


# ---------------------------------------------------------------------------- generator
CONSTS = [1, 2, 0.5, -1, 3, 0.25, 10, -0.5]


class DGen:
    """expressions as pairs (scenic source, python twin source); `atoms` = which properties the expression reaches,
    `via` = how the delayed value is passed (histogram)"""

    def __init__(self, rng, nrand):
        self.rng = rng
        self.nrand = nrand
        self.props = set()
        self.via = set()

    def const(self):
        return repr(self.rng.choice(CONSTS))

    def atom(self):
        r = self.rng.random()
        if r < 0.7:
            c = self.rng.choice([0, 0.25, -0.5, 0.5, 1, -1])
            self.props.add("position")
            return f"({c} relative to vf).yaw", f"YAW({c})"
        self.props.add("q")
        return "dq", "Q"

    def plain(self):
        """a non-delayed operand: constant or (sometimes) a random leaf"""
        if self.nrand and self.rng.random() < 0.25:
            i = self.rng.randrange(self.nrand)
            self.via.add("random-sibling")
            return f"r{i}", f"r{i}"
        c = self.const()
        return c, c

    def delayed(self, depth):
        """a delayed numeric expression"""
        rng = self.rng
        if depth <= 0:
            return self.atom()
        form = rng.choice(["kw", "kw", "kw", "pos", "kw2", "mixed", "method-kw", "method-pos", "op", "op", "container-kw",
                           "container-pos", "index", "nested-kw", "vec-kw", "vec-op", "atom"])
        if form == "atom":
            return self.atom()
        d, dp = self.delayed(depth - 1)
        c, cp = self.plain()
        self.via.add(form)
        if form == "kw":
            name = rng.choice(["k", "b"])
            return f"fA({c}, {name}={d})", f"fA({cp}, {name}={dp})"
        if form == "pos":
            which = rng.choice([0, 1])
            return (f"fA({d}, {c})", f"fA({dp}, {cp})") if which == 0 else (f"fA({c}, {d})", f"fA({cp}, {dp})")
        if form == "kw2":
            e, ep = self.delayed(depth - 1)
            return f"fA({c}, b={d}, k={e})", f"fA({cp}, b={dp}, k={ep})"
        if form == "mixed":
            e, ep = self.delayed(depth - 1)
            return f"fA({c}, {d}, k={e})", f"fA({cp}, {dp}, k={ep})"
        if form == "method-kw":
            return f"H.m({c}, k={d})", f"H.m({cp}, k={dp})"
        if form == "method-pos":
            return f"H.m({d}, k={c})", f"H.m({dp}, k={cp})"
        if form == "op":
            o = rng.choice(["{d} + {c}", "{c} - {d}", "{c} * {d}", "-{d}", "{d} / 2", "abs({d})", "{c} + {d} * 2"])
            return "(" + o.format(d=d, c=c) + ")", "(" + o.format(d=dp, c=cp) + ")"
        if form == "container-kw":
            t = rng.choice(["({d}, {c})", "[{c}, {d}]", "({c}, ({d}, 1))"])
            if "((" in t or ", (" in t:
                return f"fA({c}, k=fT(1, k={d})[0])", f"fA({cp}, k=fT(1, k={dp})[0])"
            return f"fS({c}, k={t.format(d=d, c=c)})", f"fS({cp}, k={t.format(d=dp, c=cp)})"
        if form == "container-pos":
            return f"fS({c}, ({d}, {c}))", f"fS({cp}, ({dp}, {cp}))"
        if form == "index":
            i = rng.choice([0, 1])
            return f"fT({c}, k={d})[{i}]", f"fT({cp}, k={dp})[{i}]"
        if form == "nested-kw":
            return f"fA({c}, k=fA(1, b={d}))", f"fA({cp}, k=fA(1, b={dp}))"
        if form == "vec-kw":
            # a vectorDistributionMethod of a vector field with a delayed keyword argument
            return (f"vf.followFrom(Vector(1, 2, 0), {d}, stepSize=1).x", f"FOLLOW({dp})")
        if form == "vec-op":
            return f"(Vector(1, 2, 3) + ({d}, {c}, 0)).y", f"(Vector(1, 2, 3) + ({dp}, {cp}, 0)).y"
        raise AssertionError(form)


def follow_twin(dist):
    """plain-Python value of vf.followFrom(Vector(1,2,0), dist, stepSize=1).x (forward Euler along the field)"""
    from scenic.core.vectors import Vector, VectorField
    vf = VectorField("vf", lambda pos: 0.04 * pos.x + 0.03 * pos.y + 0.1 * pos.z)
    return vf.followFrom(Vector(1, 2, 0), dist, stepSize=1).x


def gen_program(rng):
    """returns (program text, checks, info): checks = [(property, python twin source)]"""
    nrand = rng.choice([0, 0, 1, 2])
    lines = [PRELUDE]
    rsrc = ["Range(0, 1)", "DiscreteRange(1, 3)", "Uniform(0.5, 2)", "Range(-1, 1)"]
    for i in range(nrand):
        lines.append(f"r{i} = {rng.choice(rsrc)}")
    if nrand:
        lines.append("param " + ", ".join(f"r{i} = r{i}" for i in range(nrand)))
    g = DGen(rng, nrand)
    nprops = rng.choice([1, 1, 2, 3])
    specs, checks = [], []
    for j in range(nprops):
        s, p = g.delayed(rng.choice([1, 1, 2, 2, 3]))
        specs.append(("dep", f"with foo{j} {s}"))
        checks.append((f"foo{j}", p))
    # the providers of the properties the delayed values reach
    provider = rng.choice(["at", "at", "in", "default"])
    modifier = provider != "default" and rng.random() < 0.5
    if provider == "at":
        specs.append(("provider", "at (Range(-8, 8), Range(-8, 8), Range(1, 3))"))
    elif provider == "in":
        specs.append(("provider", "in box"))
    if modifier:
        specs.append(("modifier", "on ground"))
    qprov = rng.choice(["default", "with-const", "with-random"])
    if qprov == "with-const":
        specs.append(("qprovider", f"with q {rng.choice([2, 3.5, -1])}"))
    elif qprov == "with-random":
        specs.append(("qprovider", "with q Range(1, 2)"))
    order = rng.choice(["dependent-first", "dependent-last", "shuffled", "shuffled"] + (["between", "between"] if modifier else []))
    if order == "between":      # provider, then the dependent specifiers, then the specifier modifying the provider
        specs.sort(key=lambda s: {"dep": 1, "modifier": 2}.get(s[0], 0))
    elif order == "dependent-first":
        specs.sort(key=lambda s: s[0] != "dep")
    elif order == "dependent-last":
        specs.sort(key=lambda s: s[0] == "dep")
    else:
        rng.shuffle(specs)
    # `on` must follow the specifier whose position it modifies only logically, not textually: any order is legal
    lines.append("obj = new Thing " + ",\n    ".join(s for _, s in specs))
    lines.append("param inst = obj")
    info = {"order": order, "provider": provider, "modifier": modifier, "qprovider": qprov, "via": sorted(g.via),
            "props": sorted(g.props), "nrand": nrand}
    return "\n".join(lines) + "\n", checks, info


# ---------------------------------------------------------------------------- running a program on the real code
LEGIT_REJECTIONS = ("ScenicParseError", "ScenicSyntaxError")


def run_program(code, checks, seed, nscenes=3):
    """-> dict(stage, exc, msg, bad): bad = description of the first disagreement with plain Python (or None)"""
    import numpy
    import scenic
    random.seed(seed)
    numpy.random.seed(seed)
    try:
        sc = scenic.scenarioFromString(code)
    except BaseException as e:
        tb = traceback.extract_tb(e.__traceback__)
        where = f"{tb[-1].filename.split('/')[-1]}:{tb[-1].name}" if tb else "?"
        return {"stage": "compile", "exc": type(e).__name__, "msg": str(e)[:300], "where": where, "bad": None, "scenes": 0}
    from scenic.core.vectors import Vector
    n = 0
    for _ in range(nscenes):
        try:
            scene, _ = sc.generate(maxIterations=200, verbosity=0)
        except BaseException as e:
            return {"stage": "generate", "exc": type(e).__name__, "msg": str(e)[:300], "where": "", "bad": None, "scenes": n}
        n += 1
        obj = scene.params["inst"]
        pos = tuple(obj.position)
        params = {k: v for k, v in scene.params.items() if k.startswith("r") and k[1:].isdigit()}
        env = twin_env(pos, obj.q, params)
        env["FOLLOW"] = follow_twin
        for prop, twin in checks:
            got = getattr(obj, prop)
            try:
                want = eval(twin, env)
            except Exception as e:          # plain Python raises: nothing to compare
                continue
            if not close_val(got, want):
                return {"stage": "value", "exc": None, "msg": "", "where": "", "scenes": n,
                        "bad": f"{prop} = {show(got)} in the scene, but plain Python on the final values gives {show(want)} "
                               f"(final position {tuple(round(c, 6) for c in pos)}, q = {obj.q!r}, random leaves {params})"}
    return {"stage": "ok", "exc": None, "msg": "", "where": "", "bad": None, "scenes": n}


def show(v):
    if isinstance(v, float):
        return repr(round(v, 9))
    return repr(v)


def close_val(a, b, tol=1e-7):
    if isinstance(a, (tuple, list)) or isinstance(b, (tuple, list)):
        try:
            return len(a) == len(b) and all(close_val(x, y, tol) for x, y in zip(a, b))
        except TypeError:
            return False
    try:
        return abs(float(a) - float(b)) <= tol * max(1.0, abs(float(a)), abs(float(b)))
    except (TypeError, ValueError):
        return a == b


def verdict(res):
    """None when the property holds on this program; else (key suffix, text)"""
    if res["stage"] == "compile":
        if res["exc"] in LEGIT_REJECTIONS:
            return None
        return ("compile:" + res["exc"], f"compiling raised {res['exc']}: {res['msg']} (in {res['where']}); the program only "
                "uses supported lifted calls on lazily evaluated values")
    if res["stage"] == "generate":
        if res["exc"] == "RejectionException":
            return None
        return ("generate:" + res["exc"], f"scene generation raised {res['exc']}: {res['msg']}")
    if res["bad"]:
        return ("value", res["bad"])
    return None


# ---------------------------------------------------------------------------- unit level: required vs read properties
PROPS = ["p0", "p1", "p2", "p3"]


def unit_tree(rng, depth):
    """tree ::= ("const", c) | ("prop", i) | ("call", kind, [tree], [tree])   kind: fn | method | dcall | op | pack | attr"""
    if depth <= 0 or rng.random() < 0.2:
        return ("prop", rng.randrange(len(PROPS))) if rng.random() < 0.6 else ("const", rng.choice([1, 2, 3]))
    kind = rng.choice(["fn", "fn", "fn", "method", "dcall", "op", "pack", "attr"])
    if kind == "attr":
        return ("call", "attr", [forced_delayed(rng, depth - 1)], [])
    if kind == "op":
        return ("call", "op", [forced_delayed(rng, depth - 1), unit_tree(rng, depth - 1)], [])
    if kind == "dcall":
        return ("call", "dcall", [forced_delayed(rng, depth - 1)] + [unit_tree(rng, depth - 1) for _ in range(rng.randint(0, 2))],
                [unit_tree(rng, depth - 1) for _ in range(rng.randint(0, 2))])
    npos, nkw = rng.randint(0, 2), rng.randint(0, 2)
    if kind == "pack":
        npos, nkw = rng.randint(1, 3), 0
    if npos + nkw == 0:
        nkw = 1
    return ("call", kind, [unit_tree(rng, depth - 1) for _ in range(npos)], [unit_tree(rng, depth - 1) for _ in range(nkw)])


def forced_delayed(rng, depth):
    t = unit_tree(rng, depth)
    return t if tree_is_delayed(t) else ("prop", rng.randrange(len(PROPS)))


def tree_is_delayed(t):
    if t[0] == "prop":
        return True
    if t[0] == "const":
        return False
    return any(tree_is_delayed(x) for x in t[2] + t[3])


def tree_reads(t):
    if t[0] == "prop":
        return {t[1]}
    if t[0] == "const":
        return set()
    out = set()
    for x in t[2] + t[3]:
        out |= tree_reads(x)
    return out


def unit_real(t):
    """build the value through the real API; -> (declared required properties, properties read, value or error class)"""
    from scenic.core import lazy_eval as LE
    from scenic.core.distributions import distributionFunction, distributionMethod

    @distributionFunction
    def fn(*a, **k):
        return sum(a) + 2 * sum(k.values())

    class M:
        @distributionMethod
        def m(self, *a, **k):
            return sum(a) + 2 * sum(k.values())

    class Obj:
        def __init__(self, v):
            self.v = v

        def __call__(self, *a, **k):
            return self.v + sum(a) + 2 * sum(k.values())

    def build(t):
        if t[0] == "const":
            return t[1]
        if t[0] == "prop":
            name = PROPS[t[1]]
            return LE.DelayedArgument({name}, lambda ctx, name=name: getattr(ctx, name), _internal=True)
        _, kind, pos, kw = t
        a = [build(x) for x in pos]
        k = {f"k{i}": build(x) for i, x in enumerate(kw)}
        if kind == "fn":
            return fn(*a, **k)
        if kind == "method":
            return M().m(*a, **k)
        if kind == "pack":
            return _sum_lazy(LE, a)
        if kind == "op":
            return a[0] + a[1]
        if kind == "attr":
            return a[0].real
        if kind == "dcall":
            base = LE.DelayedArgument(LE.requiredProperties(a[0]), lambda ctx, d=a[0]: Obj(LE.valueInContext(d, ctx)), _internal=True)
            return base(*a[1:], **k)
        raise AssertionError(kind)

    v = build(t)
    declared = sorted(PROPS.index(p) for p in LE.requiredProperties(v))
    read = []

    class Ctx:
        def __init__(self):
            object.__setattr__(self, "_evaluated", __import__("scenic.core.utils", fromlist=["x"]).DefaultIdentityDict())

        def __getattr__(self, name):
            if name in PROPS:
                read.append(PROPS.index(name))
                return 10 ** PROPS.index(name) * 100
            raise AttributeError(name)
    try:
        # bypass the hasattr assertion of evaluateIn only through the recording context (every property exists)
        val = LE.valueInContext(v, Ctx())
        out = val if isinstance(val, (int, float)) else "other"
    except Exception as e:
        out = "exc:" + type(e).__name__
    return declared, sorted(set(read)), out


def _sum_lazy(LE, items):
    """`toLazyValue` of a tuple (the container packer of lazy_eval), then summed by a lifted call"""
    from scenic.core.distributions import distributionFunction
    packed = LE.toLazyValue(tuple(items))

    @distributionFunction
    def total(t):
        return sum(t)
    return total(packed)


def tree_line(t):
    """prefix encoding for the Lean driver: c | p <i> | n <kind> <npos> <nkw> children..."""
    if t[0] == "const":
        return ["c"]
    if t[0] == "prop":
        return ["p", str(t[1])]
    kinds = {"fn": "0", "method": "0", "pack": "0", "dcall": "1", "op": "2", "attr": "3"}
    out = ["n", kinds[t[1]], str(len(t[2])), str(len(t[3]))]
    for x in t[2] + t[3]:
        out += tree_line(x)
    return out


if __name__ == "__main__":
    import sys
    rng = random.Random(int(sys.argv[1]) if len(sys.argv) > 1 else 0)
    n = int(sys.argv[2]) if len(sys.argv) > 2 else 10
    stats = {}
    for i in range(n):
        code, checks, info = gen_program(rng)
        res = run_program(code, checks, rng.getrandbits(31))
        v = verdict(res)
        key = (res["stage"], res["exc"], None if v is None else v[0])
        stats[key] = stats.get(key, 0) + 1
        if v is not None or res["stage"] not in ("ok",):
            print("=" * 30, info)
            print(code.split("requireVisible: False\n")[1])
            print(checks)
            print(res, v)
    print(stats)
    for i in range(5):
        t = unit_tree(rng, 3)
        print(t, unit_real(t), sorted(tree_reads(t)))
