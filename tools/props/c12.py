"""C12 — simulation steps run in the documented order and stop at the documented step.

Proof:  lean/ScenicModel/Props/C12*.lean — theorems about the executable model of
        Simulation._run / DynamicScenario._step/_stop/_invokeInner/_runMonitors and the
        coroutine machine of behaviors, monitors and compose blocks
        (lean/ScenicModel/Model/SimCo.lean, SimLoop.lean), for all programs of the dynamic
        fragment, all agent schedules and all fuel values.
Tie:    (T) translate/runorder.py regenerates Gen/RunOrder.lean (order of the phases of `_run`,
            order of the checks of `_step`, the documented procedure of dynamic_scenarios.rst,
            comparison operators of the time limits, two behaviour flags) from the source;
            the model *executes* the generated phase order;
        (C) exhaustive-by-size + seeded enumeration of programs of the fragment, run on the real
            Scenic with a logging Simulator whose schedule is permuted, event log and
            SimulationResult compared with the Lean driver;
        (S) the same real logs are checked against the model run with the documented phase order
            (`rundoc`), by the order automaton of Model/SimSpec.lean, by a scan for anything that
            runs after the top-level scenario has stopped, plus a family of single-construct
            programs whose stopping step is computed in closed form.
"""
import json
import math
import os
import random
import sys
import time
import types
from fractions import Fraction

from vlib.ctx import Infra, TemplateMismatch

THEOREMS = [
    "Scenic.C12.step_order",
    "Scenic.C12.step_order_current",
    "Scenic.C12.terminated_wellOrdered",
    "Scenic.C12.trajectory_len",
    "Scenic.C12.trajectory_len_current",
    "Scenic.C12.step_limit_exact",
    "Scenic.C12.terminate_simulation_when_exact",
    "Scenic.C12.terminate_after_top",
    "Scenic.C12.terminate_when_top",
    "Scenic.C12.scan_none_iff",
    "Scenic.C12.scan_some",
    "Scenic.C12.do_modifier_fires",
    "Scenic.C12.do_modifier_holds",
    "Scenic.C12.for_fires_iff",
    "Scenic.C12.do_for_enter",
    "Scenic.C12.wait_for_enter",
    "Scenic.C12.wait_for_zero",
    "Scenic.C12.wait_for_waits",
    "Scenic.C12.wait_for_ends",
    "Scenic.C12.wait_until_exact",
    "Scenic.C12.secToSteps_spec",
    "Scenic.C12.do_modifier_fires_compose",
    "Scenic.C12.compose_stopSubs",
    "Scenic.C12.stepScen_limit",
    "Scenic.C12.stepScen_limit_log",
    "Scenic.C12.stepScen_cont",
    "Scenic.C12.monSubs_only_endSim",
    "Scenic.C12.runMonitors_endScen_own",
    "Scenic.C12.terminate_after_scenario_ended",
    "Scenic.C12.terminate_simulation_when_last",
    "Scenic.C12.stopScen_stops",
    "Scenic.C12.stopScen_only_stops",
    "Scenic.C12.stopScen_settled",
    "Scenic.C12.stopped_monitors_silent",
    "Scenic.C12.monitors_phase_after_stop_silent_partial",
    "Scenic.C12.initSt_settled",
    "Scenic.C12.subscenario_terminate_when",
    "Scenic.C12.subscenario_monitor_terminate",
]
SIDE = ["Scenic.C12.gen_run_order", "Scenic.C12.gen_doc_order", "Scenic.C12.gen_step_order", "Scenic.C12.gen_time_ops",
        "Scenic.C12.gen_subscenario_flags", "Scenic.C12.gen_tree_walks", "Scenic.C12.gen_init_record_order"]
FINGERPRINTS = {
    "Simulation._run": ("src/scenic/core/simulators.py", "Simulation._run"),
    "Simulation.__init__": ("src/scenic/core/simulators.py", "Simulation.__init__"),
    "Simulation.recordCurrentState": ("src/scenic/core/simulators.py", "Simulation.recordCurrentState"),
    "DynamicScenario._start": ("src/scenic/core/dynamics/scenarios.py", "DynamicScenario._start"),
    "DynamicScenario._step": ("src/scenic/core/dynamics/scenarios.py", "DynamicScenario._step"),
    "DynamicScenario._stop": ("src/scenic/core/dynamics/scenarios.py", "DynamicScenario._stop"),
    "DynamicScenario._invokeInner": ("src/scenic/core/dynamics/scenarios.py", "DynamicScenario._invokeInner"),
    "DynamicScenario._runMonitors": ("src/scenic/core/dynamics/scenarios.py", "DynamicScenario._runMonitors"),
    "DynamicScenario._checkSimulationTerminationConditions":
        ("src/scenic/core/dynamics/scenarios.py", "DynamicScenario._checkSimulationTerminationConditions"),
    "DynamicScenario._addDynamicRequirement":
        ("src/scenic/core/dynamics/scenarios.py", "DynamicScenario._addDynamicRequirement"),
    "DynamicScenario._evaluateRecordedExprsAt":
        ("src/scenic/core/dynamics/scenarios.py", "DynamicScenario._evaluateRecordedExprsAt"),
    "DynamicScenario._registerCompiledRequirement":
        ("src/scenic/core/dynamics/scenarios.py", "DynamicScenario._registerCompiledRequirement"),
    "DynamicRequirement": ("src/scenic/core/requirements.py", "DynamicRequirement"),
    "Invocable._runSubBehavior": ("src/scenic/core/dynamics/invocables.py", "Invocable._runSubBehavior"),
    "Invocable._start": ("src/scenic/core/dynamics/invocables.py", "Invocable._start"),
    "Invocable._stop": ("src/scenic/core/dynamics/invocables.py", "Invocable._stop"),
    "Behavior._stop": ("src/scenic/core/dynamics/behaviors.py", "Behavior._stop"),
    "Simulation.setup": ("src/scenic/core/simulators.py", "Simulation.setup"),
    "Simulation.updateObjects": ("src/scenic/core/simulators.py", "Simulation.updateObjects"),
    "Behavior._step": ("src/scenic/core/dynamics/behaviors.py", "Behavior._step"),
    "Behavior._invokeInner": ("src/scenic/core/dynamics/behaviors.py", "Behavior._invokeInner"),
    "Behavior._start": ("src/scenic/core/dynamics/behaviors.py", "Behavior._start"),
    "Invocable._invokeSubBehavior": ("src/scenic/core/dynamics/invocables.py", "Invocable._invokeSubBehavior"),
    "runTryInterrupt": ("src/scenic/core/dynamics/invocables.py", "runTryInterrupt"),
    "InterruptBlock": ("src/scenic/core/dynamics/invocables.py", "InterruptBlock"),
    "visit_Take": ("src/scenic/syntax/compiler.py", "ScenicToPythonTransformer.visit_Take"),
    "visit_Wait": ("src/scenic/syntax/compiler.py", "ScenicToPythonTransformer.visit_Wait"),
    "visit_WaitFor": ("src/scenic/syntax/compiler.py", "ScenicToPythonTransformer.visit_WaitFor"),
    "visit_WaitUntil": ("src/scenic/syntax/compiler.py", "ScenicToPythonTransformer.visit_WaitUntil"),
    "visit_Terminate": ("src/scenic/syntax/compiler.py", "ScenicToPythonTransformer.visit_Terminate"),
    "visit_TerminateSimulation": ("src/scenic/syntax/compiler.py", "ScenicToPythonTransformer.visit_TerminateSimulation"),
    "visit_DoFor": ("src/scenic/syntax/compiler.py", "ScenicToPythonTransformer.visit_DoFor"),
    "visit_DoUntil": ("src/scenic/syntax/compiler.py", "ScenicToPythonTransformer.visit_DoUntil"),
    "generateInvocation": ("src/scenic/syntax/compiler.py", "ScenicToPythonTransformer.generateInvocation"),
    "makeDoLike": ("src/scenic/syntax/compiler.py", "ScenicToPythonTransformer.makeDoLike"),
    "terminate_after": ("src/scenic/syntax/veneer.py", "terminate_after"),
    "makeRequirement": ("src/scenic/syntax/veneer.py", "makeRequirement"),
    "_makeTerminationAction": ("src/scenic/syntax/veneer.py", "_makeTerminationAction"),
    "dynamic_scenarios.rst": ("docs/reference/dynamic_scenarios.rst", None),
}

CF = 4000      # statements per send(None) in the model
FUEL = 400     # depth of the scenario recursion in the model


# =========================================================================== program -> text
def rat_of_decimal(s):
    """exact value of the float CPython reads from the literal `s`"""
    return Fraction(float(s))


def fr(q):
    q = Fraction(q)
    return f"{q.numerator}/{q.denominator}"


def tok_mod(m):
    if m[0] == "N":
        return ["N"]
    if m[0] == "Fs":
        return ["Fs", str(m[1])]
    if m[0] == "Fq":
        return ["Fq", fr(rat_of_decimal(m[1]))]
    if m[0] == "U":
        return ["U", str(m[1])]
    raise ValueError(m)


def tok_block(b):
    out = ["["]
    for s in b:
        k = s[0]
        if k in ("L", "T"):
            out += [k, str(s[1])]
        elif k in ("W", "X", "Z"):
            out.append(k)
        elif k == "D":
            out += ["D", str(len(s[1]))] + [str(x) for x in s[1]] + tok_mod(s[2])
        elif k == "R":
            out += ["R", str(s[1])] + tok_block(s[2])
        elif k == "V":
            out += ["V"] + tok_block(s[1])
        elif k == "I":
            out += ["I", str(s[1])] + tok_block(s[2]) + tok_block(s[3])
        else:
            raise ValueError(s)
    out.append("]")
    return out


def tok_prog(p, op="run", fm="f", ideal=False):
    """the driver line of a program.  ideal=True: durations in seconds are converted with the
    exact decimal quotient ceil(q/dt) (what the user wrote), not with the floats."""
    dt = Fraction(p["dt"]) if ideal else rat_of_decimal(p["dt"])
    if ideal:
        p = idealise(p)
    t = [op, "cf", str(CF), "fuel", str(FUEL), "max", str(p["max"]), "dt", fr(dt), "fm", "q" if ideal else fm]
    t += ["conds", str(len(p["conds"]))]
    for c in p["conds"]:
        t += [str(x) for x in c]
    t += ["behs", str(len(p["behs"]))]
    for b in p["behs"]:
        t += tok_block(b)
    t += ["mons", str(len(p["mons"]))]
    for b in p["mons"]:
        t += tok_block(b)
    t += ["scens", str(len(p["scens"]))]
    for s in p["scens"]:
        t += ["agents", str(len(s["agents"]))] + [str(x) for x in s["agents"]]
        t += ["mons", str(len(s["mons"]))] + [str(x) for x in s["mons"]]
        t += ["compose"] + (tok_block(s["compose"]) if s["compose"] is not None else ["-"])
        lim = s["limit"]
        t += ["limit"] + (["-"] if lim is None else ["s", str(lim[1])] if lim[0] == "s"
                          else ["q", fr(rat_of_decimal(lim[1]))])
        t += ["tw", str(len(s["tw"]))] + [str(x) for x in s["tw"]]
        t += ["ra", str(int(s["ra"]))]
        tsw, (ri, tags, rf) = s.get("tsw", []), s.get("rec", (0, [], 0))
        t += ["tsw", str(len(tsw))] + [str(x) for x in tsw]
        t += ["rec", str(int(ri)), str(len(tags))] + [str(x) for x in tags] + [str(int(rf))]
    t += ["sched", str(len(p["sched"]))]
    for m in p["sched"]:
        t += [str(x) for x in m]
    return "C12 " + " ".join(t)


def idealise(p):
    """replace every duration in seconds by the ideal number of steps ceil(decimal q / decimal dt)"""
    dt = Fraction(p["dt"])

    def steps(q):
        return max(0, math.ceil(Fraction(q) / dt))

    def mod(m):
        return ("Fs", steps(m[1])) if m[0] == "Fq" else m

    def block(b):
        out = []
        for s in b:
            if s[0] == "D":
                out.append(("D", s[1], mod(s[2])))
            elif s[0] == "R":
                out.append(("R", s[1], block(s[2])))
            elif s[0] == "V":
                out.append(("V", block(s[1])))
            elif s[0] == "I":
                out.append(("I", s[1], block(s[2]), block(s[3])))
            else:
                out.append(s)
        return out

    q = dict(p)
    q["behs"] = [block(b) for b in p["behs"]]
    q["mons"] = [block(b) for b in p["mons"]]
    q["scens"] = []
    for s in p["scens"]:
        s2 = dict(s)
        if s["compose"] is not None:
            s2["compose"] = block(s["compose"])
        if s["limit"] is not None and s["limit"][0] == "q":
            s2["limit"] = ("s", steps(s["limit"][1]))
        q["scens"].append(s2)
    return q


def scenic_mod(m, ctx):
    if m[0] == "N":
        return ""
    if m[0] == "Fs":
        return f" for {m[1]} steps"
    if m[0] == "Fq":
        return f" for {m[1]} seconds"
    return f' until cnd("{ctx}", {m[1]})'


def scenic_block(b, ctx, ind):
    pad = "    " * ind
    if not b:
        return [pad + "pass"]
    out = []
    for s in b:
        k = s[0]
        if k == "L":
            out.append(pad + {"be": f"lb(self, {s[1]})", "co": f"lc({s[1]})", "mo": f"lm({s[1]})"}[ctx])
        elif k == "T":
            out.append(pad + f"take {s[1]}")
        elif k == "W":
            out.append(pad + "wait")
        elif k == "X":
            out.append(pad + "terminate")
        elif k == "Z":
            out.append(pad + "terminate simulation")
        elif k == "D":
            m = scenic_mod(s[2], ctx)
            if not s[1]:
                out.append(pad + "wait" + m)
            elif ctx == "co":
                out.append(pad + "do " + ", ".join(f"S{x}()" for x in s[1]) + m)
            else:
                out.append(pad + f"do B{s[1][0]}()" + m)
        elif k == "R":
            out.append(pad + f"for _i{ind} in range({s[1]}):")
            out += scenic_block(s[2], ctx, ind + 1)
        elif k == "V":
            out.append(pad + "while True:")
            out += scenic_block(s[1], ctx, ind + 1)
        elif k == "I":
            out.append(pad + f'if cnd("{ctx}", {s[1]}):')
            out += scenic_block(s[2], ctx, ind + 1)
            out.append(pad + "else:")
            out += scenic_block(s[3], ctx, ind + 1)
    return out


def scenic_text(p):
    L = ["from c12rt import lb, lc, lm, cnd, lq, lr, lri, lrf", ""]
    for i, b in enumerate(p["behs"]):
        L.append(f"behavior B{i}():")
        L += scenic_block(b, "be", 1)
        L.append("")
    for i, b in enumerate(p["mons"]):
        L.append(f"monitor M{i}():")
        L += scenic_block(b, "mo", 1)
        L.append("")
    nobj = 0
    for i, s in enumerate(p["scens"]):
        L.append(f"scenario {'Main' if i == 0 else 'S' + str(i)}():")
        L.append("    setup:")
        body = []
        for b in s["agents"]:
            body.append(f"new Object at ({7 * nobj}, {3 * i}), with behavior B{b}()")
            nobj += 1
        for m in s["mons"]:
            body.append(f"require monitor M{m}()")
        if s["ra"]:
            body.append("require always lq()")
        lim = s["limit"]
        if lim is not None:
            body.append(f"terminate after {lim[1]} {'steps' if lim[0] == 's' else 'seconds'}")
        for c in s["tw"]:
            body.append(f'terminate when cnd("tw", {c})')
        for c in s.get("tsw", []):
            body.append(f'terminate simulation when cnd("ts", {c})')
        ri, tags, rf = s.get("rec", (0, [], 0))
        if ri:
            body.append(f"record initial lri() as ri_{i}")
        for k, tag in enumerate(tags):
            body.append(f"record lr({tag}) as r_{i}_{k}")
        if rf:
            body.append(f"record final lrf() as rf_{i}")
        if not body:
            body.append("pass")
        L += ["        " + x for x in body]
        if s["compose"] is not None:
            L.append("    compose:")
            L += scenic_block(s["compose"], "co", 2)
        L.append("")
    return "\n".join(L)


# =========================================================================== real-code harness
_RT = None


def eval_cond(c, t):
    k = c[0]
    if k == "tt":
        return True
    if k == "ff":
        return False
    if k == "ge":
        return t >= c[1]
    if k == "lt":
        return t < c[1]
    if k == "eq":
        return t == c[1]
    if k == "ne":
        return t != c[1]
    raise ValueError(c)


def runtime():
    """Install (once) the helper module the generated programs import, the `_start`/`_stop`
    wrappers and the logging simulator.  Nothing under /repo is modified; the wrappers call
    the original methods of whichever source tree is loaded."""
    global _RT
    if _RT is not None:
        return _RT
    import scenic  # noqa
    import scenic.syntax.veneer as veneer
    from scenic.core.dynamics.scenarios import DynamicScenario
    from scenic.core.simulators import Simulation, Simulator

    rt = types.ModuleType("c12rt")
    rt.EV = []
    rt.conds = []
    rt.next_id = 0
    rt.sim = None
    rt.modes = []

    def active():
        return veneer.currentSimulation is not None and veneer.currentSimulation is rt.sim

    def aid(obj):
        for i, o in enumerate(rt.sim.objects):
            if o is obj:
                return i
        return -1

    def lb(agent, k):
        rt.EV.append(f"b:{aid(agent)}:{k}")

    def lc(k):
        rt.EV.append(f"c:{veneer.currentScenario._c12_id}:{k}")

    def lm(k):
        i, j = veneer.currentBehavior._c12
        rt.EV.append(f"m:{i}:{j}:{k}")

    def cnd(ctx, c):
        if not active():
            return False
        v = eval_cond(rt.conds[c], rt.sim.currentTime)
        rt.EV.append(f"cond:{ctx}:{c}:{int(v)}")
        return v

    def lq():
        if active():
            rt.EV.append(f"q:{veneer.currentScenario._c12_id}")
        return True

    def lr(k):
        if active():
            rt.EV.append(f"r:{k}")
        return k

    def lri():
        if active():
            rt.EV.append("ri")
        return 0

    def lrf():
        if active():
            rt.EV.append("rf")
        return 0

    for f in (lb, lc, lm, cnd, lq, lr, lri, lrf):
        setattr(rt, f.__name__, f)
    sys.modules["c12rt"] = rt

    orig_start = DynamicScenario._start
    orig_stop = DynamicScenario._stop

    def _start(self):
        self._c12_id = rt.next_id
        rt.next_id += 1
        for j, m in enumerate(self._monitors):
            m._c12 = (self._c12_id, j)
        return orig_start(self)

    def post_stop(sc, depth=0):
        """(S5) the statement of `stopScen_stops` / `stopScen_settled` on the real objects: after `_stop` the scenario
        is not running, has no monitors and no compose iterator, and nothing listed below it is alive."""
        if sc._isRunning:
            return "running"
        if sc._monitors:
            return "monitors"
        if sc._runningIterator is not None:
            return "iterator"
        if depth < 12:
            for sub in sc._subScenarios:
                b = post_stop(sub, depth + 1)
                if b:
                    return "sub-" + b.replace("sub-", "")
        return None

    def _stop(self, reason, quiet=False):
        if not quiet:
            rt.EV.append(f"stop:{getattr(self, '_c12_id', '?')}")
        r = orig_stop(self, reason, quiet=quiet)
        if not quiet:
            b = post_stop(self)
            if b:
                rt.EV.append(f"poststop:{getattr(self, '_c12_id', '?')}:{b}")
        return r

    DynamicScenario._start = _start
    DynamicScenario._stop = _stop

    from scenic.core.dynamics.behaviors import Behavior, Monitor
    orig_bstep = Behavior._step

    def _bstep(self):
        if not isinstance(self, Monitor) and active():
            rt.EV.append(f"bs:{aid(self._agent)}")
        return orig_bstep(self)

    Behavior._step = _bstep

    def apply_mode(mode, xs):
        n = len(xs)
        k = mode[0]
        if k == "id":
            return list(xs)
        if k == "rev":
            return list(reversed(xs))
        if k == "rot":
            r = mode[1] % n if n else 0
            return list(xs[r:]) + list(xs[:r])
        if k == "swap":
            return [xs[1], xs[0]] + list(xs[2:]) if n >= 2 else list(xs)
        raise ValueError(mode)

    class LogSimulator(Simulator):
        def createSimulation(self, scene, **kw):
            return LogSimulation(scene, **kw)

    class LogSimulation(Simulation):
        def __init__(self, scene, **kw):
            rt.sim = self
            rt.EV.clear()
            rt.next_id = 0
            super().__init__(scene, **kw)

        def createObjectInSimulator(self, obj):
            rt.EV.append(f"create:{len(self.objects) - 1}")

        def actionsAreCompatible(self, agent, actions):
            return True

        def scheduleForAgents(self):
            modes = rt.modes
            order = apply_mode(modes[self.currentTime % len(modes)], self.agents) if modes else list(self.agents)
            rt.EV.append("sched:" + ",".join(str(aid(a)) for a in order))
            return order

        def executeActions(self, allActions):
            rt.EV.append(f"act:{self.currentTime}:" + ",".join(
                f"{aid(a)}=" + ("-" if not acts else ".".join(str(x) for x in acts)) for a, acts in allActions.items()))

        def step(self):
            rt.EV.append(f"sim:{self.currentTime}")

        def updateObjects(self):
            rt.EV.append(f"upd:{self.currentTime}")
            super().updateObjects()

        def currentState(self):
            rt.EV.append(f"traj:{self.currentTime}")
            return super().currentState()

        def getProperties(self, obj, properties):
            return {p: getattr(obj, p) for p in properties}

    rt.LogSimulator = LogSimulator
    _RT = rt
    return rt


def run_real(p, text=None):
    """Run the program on the real Scenic; same line format as the Lean driver."""
    import scenic
    rt = runtime()
    rt.conds = p["conds"]
    rt.modes = p["sched"]
    text = text or scenic_text(p)
    try:
        sc = scenic.scenarioFromString(text)
        scene, _ = sc.generate(maxIterations=5)
    except Exception as e:
        return f"compile-error:{type(e).__name__}:{str(e)[:150]}"
    try:
        sim = rt.LogSimulator().simulate(scene, maxSteps=p["max"], timestep=float(p["dt"]), maxIterations=1,
                                         enableReplay=False, verbosity=0)
    except Exception as e:
        import traceback
        tb = traceback.extract_tb(e.__traceback__)
        where = tb[-1].name if tb else "?"
        return f"crash:{type(e).__name__}@{where} | " + ";".join(rt.EV)
    s = rt.sim
    if sim is None:
        head = "rejected"
    else:
        head = str(sim.result.terminationType).split(".")[-1]
        if len(sim.result.trajectory) != len(s.trajectory) or len(sim.result.actions) != len(s.actionSequence):
            head += "!result-lengths-differ"
    return f"{head} {s.currentTime} {len(s.trajectory)} {len(s.actionSequence)} | " + ";".join(rt.EV)


# =========================================================================== generators
DTS = ["1", "0.5", "0.1"]


def dur_seconds(rng, dt):
    k = rng.choice([0, 1, 1, 2, 2, 3, 4])
    half = rng.random() < 0.3
    q = Fraction(dt) * k + (Fraction(dt) / 2 if half else 0)
    return str(float(q))


def gen_mod(rng, P, allow_none=True):
    r = rng.random()
    if allow_none and r < 0.4:
        return ("N",)
    if r < 0.6:
        return ("Fs", rng.choice([0, 1, 1, 2, 2, 3, 4]))
    if r < 0.75:
        return ("Fq", dur_seconds(rng, P["dt"]))
    return ("U", rng.randrange(len(P["conds"])))


def gen_block(rng, P, ctx, idx, depth, need_yield=False, size=None):
    n = size if size is not None else rng.choice([1, 2, 2, 3, 3, 4])
    out = [gen_stmt(rng, P, ctx, idx, depth) for _ in range(n)]
    if need_yield and not any(s[0] in ("T", "W") for s in out):
        out.insert(rng.randrange(len(out) + 1), ("T", rng.randrange(1, 9)) if ctx == "be" else ("W",))
    return out


def gen_stmt(rng, P, ctx, idx, depth):
    r = rng.random()
    if r < 0.22:
        return ("L", rng.randrange(100))
    if r < 0.42:
        return ("T", rng.randrange(1, 9)) if ctx == "be" else ("W",)
    if r < 0.50:
        return ("W",)
    if r < 0.68:
        if ctx == "be":
            cands = list(range(idx + 1, P["nbeh"]))
            if cands and rng.random() < 0.7:
                return ("D", [rng.choice(cands)], gen_mod(rng, P))
            return ("D", [], gen_mod(rng, P, allow_none=False))
        if ctx == "co":
            cands = list(range(idx + 1, P["nscen"]))
            if cands and rng.random() < 0.8:
                k = 1 if rng.random() < 0.7 else 2
                return ("D", [rng.choice(cands) for _ in range(k)], gen_mod(rng, P))
            return ("D", [], gen_mod(rng, P, allow_none=False))
        return ("D", [], gen_mod(rng, P, allow_none=False))
    if r < 0.73:
        return ("X",)
    if r < 0.76:
        return ("Z",)
    if depth <= 0:
        return ("L", rng.randrange(100))
    if r < 0.85:
        return ("R", rng.choice([0, 1, 2, 2, 3]), gen_block(rng, P, ctx, idx, depth - 1, size=rng.choice([1, 2])))
    if r < 0.93:
        return ("V", gen_block(rng, P, ctx, idx, depth - 1, need_yield=True, size=rng.choice([1, 2, 3])))
    return ("I", rng.randrange(len(P["conds"])), gen_block(rng, P, ctx, idx, depth - 1, size=rng.choice([1, 2])),
            gen_block(rng, P, ctx, idx, depth - 1, size=rng.choice([0, 1, 2])))


def has_yield(b):
    for s in b:
        if s[0] in ("T", "W", "X", "Z", "D"):
            return True
        if s[0] in ("R", "V") and has_yield(s[-1]):
            return True
        if s[0] == "I" and (has_yield(s[2]) or has_yield(s[3])):
            return True
    return False


def gen_cond(rng):
    k = rng.choice(["tt", "ff", "ge", "ge", "ge", "lt", "eq", "eq", "ne"])
    return (k,) if k in ("tt", "ff") else (k, rng.randrange(0, 7))


def gen_prog(rng, sub_tw=True):
    """a random program of the fragment: nested scenarios with setup/compose, up to 3 agents per
    scenario tree level, sub-behaviors, monitors, records, every termination construct, durations
    in steps and seconds; `do` only refers to later behaviors / scenario classes (no recursion);
    every `while True` body has a `take`/`wait` at its top level."""
    P = {"dt": rng.choice(DTS), "max": rng.choice([1, 2, 3, 4, 5, 6, 8])}
    P["conds"] = [gen_cond(rng) for _ in range(rng.randrange(2, 6))]
    P["nbeh"] = rng.choice([1, 2, 3, 4])
    P["nscen"] = rng.choice([1, 1, 2, 3, 4])
    nmon = rng.choice([0, 1, 1, 2])
    P["behs"] = []
    for i in range(P["nbeh"]):
        b = gen_block(rng, P, "be", i, 2)
        if not has_yield(b):
            b.append(("T", rng.randrange(1, 9)))
        if rng.random() < 0.5:
            b.append(("V", [("T", rng.randrange(1, 9))]))
        P["behs"].append(b)
    P["mons"] = []
    for i in range(nmon):
        b = gen_block(rng, P, "mo", i, 2)
        if not has_yield(b):
            b.append(("W",))
        P["mons"].append(b)
    P["scens"] = []
    total_agents = 0
    for i in range(P["nscen"]):
        na = rng.choice([0, 1, 1, 2, 3]) if i == 0 else rng.choice([0, 0, 1, 1, 2])
        if total_agents + na > 4 and i > 0:
            na = 0
        total_agents += na
        comp = None
        if rng.random() < (0.75 if i < P["nscen"] - 1 else 0.4):
            comp = gen_block(rng, P, "co", i, 2)
            if not has_yield(comp):
                comp.append(("W",))
            if i == 0 and rng.random() < 0.55:
                comp.append(("V", [("W",)]))
        lim = None
        r = rng.random()
        if r < 0.3:
            lim = ("s", rng.choice([0, 1, 2, 3, 4]))
        elif r < 0.45:
            lim = ("q", dur_seconds(rng, P["dt"]))
        tw = [rng.randrange(len(P["conds"])) for _ in range(rng.choice([0, 0, 1, 1, 2]))]
        if i > 0 and not sub_tw:
            tw = []
        if i == 0:
            tsw = [rng.randrange(len(P["conds"])) for _ in range(rng.choice([0, 0, 1, 2]))]
            rec = (int(rng.random() < 0.5), list(range(rng.choice([0, 1, 2]))), int(rng.random() < 0.5))
        else:
            tsw = [rng.randrange(len(P["conds"])) for _ in range(rng.choice([0, 0, 0, 1]))]
            rec = ((int(rng.random() < 0.5), [10 * i + k for k in range(rng.choice([0, 1, 1, 2]))], int(rng.random() < 0.5))
                   if rng.random() < 0.35 else (0, [], 0))
        P["scens"].append({"agents": [rng.randrange(P["nbeh"]) for _ in range(na)],
                           "mons": [rng.randrange(nmon) for _ in range(rng.choice([0, 1, 1, 2]))] if nmon else [],
                           "compose": comp, "limit": lim, "tw": tw, "ra": int(rng.random() < 0.4),
                           "tsw": tsw, "rec": rec})
    P["sched"] = [rng.choice([("id",), ("rev",), ("rot", rng.randrange(1, 4)), ("swap",)])
                  for _ in range(rng.choice([1, 2, 3]))]
    del P["nbeh"], P["nscen"]
    return P


def base_prog(dt="1", mx=6):
    return {"dt": dt, "max": mx, "conds": [("ge", 2), ("eq", 1), ("tt",), ("ff",), ("ge", 4)],
            "behs": [[("V", [("T", 1)])], [("V", [("T", 2)])]], "mons": [],
            "scens": [{"agents": [0], "mons": [], "compose": None, "limit": None, "tw": [], "ra": 0,
                       "tsw": [], "rec": (1, [0], 1)}],
            "sched": [("rev",)]}


def sub_scen(**kw):
    """a sub-scenario class with defaults"""
    d = {"agents": [], "mons": [], "compose": None, "limit": None, "tw": [], "ra": 0, "tsw": [], "rec": (0, [], 0)}
    d.update(kw)
    return d


def enum_core():
    """Exhaustive enumeration of the small programs: every statement kind x every modifier x
    durations 0..3 in steps and in seconds x time steps 1, 0.5, 0.1, in each of the three kinds
    of coroutine (behavior, monitor, compose block), followed by a marker."""
    out = []
    for dt in DTS:
        durs = [("Fs", n) for n in range(0, 4)] + [("Fq", str(float(Fraction(dt) * k / 2))) for k in range(0, 7)]
        mods = durs + [("U", c) for c in range(5)]
        for m in mods:
            # behavior: do B1 <m>; marker; loop
            p = base_prog(dt)
            p["behs"][0] = [("L", 1), ("D", [1], m), ("L", 2), ("T", 9), ("V", [("T", 3)])]
            p["scens"][0]["agents"] = [0, 1]
            out.append(p)
            p = base_prog(dt)
            p["behs"][0] = [("D", [], m), ("L", 2), ("T", 9), ("X",)]
            out.append(p)
            # nested: outer for 3 steps, inner <m>
            p = base_prog(dt)
            p["behs"] = [[("D", [1], ("Fs", 3)), ("L", 5), ("Z",)], [("L", 6), ("D", [2], m), ("L", 7), ("V", [("T", 4)])],
                         [("V", [("T", 5)])]]
            out.append(p)
            # monitor: wait <m>; marker; terminate simulation
            p = base_prog(dt)
            p["mons"] = [[("L", 1), ("D", [], m), ("L", 2), ("Z",)]]
            p["scens"][0]["mons"] = [0]
            out.append(p)
            # compose: do Sub <m>; marker; terminate
            p = base_prog(dt)
            p["scens"][0]["compose"] = [("L", 1), ("D", [1], m), ("L", 2), ("W",), ("L", 3)]
            p["scens"].append({"agents": [1], "mons": [], "compose": [("V", [("L", 4), ("W",)])], "limit": None, "tw": [],
                               "ra": 1})
            out.append(p)
            p = base_prog(dt)
            p["scens"][0]["compose"] = [("D", [], m), ("L", 2), ("D", [1, 1], ("Fs", 2)), ("X",)]
            p["scens"].append({"agents": [], "mons": [], "compose": [("W",), ("L", 4), ("W",), ("W",)], "limit": None,
                               "tw": [], "ra": 0})
            out.append(p)
        for lim in [("s", n) for n in range(0, 5)] + [("q", str(float(Fraction(dt) * k / 2))) for k in range(0, 9)]:
            for mx in (2, 6):
                p = base_prog(dt, mx)
                p["scens"][0]["limit"] = lim
                out.append(p)
            # sub-scenario with a time limit, then a marker in the parent
            p = base_prog(dt)
            p["scens"][0]["compose"] = [("D", [1], ("N",)), ("L", 2), ("W",)]
            p["scens"].append({"agents": [1], "mons": [], "compose": None, "limit": lim, "tw": [], "ra": 0})
            out.append(p)
        for c in range(5):
            p = base_prog(dt)
            p["scens"][0]["tsw"] = [c]
            out.append(p)
            # the same condition in a sub-scenario that runs for 3 steps (its records are evaluated after the parent's)
            p = base_prog(dt)
            p["scens"][0]["compose"] = [("W",), ("D", [1], ("Fs", 3)), ("L", 2), ("V", [("W",)])]
            p["scens"].append(sub_scen(agents=[1], tsw=[c], rec=(1, [11, 12], 1), ra=1))
            out.append(p)
            p = base_prog(dt)
            p["scens"][0]["tw"] = [3, c]
            out.append(p)
        for k in range(0, 4):
            for st in (("X",), ("Z",)):
                p = base_prog(dt)
                p["behs"][0] = [("R", k, [("T", 1)]), st, ("V", [("T", 2)])]
                p["scens"][0]["agents"] = [1, 0, 1]
                out.append(p)
                p = base_prog(dt)
                p["mons"] = [[("R", k, [("W",)]), st, ("V", [("W",)])]]
                p["scens"][0]["mons"] = [0]
                out.append(p)
                p = base_prog(dt)
                p["scens"][0]["compose"] = [("R", k, [("W",)]), st, ("V", [("W",)])]
                out.append(p)
    return out


# =========================================================================== closed-form oracle
def ideal_steps(q, dt):
    return max(0, math.ceil(Fraction(q) / Fraction(dt)))


def closed_form_cases():
    """Single-construct programs whose outcome under the documented semantics is computed here,
    without any model: (name, program, expected {type, time} and optionally the clock value at
    which the marker action 9 of agent 0 must be executed)."""
    cases = []
    for dt in DTS + ["0.25"]:
        durs = [(("Fs", n), n) for n in range(0, 5)]
        durs += [(("Fq", s), ideal_steps(s, dt)) for s in sorted({str(float(Fraction(dt) * k / 2)) for k in range(0, 9)}
                                                                  | {"0.3", "0.7", "1.1"})]
        for m, n in durs:
            unit = "steps" if m[0] == "Fs" else "seconds"
            mx = 8
            # terminate after (top level)
            p = base_prog(dt, mx)
            p["scens"][0]["limit"] = ("s", m[1]) if m[0] == "Fs" else ("q", m[1])
            exp = {"type": "scenarioComplete", "time": n} if n <= mx else {"type": "timeLimit", "time": mx}
            cases.append((f"terminate-after-{unit}", p, exp))
            # do B for n: marker action 9 is taken at clock n
            p = base_prog(dt, mx)
            p["behs"][0] = [("D", [1], m), ("T", 9), ("Z",)]
            exp = ({"type": "terminatedByBehavior", "time": n + 1, "marker": n} if n + 1 < mx else
                   {"type": "timeLimit", "time": mx, "marker": n if n < mx else None})
            cases.append((f"do-for-{unit}", p, exp))
            # wait for n in a behavior
            p = base_prog(dt, mx)
            p["behs"][0] = [("D", [], m), ("T", 9), ("Z",)]
            cases.append((f"wait-for-{unit}", p, dict(exp)))
            # wait for n in a monitor, then terminate simulation
            p = base_prog(dt, mx)
            p["mons"] = [[("D", [], m), ("Z",)]]
            p["scens"][0]["mons"] = [0]
            exp = {"type": "terminatedByMonitor", "time": n} if n <= mx else {"type": "timeLimit", "time": mx}
            cases.append((f"monitor-wait-for-{unit}", p, exp))
            # compose: do Sub for n, then terminate
            p = base_prog(dt, mx)
            p["scens"][0]["compose"] = [("D", [1], m), ("X",)]
            p["scens"].append({"agents": [], "mons": [], "compose": None, "limit": None, "tw": [], "ra": 0})
            exp = {"type": "scenarioComplete", "time": n} if n <= mx else {"type": "timeLimit", "time": mx}
            cases.append((f"compose-do-for-{unit}", p, exp))
    for k in range(0, 7):
        mx = 5
        p = base_prog("1", mx)
        p["conds"] = [("ge", k)]
        p["scens"][0]["tsw"] = [0]
        exp = {"type": "simulationTerminationCondition", "time": k} if k <= mx else {"type": "timeLimit", "time": mx}
        cases.append(("terminate-simulation-when", p, exp))
        # the same in a sub-scenario started at clock 1 and running for 3 steps (clocks 1, 2, 3): its condition ends the
        # simulation while it runs (not before it was started), and is not looked at once it has ended (clock 4 on)
        p = base_prog("1", mx)
        p["conds"] = [("ge", k)]
        p["scens"][0]["compose"] = [("W",), ("D", [1], ("Fs", 3)), ("V", [("W",)])]
        p["scens"].append(sub_scen(tsw=[0]))
        exp = ({"type": "simulationTerminationCondition", "time": max(k, 1)} if k <= 3 else {"type": "timeLimit", "time": mx})
        cases.append(("subscenario-terminate-simulation-when", p, exp))
        p = base_prog("1", mx)
        p["conds"] = [("ge", k)]
        p["scens"][0]["tw"] = [0]
        exp = {"type": "scenarioComplete", "time": k} if k <= mx else {"type": "timeLimit", "time": mx}
        cases.append(("terminate-when", p, exp))
        p = base_prog("1", mx)
        p["conds"] = [("ge", k)]
        p["behs"][0] = [("D", [1], ("U", 0)), ("T", 9), ("Z",)]
        exp = ({"type": "terminatedByBehavior", "time": k + 1, "marker": k} if k + 1 < mx else
               {"type": "timeLimit", "time": mx, "marker": k if k < mx else None})
        cases.append(("do-until", p, exp))
        p = base_prog("1", mx)
        p["conds"] = [("ge", k)]
        p["behs"][0] = [("D", [], ("U", 0)), ("T", 9), ("Z",)]
        cases.append(("wait-until", p, dict(exp)))
        for st, nm in ((("X",), "terminate"), (("Z",), "terminate-simulation")):
            p = base_prog("1", mx)
            p["behs"][0] = [("R", k, [("T", 1)]), st]
            exp = {"type": "terminatedByBehavior", "time": k} if k < mx else {"type": "timeLimit", "time": mx}
            cases.append((f"behavior-{nm}", p, exp))
            p = base_prog("1", mx)
            p["mons"] = [[("R", k, [("W",)]), st]]
            p["scens"][0]["mons"] = [0]
            exp = {"type": "terminatedByMonitor", "time": k} if k <= mx else {"type": "timeLimit", "time": mx}
            cases.append((f"monitor-{nm}", p, exp))
            p = base_prog("1", mx)
            p["scens"][0]["compose"] = [("R", k, [("W",)]), st]
            exp = {"type": "scenarioComplete", "time": k} if k <= mx else {"type": "timeLimit", "time": mx}
            cases.append((f"compose-{nm}", p, exp))
        # step limit alone
        p = base_prog("1", max(1, k))
        cases.append(("step-limit", p, {"type": "timeLimit", "time": max(1, k)}))
    # durations in seconds whose float quotient limit/timestep lands just above an integer
    # (0.07/0.01 = 7.000000000000001): the documented duration is the decimal quotient
    for dt, q in (("0.01", "0.07"), ("0.3", "2.1"), ("0.01", "0.14"), ("0.02", "0.28"), ("0.3", "2.7"), ("0.01", "0.06")):
        n = ideal_steps(q, dt)
        mx = n + 4
        p = base_prog(dt, mx)
        p["behs"][0] = [("D", [], ("Fq", q)), ("T", 9), ("Z",)]
        cases.append(("seconds-float-rounding", p, {"type": "terminatedByBehavior", "time": n + 1, "marker": n}))
        p = base_prog(dt, mx)
        p["scens"][0]["limit"] = ("q", q)
        cases.append(("seconds-float-rounding", p, {"type": "scenarioComplete", "time": n}))
    # sub-scenario constructs (documented semantics)
    for k in range(0, 4):
        mx = 6
        # a sub-scenario's `terminate when` ends the sub-scenario only: parent marker c:0:7 at clock k, then wait
        p = base_prog("1", mx)
        p["conds"] = [("ge", k)]
        p["scens"][0]["compose"] = [("D", [1], ("N",)), ("L", 7), ("W",), ("W",)]
        p["scens"].append({"agents": [], "mons": [], "compose": None, "limit": None, "tw": [0], "ra": 0})
        cases.append(("subscenario-terminate-when", p, {"type": "scenarioComplete", "time": k + 2, "event": ("c:0:7", k)}))
        # a sub-scenario's monitor executing `terminate` ends the sub-scenario only
        p = base_prog("1", mx)
        p["mons"] = [[("R", k, [("W",)]), ("X",)]]
        p["scens"][0]["compose"] = [("D", [1], ("N",)), ("L", 7), ("W",), ("W",)]
        p["scens"].append({"agents": [], "mons": [0], "compose": None, "limit": None, "tw": [], "ra": 0})
        cases.append(("subscenario-monitor-terminate", p,
                      {"type": "scenarioComplete", "time": k + 3, "event": ("c:0:7", k + 1)}))
        # a behavior executing `terminate` after its scenario has ended is a no-op
        p = base_prog("1", mx)
        p["behs"] = [[("R", k + 1, [("T", 1)]), ("X",), ("V", [("T", 2)])]]
        p["scens"][0]["agents"] = []
        p["scens"][0]["compose"] = [("D", [1], ("N",)), ("L", 7), ("V", [("W",)])]
        p["scens"].append({"agents": [0], "mons": [], "compose": None, "limit": ("s", 1), "tw": [], "ra": 0})
        cases.append(("terminate-after-scenario-ended", p, {"type": "timeLimit", "time": mx}))
        # an agent of a sub-scenario executes `terminate` at clock k: the sub-scenario stops during the behaviors of
        # step k, the parent's compose block continues in step k + 1
        p = base_prog("1", mx)
        p["behs"] = [[("R", k, [("T", 1)]), ("X",), ("V", [("T", 2)])]]
        p["scens"][0]["agents"] = []
        p["scens"][0]["compose"] = [("D", [1], ("N",)), ("L", 7), ("W",), ("W",)]
        p["scens"].append(sub_scen(agents=[0], compose=[("V", [("L", 4), ("W",)])], mons=[]))
        cases.append(("subscenario-agent-terminate", p, {"type": "scenarioComplete", "time": k + 3, "event": ("c:0:7", k + 1)}))
        # the parent reaches its time limit while two sub-scenarios (one nested) run: they are stopped with it, at once
        p = base_prog("1", mx)
        p["mons"] = [[("V", [("L", 3), ("W",)])]]
        p["scens"][0]["limit"] = ("s", k)
        p["scens"][0]["compose"] = [("D", [1, 2], ("N",)), ("L", 7)]
        p["scens"].append(sub_scen(agents=[1], compose=[("D", [2], ("N",))], mons=[0], rec=(0, [11], 1)))
        p["scens"].append(sub_scen(compose=[("V", [("L", 4), ("W",)])], ra=1))
        cases.append(("subscenario-stopped-with-parent", p, {"type": "scenarioComplete", "time": k}))
        # a monitor of the top-level scenario executes `terminate` while a sub-scenario with its own monitor runs
        p = base_prog("1", mx)
        p["mons"] = [[("R", k, [("W",)]), ("X",)], [("V", [("L", 3), ("W",)])]]
        p["scens"][0]["mons"] = [0]
        p["scens"][0]["compose"] = [("D", [1], ("N",))]
        p["scens"].append(sub_scen(agents=[1], compose=[("V", [("L", 4), ("W",)])], mons=[1]))
        cases.append(("subscenario-top-monitor-terminate", p, {"type": "terminatedByMonitor", "time": k}))
        # the step limit ends the run while several scenarios run: they are stopped most recently started first
        p = base_prog("1", k + 1)
        p["scens"][0]["compose"] = [("D", [1, 1], ("Fs", 9)), ("L", 7)]
        p["scens"].append(sub_scen(compose=[("D", [2], ("N",))], rec=(1, [12], 1)))
        p["scens"].append(sub_scen(compose=[("V", [("W",)])], ra=1))
        cases.append(("subscenario-finish-order", p, {"type": "timeLimit", "time": k + 1}))
    return cases


def parse_line(line):
    head, _, evs = line.partition(" | ")
    h = head.split(" ")
    return h, (evs.split(";") if evs else [])


def check_closed(name, p, exp, line):
    """None if the real outcome is the expected one, else a description"""
    h, evs = parse_line(line)
    if h[0].startswith(("crash", "compile-error")):
        return f"{h[0]}"
    if h[0] != exp["type"] or int(h[1]) != exp["time"]:
        return f"ended with {h[0]} at clock {h[1]}, documented: {exp['type']} at clock {exp['time']}"
    if int(h[2]) != exp["time"] + 1 or int(h[3]) != exp["time"]:
        return f"trajectory has {h[2]} states and the action log {h[3]} entries for {exp['time']} executed steps"
    if "marker" in exp:
        at = [e.split(":")[1] for e in evs if e.startswith("act:") and "0=9" in e.split(":")[2].split(",")]
        want = [] if exp["marker"] is None else [str(exp["marker"])]
        if at != want:
            return f"marker action executed at clock {at}, documented: {want}"
    if "event" in exp:
        ev, clock = exp["event"]
        # clock at which the event occurred = number of `sim:` events before it
        seen = [sum(1 for x in evs[:i] if x.startswith("sim:")) for i, x in enumerate(evs) if x == ev]
        if seen != [clock]:
            return f"event {ev} occurred at clock {seen}, documented: [{clock}]"
    return None


# =========================================================================== the check
def _worker(p):
    try:
        return run_real(p)
    except Exception as e:  # harness failure, reported as infrastructure
        return f"harness-error:{type(e).__name__}:{str(e)[:100]}"


def run_many(ctx, progs, workers, deadline=None, minimum=0):
    """Real runs of the programs, in order (fork pool; every worker has its own interpreter state).
    With a deadline, programs beyond `minimum` that have not been started in time are dropped
    (parsing a generated Scenic program takes 0.3-1 s of pure-Python time, more on a loaded machine);
    returns the list of results of the prefix that was run."""
    import multiprocessing as mp
    runtime()
    out = []
    if workers <= 1 or len(progs) < 8:
        for p in progs:
            if deadline and len(out) >= minimum and time.time() > deadline:
                break
            out.append(_worker(p))
        return out
    hard = time.time() + ctx.budget(1500, 3300)
    with mp.get_context("fork").Pool(workers) as pool:
        it = pool.imap(_worker, progs, chunksize=1)
        for _ in progs:
            if deadline and len(out) >= minimum and time.time() > deadline:
                break
            try:
                out.append(it.next(timeout=max(1.0, hard - time.time())))
            except mp.TimeoutError:
                raise Infra("real runs timed out")
        pool.terminate()
    return out


def first_diff(a, b):
    ha, ea = parse_line(a)
    hb, eb = parse_line(b)
    for i in range(max(len(ea), len(eb))):
        x = ea[i] if i < len(ea) else "<end>"
        y = eb[i] if i < len(eb) else "<end>"
        if x != y:
            return i, x, y
    if ha != hb:
        return -1, " ".join(ha), " ".join(hb)
    return None


def features(p):
    f = set()

    def walk(b, ctx):
        for s in b:
            if s[0] == "D":
                f.add(f"{ctx}:{'wait' if not s[1] else 'do'}-{ {'N': 'plain', 'Fs': 'for-steps', 'Fq': 'for-seconds', 'U': 'until'}[s[2][0]] }")
            elif s[0] in ("X", "Z"):
                f.add(f"{ctx}:{'terminate' if s[0] == 'X' else 'terminate-simulation'}")
            elif s[0] == "R":
                walk(s[2], ctx)
            elif s[0] == "V":
                walk(s[1], ctx)
            elif s[0] == "I":
                f.add(f"{ctx}:if")
                walk(s[2], ctx)
                walk(s[3], ctx)
    for b in p["behs"]:
        walk(b, "be")
    for b in p["mons"]:
        walk(b, "mo")
    for i, s in enumerate(p["scens"]):
        if s["compose"] is not None:
            walk(s["compose"], "co")
        if s["limit"] is not None:
            f.add(("sub:" if i else "top:") + "terminate-after-" + ("steps" if s["limit"][0] == "s" else "seconds"))
        if s["tw"]:
            f.add(("sub:" if i else "top:") + "terminate-when")
        if s["mons"]:
            f.add(("sub:" if i else "top:") + "monitor")
        if s.get("tsw"):
            f.add(("sub:" if i else "top:") + "terminate-simulation-when")
        if any(s.get("rec", (0, [], 0))):
            f.add(("sub:" if i else "top:") + "record")
    return f


AFTER_TOP_STOP = ("stop:", "ri", "r:", "traj:", "rf")


def after_top_stop(evs):
    """(S4) once the top-level scenario has stopped (`stop:0`), the only things that still happen are the stopping of
    other scenarios, the records and trajectory entry of the same step and the final records: no compose block, no
    monitor, no condition, no behavior, no action, no simulator step.  Returns the index of the first offending event."""
    if "stop:0" not in evs:
        return None
    k = evs.index("stop:0")
    for j in range(k + 1, len(evs)):
        if not evs[j].startswith(AFTER_TOP_STOP):
            return j
    return None


def run(ctx):
    from translate import runorder
    ctx.rule = ("cases = programs of the dynamic fragment (<= 4 scenario classes nested by `do`, setup + compose blocks, "
                "<= 3 agents per scenario, sub-behaviors, monitors, records, terminate after / when / simulation when, "
                "terminate, terminate simulation, do/wait for (steps, seconds)/until, if/for/while, time steps 1, 0.5, 0.1, "
                "step limit 1..8) x a schedule permuted per step: (a) the exhaustive enumeration of the single-construct "
                "programs, (b) seeded random programs, (c) closed-form single-construct programs; each is run on the real "
                "Scenic with a logging Simulator; non-trivial = at least one simulator step was executed or a "
                "termination construct fired; distinct by content hash of (program, schedule)")
    ctx.assumptions += [
        "conditions of the fragment are functions of the simulation clock; user code in behaviors is limited to "
        "appending to the event log",
        "wall-clock alarms (StuckBehaviorWarning), sensors, the display check, replay and recorders are not modelled",
        "durations in seconds: the model converts with the same IEEE double division as CPython; the specification "
        "is the exact quotient of the decimal literals",
        "fuel: a run that exhausts the model's fuel is `stuck`; theorems hold for every fuel value, the driver uses "
        f"cf={CF}, fuel={FUEL}",
    ]
    ctx.trusted_base += [
        "tools/translate/runorder.py (template extraction of the phase order of _run, the order of _step, the "
        "numbered procedure of dynamic_scenarios.rst, time-limit operators, two behaviour flags)",
        "tools/props/c12.py (program generator, Scenic rendering, logging Simulator, _start/_stop/Behavior._step "
        "wrappers, comparison with the Lean driver, closed-form oracle)",
    ]
    ctx.fingerprint(FINGERPRINTS)
    try:
        d = runorder.extract()
        ctx.gen("RunOrder", runorder.to_lean(d))
        ctx.extra["generated"] = {k: d[k] for k in d if k not in ("docOrder", "docStepOrder")}
    except TemplateMismatch as e:
        ctx.escalated.append(f"translator tie lost (runorder): {e}")
        ctx.notes.append(f"translator tie lost: {e}; Gen/RunOrder.lean keeps the last extracted data and the tie "
                         "rests on the correspondence run at thorough budget")
    tp = time.time()
    pr = ctx.prove(THEOREMS, side_conditions=SIDE)
    ctx.extra["prove_s"] = round(time.time() - tp, 1)
    if ctx.tier == "thorough" and pr.build_ok:
        ctx.leanchecker(["ScenicModel.Props.C12", "ScenicModel.Props.C12Co", "ScenicModel.Props.C12Sub", "ScenicModel.Lemmas.SimTop",
                         "ScenicModel.Lemmas.SimOrder", "ScenicModel.Lemmas.SimLoop"])
    have_driver = pr.build_ok
    if not have_driver:
        rc, log = ctx.lake(["build", "drv_c12"])
        have_driver = rc == 0
        if not have_driver:
            ctx.notes.append("the Lean driver does not build: correspondence skipped, direct oracles only")

    # ---------------------------------------------------------------- programs
    rng = ctx.rng
    core = enum_core()
    closed = closed_form_cases()
    escal = bool(ctx.escalated) and ctx.tier != "thorough"
    if ctx.tier == "thorough":
        closed_run, nrand = closed, 19000
    elif escal:
        # a fingerprint changed / the translator lost its template: everything enumerated, more random programs,
        # no time box
        closed_run, nrand = closed, 600
    else:
        core = rng.sample(core, min(len(core), 110))
        # unchanged fingerprints: a seeded sample of <= 6 cases of every sub-scenario construct (every case when a
        # fingerprint changed or a template was lost, see above) so that the guaranteed minimum fits 2-3 workers
        byname = {}
        for c in closed:
            if c[0].startswith(("subscenario", "terminate-after-scenario")):
                byname.setdefault(c[0], []).append(c)
        closed_run = [c for cs in byname.values() for c in (cs if len(cs) <= 6 else rng.sample(cs, 6))]
        closed_run += [c for c in closed if c[0] == "seconds-float-rounding"][:2]
        rest = [c for c in closed if c not in closed_run]
        closed_run += rng.sample(rest, min(len(rest), 110))
        nrand = 220
    # one case of every construct first, so that a time-boxed run still sees every construct
    seen, first, later = set(), [], []
    for c in closed_run:
        # always first: one case of every construct and every sub-scenario case (the ones the repaired defects and most
        # tree-walk mutants need)
        (later if c[0] in seen and not c[0].startswith(("subscenario", "terminate-after-scenario")) else first).append(c)
        seen.add(c[0])
    closed_run = first + later
    rand = [gen_prog(rng) for _ in range(nrand)]
    a = [("closed", p, name, exp) for name, p, exp in closed_run]
    b = [("core", p, None, None) for p in core]
    c = [("random", p, None, None) for p in rand]
    jobs = a[:len(first)]
    a = a[len(first):]
    for i in range(max(len(a), len(b), len(c))):
        jobs += a[i:i + 1] + b[i:i + 1] + c[i:i + 1]
    minimum = len(first) + 10
    workers = int(os.environ.get("VERIF_WORKERS") or ctx.budget(8, 14))
    t0 = time.time()
    # quick tier: time box (a changed fingerprint / lost template doubles it and runs every closed-form case first)
    # thorough tier: every closed-form and enumerated program, then seeded random programs until 15 minutes have passed
    deadline = ctx.t0 + 900 if ctx.tier == "thorough" else ctx.t0 + (270 if escal else 110)
    reals = run_many(ctx, [j[1] for j in jobs], workers, deadline=deadline, minimum=minimum)
    if len(reals) < len(jobs):
        ctx.notes.append(f"time box: {len(reals)} of {len(jobs)} planned programs were run")
        jobs = jobs[:len(reals)]
    ctx.extra["real_runs_s"] = round(time.time() - t0, 1)
    if any(r.startswith("harness-error") for r in reals):
        raise Infra("harness failure: " + next(r for r in reals if r.startswith("harness-error")))
    ncomp = sum(r.startswith("compile-error") for r in reals)
    if ncomp > len(reals) // 20:
        raise Infra(f"{ncomp} generated programs did not compile: " + next(r for r in reals if r.startswith("compile-error")))

    found = False
    lean_gen = lean_doc = None
    if have_driver:
        lean_gen = ctx.driver([tok_prog(j[1]) for j in jobs])
        lean_doc = ctx.driver([tok_prog(j[1], op="rundoc") for j in jobs])
        wf = ctx.driver(["C12 wf " + (parse_line(r)[1] and ";".join(parse_line(r)[1]) or "-") for r in reals])
    nbad = 0
    for k, ((kind, p, name, exp), real) in enumerate(zip(jobs, reals)):
        h, evs = parse_line(real)
        steps = sum(1 for e in evs if e.startswith("sim:"))
        feats = features(p)
        ctx.case(("prog", json.dumps(p, sort_keys=True)), nontrivial=steps > 0 or h[0] not in ("timeLimit",))
        ctx.hist("kind", kind)
        ctx.hist("outcome", h[0][:40])
        ctx.hist("timestep", p["dt"])
        ctx.hist("scenario_classes", len(p["scens"]))
        ctx.hist("executed_steps", min(steps, 8))
        for f in feats:
            ctx.hist("constructs", f)
        rep = {"kind": "program", "prog": p}
        if h[0].startswith("compile-error"):
            ctx.hist("generator", "invalid")
            continue
        if h[0].startswith("crash:"):
            found |= ctx.violation(f"crash:{h[0][6:]}", f"the simulation raised {h[0][6:]}: "
                                   f"{';'.join(evs[-8:])}", rep)
            continue
        if h[0] == "rejected":
            # no program of the fragment has a requirement that can fail
            found |= ctx.violation("rejected", "the simulation was rejected although the program has no requirement that "
                                   f"can fail: {';'.join(evs[-8:])}", rep)
            continue
        # (S5) post-condition of `_stop` (theorems stopScen_stops / stopScen_settled) on the real scenario objects
        ps = [e for e in evs if e.startswith("poststop:")]
        if ps:
            found |= ctx.violation(f"stop-postcondition:{ps[0].split(':', 2)[2]}",
                                   f"after DynamicScenario._stop of scenario {ps[0].split(':')[1]} something is left alive "
                                   f"({ps[0].split(':', 2)[2]}): {';'.join(evs[max(0, evs.index(ps[0]) - 6):evs.index(ps[0]) + 2])}", rep)
            evs = [e for e in evs if not e.startswith("poststop:")]
        # (S4) nothing runs after the top-level scenario has stopped
        bad = after_top_stop(evs)
        if bad is not None:
            found |= ctx.violation(f"after-top-stop:{evs[bad].split(':')[0]}",
                                   f"after the top-level scenario stopped (stop:0) the run went on with `{evs[bad]}`: "
                                   f"{';'.join(evs[max(0, bad - 6):bad + 2])}", rep)
        # (S2) documented order, without any model: the spec automaton on the real event log
        if have_driver:
            w = wf[k].split(" ")
            if w[0] != "ok":
                kindof = (w[2] if len(w) > 2 else "?").split(":")[0]
                found |= ctx.violation(f"order:{kindof}",
                                       f"the event log of the real run leaves the documented order at event #{w[1]} "
                                       f"({w[2] if len(w) > 2 else ''}): {';'.join(evs[max(0, int(w[1]) - 6):int(w[1]) + 2])}", rep)
            elif h[0] != "rejected":
                if w[1] != "1" or w[2] != h[1]:
                    found |= ctx.violation("order:final", f"run ended ({h[0]}) in a non-final position of the documented order "
                                           f"or with clock {h[1]} != executed steps {w[2]}", rep)
                if int(h[2]) != int(h[1]) + 1 or int(h[3]) != int(h[1]):
                    found |= ctx.violation("lengths", f"trajectory has {h[2]} states, action log {h[3]} entries, clock {h[1]}", rep)
        # (C) model with the generated data vs real run
        if have_driver and real != lean_gen[k]:
            nbad += 1
            if nbad <= 5:
                d = first_diff(real, lean_gen[k])
                ctx.broken("correspondence", "SimLoop model (generated phase order/flags) vs real run",
                           f"first difference at event {d[0]}: real={d[1]} model={d[2]}; program={json.dumps(p)[:600]}")
        # (S1) documented semantics (documented order, no defect flags) vs real run
        if have_driver and real != lean_doc[k]:
            d = first_diff(real, lean_doc[k])
            why = "event:" + d[1].split(":")[0]
            found |= ctx.violation(f"doc-deviation:{why}",
                                   f"the real run differs from the documented semantics at event {d[0]}: real={d[1]} "
                                   f"documented={d[2]} (real ended `{' '.join(h)}`, documented `{parse_line(lean_doc[k])[0]}`)", rep)
        # (S3) closed forms
        if kind == "closed":
            r = check_closed(name, p, exp, real)
            ctx.hist("closed_form", name + (":deviates" if r else ":ok"))
            if r:
                found |= ctx.violation(f"construct:{name}", f"`{name}` (timestep {p['dt']}): {r}", dict(rep, name=name, expect=exp))
    ctx.extra["correspondence_mismatches"] = nbad
    ctx.extra["compare_s"] = round(time.time() - t0 - ctx.extra["real_runs_s"], 1)
    if ctx.brokens and not found:
        # failing-input search after a break: the closed-form family in full (boundary values of every duration)
        rest = [c for c in closed if c not in closed_run]
        for (name, p, exp), real in zip(rest, run_many(ctx, [c[1] for c in rest], workers)):
            ctx.case(("prog", json.dumps(p, sort_keys=True)))
            r = check_closed(name, p, exp, real)
            if r:
                found |= ctx.violation(f"construct:{name}", f"`{name}` (timestep {p['dt']}): {r}",
                                       {"kind": "program", "prog": p, "name": name, "expect": exp})
    ctx.resolve_brokens(found)


def replay(ctx, path):
    body = json.load(open(path))
    rep = body.get("replay", body)
    if rep.get("kind") != "program":
        print(json.dumps(rep, indent=1)[:4000])
        return 0
    p = rep["prog"]
    print(scenic_text(p))
    print(f"# timestep={p['dt']} maxSteps={p['max']} schedule modes={p['sched']} conditions={p['conds']}")
    real = run_real(p)
    print("real      :", real)
    try:
        gen, doc = ctx.driver([tok_prog(p), tok_prog(p, op="rundoc")])
        print("model(gen):", gen)
        print("model(doc):", doc)
        d = first_diff(real, doc)
        print("first difference real/documented:", d)
        w = ctx.driver(["C12 wf " + ";".join(parse_line(real)[1])])[0]
        print("order automaton on the real log:", w)
    except Infra as e:
        print("(Lean driver unavailable:", e, ")")
        doc = None
    bad = doc is not None and real != doc
    if "expect" in rep:
        r = check_closed(rep.get("name", "?"), p, rep["expect"], real)
        print("closed form:", rep["expect"], "->", r or "as documented")
        bad = bad or bool(r)
    return 1 if bad else 0
